----------------------------- MODULE Collisions -----------------------------
(* C13 -- the collision resolve loop of reb_collision_search (src/collision.c): a list of pending
   collisions (index pairs, found by the search and shuffled), a user resolver returning
   0 / 1 (remove p1) / 2 (remove p2) / 3 (both), removal of particles from the array
   (order-preserving, swap-with-last, or deferred when a tree is in use) and the index fix-ups of
   the entries still pending.  Transcribed branch by branch.

   Particle identities are ghost ids: arr is the particle array (sequence of ids).  `ident` keeps,
   for every pending entry, the two identities it named when it was found.  The property: every
   resolver call names two live particles -- the ones the search found -- no live pair is dropped,
   no particle is lost, duplicated or removed twice, whatever the order of the list.            *)
EXTENDS Integers, Sequences, FiniteSets, TLC

CONSTANTS MaxN, MaxEdges, Orient, Policy   \* Orient: "both" (direct), "once" (line), "some" (tree); Policy: "free" | "merge"

VARIABLES arr, pend, ident, k, ks, tree, gone, marked, calls, touched, arr0
vars == <<arr, pend, ident, k, ks, tree, gone, marked, calls, touched, arr0>>

Dead == [p1 |-> -1, p2 |-> -1]
Live(c) == c.p1 # -1 /\ c.p2 # -1
N == Len(arr)

(* reb_simulation_remove_particle(r, idx, ks) without a tree: returns the new array *)
RemoveSorted(a, i) == [j \in 1..(Len(a) - 1) |-> IF j < i + 1 THEN a[j] ELSE a[j + 1]]
RemoveSwap(a, i) == IF i + 1 = Len(a) THEN SubSeq(a, 1, Len(a) - 1)
                    ELSE [j \in 1..(Len(a) - 1) |-> IF j = i + 1 THEN a[Len(a)] ELSE a[j]]

(* fix-ups of the entries after position kk when index x was removed; nn = N after the removal *)
Kill(c, x) == IF c.p1 = x \/ c.p2 = x THEN Dead ELSE c
AdjSorted(c, x) == [p1 |-> IF c.p1 > x THEN c.p1 - 1 ELSE c.p1, p2 |-> IF c.p2 > x THEN c.p2 - 1 ELSE c.p2]
AdjSwap(c, x, nn) == [p1 |-> IF c.p1 = nn THEN x ELSE c.p1, p2 |-> IF c.p2 = nn THEN x ELSE c.p2]
FixTree(pd, kk, x) == [j \in 1..Len(pd) |-> IF j > kk THEN Kill(pd[j], x) ELSE pd[j]]
FixPlain(pd, kk, x, sorted, nn) ==
  [j \in 1..Len(pd) |-> IF j > kk THEN (IF sorted THEN AdjSorted(Kill(pd[j], x), x) ELSE AdjSwap(Kill(pd[j], x), x, nn)) ELSE pd[j]]

(* the whole body of the loop for entry kk with resolver result out (0..3); returns the new state record *)
Body(kk, out) ==
  LET c0 == pend[kk]
      \* ---- outcome & 1: remove p1
      rem1 == (out \in {1, 3}) /\ ~(tree /\ ks)              \* keep_sorted removal is refused when a tree is in use
      s1 == IF ~rem1 THEN [arr |-> arr, pend |-> pend, c |-> c0, marked |-> marked, gone |-> gone]
            ELSE IF tree THEN [arr |-> arr, pend |-> FixTree(pend, kk, c0.p1), c |-> c0,
                               marked |-> marked \cup {c0.p1}, gone |-> gone \cup {arr[c0.p1 + 1]}]
            ELSE LET a2 == IF ks THEN RemoveSorted(arr, c0.p1) ELSE RemoveSwap(arr, c0.p1)
                     nn == Len(a2)
                     c2 == IF ks THEN [c0 EXCEPT !.p2 = IF c0.p2 > c0.p1 THEN c0.p2 - 1 ELSE c0.p2]
                           ELSE [c0 EXCEPT !.p2 = IF c0.p2 = nn THEN c0.p1 ELSE c0.p2] IN
                 [arr |-> a2, pend |-> FixPlain(pend, kk, c0.p1, ks, nn), c |-> c2, marked |-> marked,
                  gone |-> gone \cup {arr[c0.p1 + 1]}]
      \* ---- outcome & 2: remove p2 (with the locally adjusted index)
      rem2 == (out \in {2, 3}) /\ ~(tree /\ ks)
      s2 == IF ~rem2 THEN s1
            ELSE IF tree THEN [s1 EXCEPT !.pend = FixTree(s1.pend, kk, s1.c.p2), !.marked = s1.marked \cup {s1.c.p2},
                                         !.gone = s1.gone \cup {s1.arr[s1.c.p2 + 1]}]
            ELSE LET a3 == IF ks THEN RemoveSorted(s1.arr, s1.c.p2) ELSE RemoveSwap(s1.arr, s1.c.p2) IN
                 [s1 EXCEPT !.arr = a3, !.pend = FixPlain(s1.pend, kk, s1.c.p2, ks, Len(a3)),
                            !.gone = s1.gone \cup {s1.arr[s1.c.p2 + 1]}] IN
  s2

(* built-in merge resolver (reb_collision_resolve_merge): at most one merger per particle and step
   (last_collision == t), the particle with the larger index is removed                           *)
MergeOutcome(c) == IF arr[c.p1 + 1] \in touched \/ arr[c.p2 + 1] \in touched THEN 0
                   ELSE IF c.p1 < c.p2 THEN 2 ELSE 1

(* the loop reaches entry kk (everything between k and kk is dead and skipped) and resolves it *)
ResolveAt(kk, out) ==
  /\ kk \in k..Len(pend) /\ Live(pend[kk])
  /\ \A j \in k..(kk - 1) : ~Live(pend[j])
  /\ (Policy = "merge" => out = MergeOutcome(pend[kk]))
  /\ LET s == Body(kk, out) IN
       /\ arr' = s.arr /\ pend' = s.pend /\ marked' = s.marked /\ gone' = s.gone
       /\ calls' = Append(calls, <<arr[pend[kk].p1 + 1], arr[pend[kk].p2 + 1], out>>)
       /\ touched' = IF out # 0 THEN touched \cup {arr[pend[kk].p1 + 1], arr[pend[kk].p2 + 1]} ELSE touched
  /\ k' = kk + 1
  /\ UNCHANGED <<ident, ks, tree, arr0>>
Resolve(out) == ResolveAt(k, out)

Skip == /\ k <= Len(pend) /\ ~Live(pend[k])
        /\ k' = k + 1
        /\ UNCHANGED <<arr, pend, ident, ks, tree, gone, marked, calls, touched, arr0>>

(* ---- the search result: an overlap graph, its orientations, any order *)
Pairs(n) == {<<a, b>> \in (0..(n - 1)) \X (0..(n - 1)) : a < b}
RECURSIVE Perms(_)
Perms(S) == IF S = {} THEN {<<>>} ELSE UNION {{<<x>> \o p : p \in Perms(S \ {x})} : x \in S}
Entries(E) ==
  CASE Orient = "both" -> {E \cup {<<e[2], e[1]>> : e \in E}}
    [] Orient = "once" -> {E}
    [] Orient = "some" -> LET R == {<<e[2], e[1]>> : e \in E} IN      \* the tree reports one or both orientations
                          {F \in SUBSET (E \cup R) : \A e \in E : e \in F \/ <<e[2], e[1]>> \in F}

Init ==
  /\ \E n \in 2..MaxN : \E E \in SUBSET Pairs(n) : Cardinality(E) \in 1..MaxEdges /\
       \E F \in Entries(E) : \E p \in Perms(F) :
          /\ arr = [i \in 1..n |-> i]
          /\ pend = [j \in 1..Len(p) |-> [p1 |-> p[j][1], p2 |-> p[j][2]]]
          /\ ident = [j \in 1..Len(p) |-> <<p[j][1] + 1, p[j][2] + 1>>]
  /\ arr0 = arr
  /\ ks \in BOOLEAN /\ tree \in BOOLEAN
  /\ k = 1 /\ gone = {} /\ marked = {} /\ calls = <<>> /\ touched = {}

Next == (\E out \in 0..3 : Resolve(out)) \/ Skip
Spec == Init /\ [][Next]_vars

-----------------------------------------------------------------------------
Alive(id) == id \notin gone
(* every entry still pending names the two identities it named when it was found *)
PendingTracksIdentity ==
  \A j \in k..Len(pend) : Live(pend[j]) =>
     /\ pend[j].p1 \in 0..(N - 1) /\ pend[j].p2 \in 0..(N - 1)
     /\ arr[pend[j].p1 + 1] = ident[j][1] /\ arr[pend[j].p2 + 1] = ident[j][2]
     /\ Alive(ident[j][1]) /\ Alive(ident[j][2])
(* no collision between two surviving particles is dropped *)
NoCollisionLost ==
  \A j \in k..Len(pend) : Alive(ident[j][1]) /\ Alive(ident[j][2]) => Live(pend[j])
(* the array holds exactly the survivors, each once; order kept when requested *)
IsSubseq(a, b) == \E f \in [1..Len(a) -> 1..Len(b)] : (\A i \in 1..Len(a) : a[i] = b[f[i]]) /\ (\A i, j \in 1..Len(a) : i < j => f[i] < f[j])
ExactlySurvivors ==
  IF tree THEN arr = arr0 /\ {arr[i + 1] : i \in marked} = gone
  ELSE /\ {arr[i] : i \in 1..N} = {arr0[i] : i \in 1..Len(arr0)} \ gone
       /\ N = Len(arr0) - Cardinality(gone)
       /\ (ks => IsSubseq(arr, arr0))
(* the resolver is never handed a particle that was already removed, and a removal happens once *)
CallsNameLive == \A i \in 1..Len(calls) : \A j \in 1..(i - 1) :
                   (calls[j][3] \in {1, 3} /\ ~(tree /\ ks) => calls[i][1] # calls[j][1] /\ calls[i][2] # calls[j][1])
                /\ (calls[j][3] \in {2, 3} /\ ~(tree /\ ks) => calls[i][1] # calls[j][2] /\ calls[i][2] # calls[j][2])
(* merge policy: nobody merges twice in one step and each merger removes exactly one particle *)
MergedAtMostOnce == Policy = "merge" =>
   /\ \A i, j \in 1..Len(calls) : i < j /\ calls[i][3] # 0 /\ calls[j][3] # 0 =>
          {calls[i][1], calls[i][2]} \cap {calls[j][1], calls[j][2]} = {}
   /\ Cardinality(gone) = Cardinality({i \in 1..Len(calls) : calls[i][3] # 0}) \/ (tree /\ ks)
=============================================================================
