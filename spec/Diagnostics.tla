----------------------------- MODULE Diagnostics -----------------------------
(* C04 -- what the diagnostics return, as exact rational functions on integer lattices, and the accuracy classes
   the conservation laws are held to.

   Energy (reb_simulation_energy): kinetic energy of the interacting bodies (the active ones; all bodies when test
   particles carry mass, testparticle_type = 1) minus G m_i m_j / r_ij over the unordered pairs with i active and j
   interacting, plus the tracked offset.  On COLLINEAR integer configurations r_ij is an integer, so the energy is a
   rational number; twice the energy is printed as a fraction.  Angular momentum sum m r x v and the centre of mass
   are evaluated on 3-d integer configurations.

   Classes: for every integrator family the decade (floor log10 of the relative error) that momentum, centre-of-mass
   motion, angular momentum and energy must stay below over the sampled runs -- rounding for momentum / centre of
   mass everywhere and for angular momentum of the fixed-step symplectic schemes; scheme accuracy otherwise.       *)
EXTENDS Integers, Sequences, FiniteSets, TLC, Json

RECURSIVE GCD(_, _)
GCD(a, b) == IF b = 0 THEN (IF a < 0 THEN -a ELSE a) ELSE GCD(b, a % b)
Norm(r) == LET g == GCD(r[1], r[2]) s == IF r[2] < 0 THEN -1 ELSE 1 IN IF r[1] = 0 THEN <<0, 1>> ELSE <<s * (r[1] \div g), s * (r[2] \div g)>>
R(n) == <<n, 1>>
Add(a, b) == Norm(<<a[1] * b[2] + b[1] * a[2], a[2] * b[2]>>)
Sub(a, b) == Norm(<<a[1] * b[2] - b[1] * a[2], a[2] * b[2]>>)
Abs(a) == IF a < 0 THEN -a ELSE a

MassSets == {<<1, 1, 1, 1>>, <<4, 2, 1, 1>>, <<3, 1, 2, 5>>}
XS == {<<0, 2, 5, 9>>, <<-4, 1, 3, 10>>}
VEL == <<<<1, 0, 2>>, <<-1, 3, 0>>, <<2, -2, 1>>, <<0, 1, -3>>>>
POS3 == <<<<1, 0, 2>>, <<-2, 3, 1>>, <<4, -1, -3>>, <<0, 5, 2>>>>

Interacting(n, na, ty) == IF ty = 1 THEN 1..n ELSE 1..na
RECURSIVE SumK(_, _, _)
(* twice the kinetic energy *)
SumK(m, I, k) == IF k = 0 THEN 0 ELSE (IF k \in I THEN m[k] * (VEL[k][1] * VEL[k][1] + VEL[k][2] * VEL[k][2] + VEL[k][3] * VEL[k][3]) ELSE 0) + SumK(m, I, k - 1)
Pairs(n, na, ty) == {p \in (1..n) \X (1..n) : p[1] < p[2] /\ p[1] <= na /\ p[2] \in Interacting(n, na, ty)}
RECURSIVE SumPairs(_, _, _, _)
SumPairs(S, m, x, g) == IF S = {} THEN R(0) ELSE LET p == CHOOSE p \in S : TRUE IN
                          Add(<<2 * g * m[p[1]] * m[p[2]], Abs(x[p[1]] - x[p[2]])>>, SumPairs(S \ {p}, m, x, g))
TwoE(n, na, ty, m, x, g, off) == Add(Sub(R(SumK(m, Interacting(n, na, ty), n)), SumPairs(Pairs(n, na, ty), m, x, g)), R(2 * off))
(* angular momentum over ALL bodies, centre of mass over ALL bodies (reb_simulation_com) *)
RECURSIVE LSum(_, _, _)
LSum(m, n, c) == IF n = 0 THEN 0 ELSE
   LET r == POS3[n] v == VEL[n] IN
   m[n] * (CASE c = 1 -> r[2] * v[3] - r[3] * v[2] [] c = 2 -> r[3] * v[1] - r[1] * v[3] [] c = 3 -> r[1] * v[2] - r[2] * v[1]) + LSum(m, n - 1, c)
RECURSIVE MSum(_, _), MXSum(_, _, _)
MSum(m, n) == IF n = 0 THEN 0 ELSE m[n] + MSum(m, n - 1)
MXSum(m, n, c) == IF n = 0 THEN 0 ELSE m[n] * POS3[n][c] + MXSum(m, n - 1, c)

(* accuracy classes (decades): <<momentum / com, angular momentum, energy>> *)
Classes == [ias15 |-> <<-12, -13, -12>>, bs |-> <<-11, -10, -6>>,
            whfast |-> <<-11, -11, -3>>, whfast_barycentric |-> <<-11, -8, -3>>, saba |-> <<-11, -11, -3>>, eos |-> <<-11, -11, -3>>,
            leapfrog |-> <<-11, -11, -2>>, janus |-> <<-11, -11, -2>>, mercurius |-> <<-11, -11, -3>>, trace |-> <<-11, -11, -3>>,
            whfast512 |-> <<-11, -11, -3>>]
ClassesSane == \A k \in DOMAIN Classes : Classes[k][1] <= -11 /\ Classes[k][2] <= -8 /\ Classes[k][3] <= -2

VARIABLE row
Init == row \in ({<<"E", n, na, ty, m, x, g, off>> : n \in 2..4, na \in 1..4, ty \in {0, 1}, m \in MassSets, x \in XS, g \in {1, 2}, off \in {0, 5}}
                 \cup {<<"L", n, m>> : n \in 1..4, m \in MassSets} \cup {<<"C", 0>>})
        /\ (row[1] = "E" => row[3] <= row[2])
Next == UNCHANGED row
Spec == Init /\ [][Next]_row
Emit == CASE row[1] = "E" -> PrintT(<<"E", ToJson([n |-> row[2], na |-> row[3], ty |-> row[4], m |-> row[5], x |-> row[6], g |-> row[7], off |-> row[8],
                                                  twoE |-> TwoE(row[2], row[3], row[4], row[5], row[6], row[7], row[8])])>>)
          [] row[1] = "L" -> PrintT(<<"L", ToJson([n |-> row[2], m |-> row[3], L |-> <<LSum(row[3], row[2], 1), LSum(row[3], row[2], 2), LSum(row[3], row[2], 3)>>,
                                                  M |-> MSum(row[3], row[2]), MX |-> <<MXSum(row[3], row[2], 1), MXSum(row[3], row[2], 2), MXSum(row[3], row[2], 3)>>])>>)
          [] row[1] = "C" -> PrintT(<<"C", ToJson(Classes)>>)
(* all active, no offset: the energy is a symmetric function of the bodies (pairs counted once) *)
PairCount == row[1] = "E" /\ row[3] = row[2] => Cardinality(Pairs(row[2], row[3], row[4])) = (row[2] * (row[2] - 1)) \div 2
=============================================================================
