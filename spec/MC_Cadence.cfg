SPECIFICATION Spec
CONSTANTS
  Dts = {1, 2}
  Intervals = {2, 3}
  AutoSteps = {1, 2}
  MaxT = 7
  MaxRestarts = 1
  MaxInt = 2
INVARIANT StepCadence
INVARIANT IntervalCadence
INVARIANT IntervalNoDup
CONSTRAINT Bound
CHECK_DEADLOCK FALSE
