--------------------------- MODULE Trace_Integrate ---------------------------
(* Trace validation for Integrate: one trace = all integrate() calls made on one simulation (and,
   after a `reset` event, on a restored copy of its initial state).  Events come from the hooks
   int_begin / check_exit / step / int_end in src/rebound.c; the heartbeat events are written by the
   harness from its own knowledge (its own heartbeat callback evaluates the exit condition on the
   same particle state before the library does).  Doubles are replaced by ranks (0.0 |-> 0); the
   arithmetic facts sum = t+dt, rem = tmax-t, neg = -dt, near are evaluated by the harness in
   binary64 from the logged operands.                                                             *)
EXTENDS Integrate, Json, IOUtils, TLCExt

Traces == ndJsonDeserialize(IOEnv.TRACE_FILE)
Verbose == "VERBOSE" \in DOMAIN IOEnv /\ IOEnv.VERBOSE = "1"

VARIABLES tid, l, traj, splitOK, countOK
tvars == <<vars, tid, l, traj, splitOK, countOK>>

Ev == Traces[tid].events

TraceInit == /\ tid \in 1..Len(Traces) /\ l = 1
             /\ InitWith(Traces[tid].init.t, Traces[tid].init.dt)
             /\ traj = <<>> /\ splitOK = TRUE /\ countOK = TRUE

Keep == UNCHANGED <<traj, splitOK, countOK>>

TBegin(e) == /\ e.t = t /\ e.dtpre = dt
             /\ Begin(e.tmax, e.inf, e.exact, [neg |-> e.neg])
             /\ dt' = e.dt
             /\ Keep
THb(e) == Heartbeat(e.ev, e.gone) /\ Keep
TCheck(e) == /\ e.t = t /\ e.dtin = dt /\ e.sin = status
             /\ CheckExit([sum |-> e.sum, rem |-> e.rem, near |-> e.near, err |-> e.err])
             /\ status' = e.sout /\ dt' = e.dtout /\ lfd' = e.lfd /\ dtld = e.dtld
             /\ Keep
TStep(e) == Step(e.t, e.dt, e.dtld, [sum |-> e.sum, sum2 |-> e.sum2]) /\ Keep
TSetDt(e) == SetDt(e.dt) /\ Keep
(* end of a call: e.nexp >= 0 is the number of steps the step size implies (computed by the
   harness with exact rational arithmetic on the dyadic lattice); e.dig is the id of the
   particle-array digest.  Without exact finishing and without an exit event
   the digest is a function of the number of steps since the root state: the same number must give
   the same bits whatever the partition into calls.                                               *)
TEnd(e) == /\ End /\ e.t = t /\ dt' = e.dt /\ e.status = status
           /\ countOK' = (e.nexp >= 0 /\ status = SUCCESS => steps = e.nexp)
           /\ IF clean /\ e.dig >= 0
                THEN IF total \in DOMAIN traj
                       THEN splitOK' = (traj[total] = e.dig) /\ traj' = traj
                       ELSE splitOK' = splitOK /\ traj' = (total :> e.dig) @@ traj
                ELSE UNCHANGED <<traj, splitOK>>
(* a fresh copy of the root state: everything back to the initial values, trajectory table kept *)
TReset(e) == /\ pc \in {"idle", "done"}
             /\ pc' = "idle" /\ t' = e.t /\ dt' = e.dt /\ status' = RUNNING /\ lfd' = e.dt /\ dtld' = 0
             /\ tmax' = e.t /\ inf' = FALSE /\ exact' = 1 /\ n0' = FALSE
             /\ calls' = 0 /\ t0' = e.t /\ dtUser' = e.dt /\ dtBegin' = e.dt /\ steps' = 0 /\ tPrev' = e.t
             /\ shortened' = FALSE /\ fullDt' = e.dt /\ exitEv' = 0 /\ exitSteps' = 0 /\ nearEnd' = FALSE
             /\ total' = 0 /\ clean' = TRUE
             /\ Keep

TraceNext == /\ l <= Len(Ev)
             /\ LET e == Ev[l] IN
                  \/ e.e = "begin" /\ TBegin(e)
                  \/ e.e = "hb" /\ THb(e)
                  \/ e.e = "check" /\ TCheck(e)
                  \/ e.e = "step" /\ TStep(e)
                  \/ e.e = "end" /\ TEnd(e)
                  \/ e.e = "reset" /\ TReset(e)
                  \/ e.e = "setdt" /\ TSetDt(e)
             /\ l' = l + 1 /\ UNCHANGED tid

TraceSpec == TraceInit /\ [][TraceNext]_tvars

SplitInvariant == splitOK
StepCount == countOK
TTimeMonotone == [][pc = "step" => Ge(t', t, D)]_tvars
TNoStepAfterExit == [][pc = "step" /\ pc' = "hb" => status < 0]_tvars

Report == /\ (l = Len(Ev) + 1 => PrintT(<<"ACC", tid>>))
          /\ (Verbose => PrintT(<<"AT", tid, l>>))
=============================================================================
