------------------------------ MODULE Schedule ------------------------------
(* Operator schedules of the fixed-step splitting integrators and the synchronisation flag
   machine (C09; also the discrete part of C01, C04 and C10).

   An integrator step is a WORD over operators <<name, c, c2>>, c in units of dt * 10^-8:
     K kepler drift   C centre-of-mass drift   J jump   V kick (interaction)   corr / corr2 symplectic
     correctors (sign * order)   sc SABA corrector   D / I EOS drift / interaction (c2 = dt^3
     coefficient)   pre / post EOS processors   lfD lfV leapfrog   seiH seiP SEI   jD jV JANUS
     mV mJ mC mK mE MERCURIUS   FI / TI coordinate transformations from / to inertial.
   The words are transcribed per file:  integrator_whfast.c (part1, part2, synchronize, four
   kernels), integrator_saba.c, integrator_eos.c (shell 0; shell 1 and the processors are the
   `inner' words below), integrator_leapfrog.c, integrator_sei.c, integrator_janus.c,
   integrator_mercurius.c.  Coefficients come from ScheduleTables.

   The flag machine: is_synchronized, safe_mode, keep_unsynchronized,
   recalculate_coordinates_this_timestep.  User-level actions: Step, Sync (explicit, or the one
   at the end of integrate()), Observe (energy, copy, snapshot, reading particles: must do
   nothing), SetRecalc (the user modified particles while synchronised).                        *)
EXTENDS Integers, Sequences, FiniteSets, TLC, ScheduleTables

U == 100000000           \* one dt
H == U \div 2

VARIABLES cfg,           \* configuration record (constant along a behaviour)
          isSync, recalc, word, lastOps, steps, depth
vars == <<cfg, isSync, recalc, word, lastOps, steps, depth>>

O(n, c) == <<n, c, 0>>
Abs(x) == IF x < 0 THEN -x ELSE x
RECURSIVE SumOf(_, _)
SumOf(w, names) == IF w = <<>> THEN 0 ELSE (IF w[1][1] \in names THEN w[1][2] ELSE 0) + SumOf(Tail(w), names)
FI == <<"FI", 0, 0>>
TI == <<"TI", 0, 0>>

-----------------------------------------------------------------------------
(* configurations *)
Coords == {"jacobi", "democraticheliocentric", "whds", "barycentric"}
Kernels == {"default", "modifiedkick", "composition", "lazy"}
Correctors == {0, 3, 5, 7, 11, 17}
SabaIdx == 0..9        \* type % 0x100
SabaCorr == {0, 1, 2}  \* type \div 0x100: none, CM (modified kick), CL (lazy)
EosTypes == {"lf", "lf4", "lf6", "lf8", "lf4_2", "lf8_6_4", "plf7_6_4", "pmlf4", "pmlf6"}
JanusOrders == {2, 4, 6, 8, 10}

Cfg(fam, coord, kernel, corr, corr2, safe, keep, typ, tcorr, phi0, order, var) ==
  [fam |-> fam, coord |-> coord, kernel |-> kernel, corr |-> corr, corr2 |-> corr2, safe |-> safe, keep |-> keep,
   typ |-> typ, tcorr |-> tcorr, phi0 |-> phi0, order |-> order, var |-> var]

WhfastValid(c) ==
  /\ (c.kernel # "default" => c.coord = "jacobi")
  /\ (c.corr # 0 => c.coord \in {"jacobi", "barycentric"})
  /\ (c.corr2 = 1 => c.corr # 0)
  /\ (c.keep => ~c.safe)
  /\ (c.var => c.coord = "jacobi" /\ c.kernel = "default")     \* variational particles: Jacobi, standard kernel
WhfastCfgs == {c \in {Cfg("whfast", co, k, cr, c2, s, kp, 0, 0, "-", 0, v) :
                 co \in Coords, k \in Kernels, cr \in Correctors, c2 \in {0, 1}, s \in BOOLEAN, kp \in BOOLEAN, v \in BOOLEAN} : WhfastValid(c)}
SabaCfgs == {c \in {Cfg("saba", "jacobi", "-", 0, 0, s, kp, t, tc, "-", 0, FALSE) :
                 s \in BOOLEAN, kp \in BOOLEAN, t \in SabaIdx, tc \in SabaCorr} : (c.keep => ~c.safe) /\ (c.tcorr > 0 => c.typ <= 3)}
EosCfgs == {Cfg("eos", "-", "-", 0, 0, s, FALSE, 0, 0, p, 0, FALSE) : s \in BOOLEAN, p \in EosTypes}
MercCfgs == {Cfg("mercurius", "-", "-", 0, 0, s, FALSE, 0, 0, "-", 0, FALSE) : s \in BOOLEAN}
JanusCfgs == {Cfg("janus", "-", "-", 0, 0, TRUE, FALSE, 0, 0, "-", o, FALSE) : o \in JanusOrders}
OtherCfgs == {Cfg("leapfrog", "-", "-", 0, 0, TRUE, FALSE, 0, 0, "-", 0, FALSE), Cfg("sei", "-", "-", 0, 0, TRUE, FALSE, 0, 0, "-", 0, FALSE)}
(* WHFast512: no safe mode (always leaves the last half drift pending); tcorr = gr_potential *)
Wh512Cfgs == {Cfg("whfast512", "-", "-", 0, 0, FALSE, kp, 0, gr, "-", 0, FALSE) : kp \in BOOLEAN, gr \in {0, 1}}
AllCfgs == WhfastCfgs \cup SabaCfgs \cup EosCfgs \cup MercCfgs \cup JanusCfgs \cup OtherCfgs \cup Wh512Cfgs

-----------------------------------------------------------------------------
(* WHFast *)
WhH1(c) == IF c.kernel = "composition" THEN (5 * U) \div 8 ELSE H
WhH2(c) == IF c.kernel = "composition" THEN (3 * U) \div 8 ELSE H
WhPre(c) == (IF c.corr # 0 THEN <<O("corr", c.corr)>> ELSE <<>>) \o (IF c.corr2 = 1 THEN <<O("corr2", 1)>> ELSE <<>>)
WhPost(c) == (IF c.corr2 = 1 THEN <<O("corr2", -1)>> ELSE <<>>) \o (IF c.corr # 0 THEN <<O("corr", -c.corr)>> ELSE <<>>)
WhPart1(c, s) == (IF s THEN WhPre(c) \o <<O("K", WhH1(c)), O("C", WhH1(c))>> ELSE <<O("K", U), O("C", U)>>)
                 \o <<O("J", H), TI>>
WhPart2(c) ==
  CASE c.kernel = "default" -> <<O("V", U), O("J", H)>>
    [] c.kernel = "modifiedkick" -> <<O("V", U)>>
    [] c.kernel = "lazy" -> <<O("V", U)>>
    [] c.kernel = "composition" ->
         <<O("V", -(U \div 6)), O("K", -(U \div 4)), O("C", -(U \div 4)), O("V", U \div 6), O("K", U \div 8), O("C", U \div 8),
           O("V", U), O("K", -(U \div 8)), O("C", -(U \div 8)), O("V", -(U \div 6)), O("K", U \div 4), O("C", U \div 4),
           O("V", U \div 6)>>
WhSync(c) == <<O("K", WhH2(c)), O("C", WhH2(c))>> \o WhPost(c)

(* SABA *)
SC(c, i) == SabaC[c.typ + 1][i + 1]
SD(c, i) == SabaD[c.typ + 1][i + 1]
Stages(c) == SabaStages[c.typ + 1]
SabaPart1(c, s) ==
  (IF c.tcorr > 0
     THEN <<O("sc", IF s THEN SabaCC[c.typ + 1] ELSE 2 * SabaCC[c.typ + 1]), O("K", SC(c, 0)), O("C", SC(c, 0))>>
     ELSE IF s THEN <<O("K", SC(c, 0)), O("C", SC(c, 0))>> ELSE <<O("K", 2 * SC(c, 0)), O("C", 2 * SC(c, 0))>>)
  \o <<TI>>
RECURSIVE SabaLoop(_, _)
SabaLoop(c, j) ==
  IF j >= Stages(c) THEN <<>>
  ELSE LET st == Stages(c)
           i1 == IF j > st \div 2 THEN st - j ELSE j
           i2 == IF j > (st - 1) \div 2 THEN st - j - 1 ELSE j IN
       <<O("K", SC(c, i1)), O("C", SC(c, i1)), O("V", SD(c, i2))>> \o SabaLoop(c, j + 1)
SabaPart2(c) == <<O("V", SD(c, 0))>> \o SabaLoop(c, 1)
                \o (IF c.tcorr > 0 THEN <<O("K", SC(c, 0)), O("C", SC(c, 0))>> ELSE <<>>)
SabaSync(c) == IF c.tcorr > 0 THEN <<O("sc", SabaCC[c.typ + 1])>> ELSE <<O("K", SC(c, 0)), O("C", SC(c, 0))>>

(* EOS: a scheme is First (the opening = closing drift) and Mid (from the first interaction to the
   last one).  Shell 0 uses it once per step; shell 1 (the inner word of one shell-0 drift) n times. *)
D(a) == <<"D", a, 0>>
I(b) == <<"I", b, 0>>
Iv(b, v) == <<"I", b, v>>
RECURSIVE SymLF(_, _, _)
(* the symmetric composition of leapfrogs with coefficients a[1..m]: I(a1) D((a1+a2)/2) I(a2) ... I(am) ... I(a1) *)
SymLF(a, k, up) ==
  LET m == Len(a) IN
  IF up THEN IF k = m THEN <<I(a[m])>> \o SymLF(a, m - 1, FALSE)
             ELSE <<I(a[k]), D((a[k] + a[k + 1]) \div 2)>> \o SymLF(a, k + 1, TRUE)
  ELSE IF k = 0 THEN <<>>
       ELSE <<D((a[k] + a[k + 1]) \div 2), I(a[k])>> \o SymLF(a, k - 1, FALSE)
EFirst(t) ==
  CASE t = "lf" -> H [] t = "pmlf4" -> H
    [] t = "lf4" -> E_lf4_a [] t = "lf6" -> E_lf6_a[1] \div 2 [] t = "lf8" -> E_lf8_a[1] \div 2
    [] t = "lf4_2" -> E_lf4_2_a [] t = "lf8_6_4" -> E_lf8_6_4_a[1]
    [] t = "pmlf6" -> E_pmlf6_a[1] [] t = "plf7_6_4" -> E_plf7_6_4_a[1]
EMid(t) ==
  CASE t = "lf" -> <<I(U)>>
    [] t = "pmlf4" -> <<Iv(U, U \div 24)>>
    [] t = "lf4" -> <<I(2 * E_lf4_a), D(H - E_lf4_a), I(U - 4 * E_lf4_a), D(H - E_lf4_a), I(2 * E_lf4_a)>>
    [] t = "lf6" -> SymLF(E_lf6_a, 1, TRUE)
    [] t = "lf8" -> SymLF(E_lf8_a, 1, TRUE)
    [] t = "lf4_2" -> <<I(H), D(U - 2 * E_lf4_2_a), I(H)>>
    [] t = "lf8_6_4" -> LET a == E_lf8_6_4_a b == E_lf8_6_4_b IN
         <<I(b[1]), D(a[2]), I(b[2]), D(a[3]), I(b[3]), D(a[4]), I(b[4]), D(a[4]), I(b[3]), D(a[3]), I(b[2]), D(a[2]), I(b[1])>>
    [] t = "pmlf6" -> LET a == E_pmlf6_a b == E_pmlf6_b c == E_pmlf6_c IN
         <<Iv(b[1], c[1]), D(a[2]), Iv(b[2], c[2]), D(a[2]), Iv(b[1], c[1])>>
    [] t = "plf7_6_4" -> LET a == E_plf7_6_4_a b == E_plf7_6_4_b IN <<I(b[1]), D(a[2]), I(b[2]), D(a[2]), I(b[1])>>
(* pre-processors (the post-processor is the reversed, negated pre-processor) *)
RECURSIVE ZipDI(_, _, _, _), ZipID(_, _, _)
ZipDI(z, y, v, k) == IF k > Len(z) THEN <<>> ELSE <<D(z[k]), Iv(y[k], v[k])>> \o ZipDI(z, y, v, k + 1)
ZipID(y, z, k) == IF k > Len(z) THEN <<>> ELSE <<I(y[k]), D(z[k])>> \o ZipID(y, z, k + 1)
Zeros6 == <<0, 0, 0, 0, 0, 0>>
EPre(t) ==
  CASE t = "pmlf6" -> ZipDI(E_pmlf6_z, E_pmlf6_y, E_pmlf6_v, 1)
    [] t = "pmlf4" -> ZipID(E_pmlf4_y, E_pmlf4_z, 1)
    [] t = "plf7_6_4" -> ZipDI(E_plf7_6_4_z, E_plf7_6_4_y, Zeros6, 1)
    [] OTHER -> <<>>
RECURSIVE RevNeg(_)
RevNeg(w) == IF w = <<>> THEN <<>> ELSE <<<<w[Len(w)][1], -w[Len(w)][2], -w[Len(w)][3]>>>> \o RevNeg(SubSeq(w, 1, Len(w) - 1))
EPost(t) == RevNeg(EPre(t))
EosTypeNo(t) == CASE t = "lf" -> 0 [] t = "lf4" -> 1 [] t = "lf6" -> 2 [] t = "lf8" -> 3 [] t = "lf4_2" -> 4
                  [] t = "lf8_6_4" -> 5 [] t = "plf7_6_4" -> 6 [] t = "pmlf4" -> 7 [] t = "pmlf6" -> 8
EosPart2(c, s) == (IF s THEN <<O("pre", EosTypeNo(c.phi0))>> ELSE <<>>)
                  \o <<D(IF s THEN EFirst(c.phi0) ELSE 2 * EFirst(c.phi0))>> \o EMid(c.phi0)
EosSync(c) == <<D(EFirst(c.phi0)), O("post", EosTypeNo(c.phi0))>>
(* inner word of one shell-0 drift of length x (in the same units) with scheme t repeated n times;
   every coefficient is scaled by x / (n U) -- done by the harness on the observed side, so here x = n U *)
RECURSIVE Rep(_, _)
Rep(t, n) == IF n = 1 THEN EMid(t) ELSE EMid(t) \o <<D(2 * EFirst(t))>> \o Rep(t, n - 1)
EosInner(t, n) == EPre(t) \o <<D(EFirst(t))>> \o Rep(t, n) \o <<D(EFirst(t))>> \o EPost(t)

(* symplectic correctors of WHFast (inner words of the collapsed corr / corr2 operators) *)
ZW(a, b) == <<O("K", a), O("V", -b), O("K", -2 * a), O("V", b), O("K", a)>>
CorrBs(o) == CASE o = 3 -> CorrB3 [] o = 5 -> CorrB5 [] o = 7 -> CorrB7 [] o = 11 -> CorrB11 [] o = 17 -> CorrB17
RECURSIVE CorrDown(_, _, _), CorrUp(_, _, _)
CorrDown(o, inv, j) == LET n == Len(CorrBs(o)) IN
  IF j > n THEN <<>> ELSE ZW(-CorrA[n + 1 - j], -inv * CorrBs(o)[j]) \o CorrDown(o, inv, j + 1)
CorrUp(o, inv, j) == LET n == Len(CorrBs(o)) IN
  IF j > n THEN <<>> ELSE ZW(CorrA[j], inv * CorrBs(o)[n + 1 - j]) \o CorrUp(o, inv, j + 1)
CorrWord(o, inv) == IF o = 3 THEN ZW(CorrA[1], -inv * CorrB3[1]) \o ZW(-CorrA[1], inv * CorrB3[1])
                    ELSE CorrDown(o, inv, 1) \o CorrUp(o, inv, 1)
OpC(a, b) == <<O("K", a), O("V", b), O("K", -a)>>
OpY(a, b) == OpC(a, b) \o OpC(-a, -b)
OpU(a, b) == <<O("K", a)>> \o OpY(a, b) \o OpY(a, -b) \o <<O("K", -a)>>
Corr2Word(inv) == OpU(inv * H, inv * Corr2B) \o OpU(-inv * H, inv * Corr2B)

EosTypeByNo == <<"lf", "lf4", "lf6", "lf8", "lf4_2", "lf8_6_4", "plf7_6_4", "pmlf4", "pmlf6">>
InnerKinds == {<<"corr", o, sgn>> : o \in {3, 5, 7, 11, 17}, sgn \in {1, -1}} \cup {<<"corr2", 0, 1>>, <<"corr2", 0, -1>>}
              \cup {<<"eosinner", t, n>> : t \in 0..8, n \in 1..3}
              \cup {<<"pre", t, 0>> : t \in 0..8} \cup {<<"post", t, 0>> : t \in 0..8}
InnerWord(k) == CASE k[1] = "corr" -> CorrWord(k[2], k[3])
                  [] k[1] = "corr2" -> Corr2Word(k[3])
                  [] k[1] = "eosinner" -> EosInner(EosTypeByNo[k[2] + 1], k[3])
                  [] k[1] = "pre" -> EPre(EosTypeByNo[k[2] + 1])
                  [] k[1] = "post" -> EPost(EosTypeByNo[k[2] + 1])
(* the correctors and processors are net-zero in drift and kick (so collapsing them in the outer
   word does not hide an imbalance), and post = pre^-1 *)
InnerNeutral == \A k \in InnerKinds : k[1] \in {"corr", "corr2"} =>
                   Abs(SumOf(InnerWord(k), {"K"})) <= 40 /\ Abs(SumOf(InnerWord(k), {"V"})) <= 40
InnerEosBalanced == \A t \in 0..8, n \in 1..3 :
                   LET w == EosInner(EosTypeByNo[t + 1], n) IN
                     Abs(SumOf(w, {"D"}) - n * U) <= Len(w) /\ Abs(SumOf(w, {"I"}) - n * U) <= Len(w)

(* JANUS *)
JG(o) == CASE o = 2 -> JanusGamma2 [] o = 4 -> JanusGamma4 [] o = 6 -> JanusGamma6 [] o = 8 -> JanusGamma8 [] o = 10 -> JanusGamma10
JS(o) == CASE o = 2 -> JanusStages2 [] o = 4 -> JanusStages4 [] o = 6 -> JanusStages6 [] o = 8 -> JanusStages8 [] o = 10 -> JanusStages10
Gg(o, st) == IF st < (JS(o) + 1) \div 2 THEN JG(o)[st + 1] ELSE JG(o)[JS(o) - 1 - st + 1]
RECURSIVE JanusLoop(_, _)
JanusLoop(o, i) == IF i >= JS(o) THEN <<>>
                   ELSE <<O("jD", (Gg(o, i - 1) + Gg(o, i)) \div 2), O("jV", Gg(o, i))>> \o JanusLoop(o, i + 1)
JanusStep(o) == <<O("jD", Gg(o, 0) \div 2), O("jV", Gg(o, 0))>> \o JanusLoop(o, 1) \o <<O("jD", Gg(o, JS(o) - 1) \div 2)>>

(* WHFast512 (democratic heliocentric, everything in part1): the jump commutes with the planet-planet kicks and is done in
   one piece; with the GR potential the kicks no longer cancel in pairs and the jump is split around them *)
Wh512Step(c, s) == (IF s THEN <<FI, O("K", H), O("C", H)>> ELSE <<O("K", U), O("C", U)>>)
                   \o (IF c.tcorr = 1 THEN <<O("J", H), O("V", U), O("J", H)>> ELSE <<O("J", U), O("V", U)>>)
Wh512Sync == <<O("K", H), O("C", H), TI>>

(* MERCURIUS *)
MercPart2(s) == <<O("mV", IF s THEN H ELSE U), O("mJ", H), O("mC", U), O("mK", U), O("mE", U), O("mJ", H)>>
MercSync == <<O("mV", H), TI>>

-----------------------------------------------------------------------------
HasCoords(c) == c.fam \in {"whfast", "saba", "mercurius"}
HasFlags(c) == c.fam \in {"whfast", "saba", "eos", "mercurius", "whfast512"}

Part1(c, s) == CASE c.fam = "whfast" -> WhPart1(c, s) [] c.fam = "saba" -> SabaPart1(c, s) [] OTHER -> <<>>
Part2(c, s) == CASE c.fam = "whfast" -> WhPart2(c) [] c.fam = "saba" -> SabaPart2(c)
                 [] c.fam = "eos" -> EosPart2(c, s) [] c.fam = "mercurius" -> MercPart2(s)
                 [] c.fam = "janus" -> JanusStep(c.order)
                 [] c.fam = "whfast512" -> Wh512Step(c, s)
                 [] c.fam = "leapfrog" -> <<O("lfD", H), O("lfV", U), O("lfD", H)>>
                 [] c.fam = "sei" -> <<O("seiH", H), O("seiP", U), O("seiH", H)>>
SyncOps(c) == CASE c.fam = "whfast" -> WhSync(c) [] c.fam = "saba" -> SabaSync(c)
                [] c.fam = "eos" -> EosSync(c) [] c.fam = "mercurius" -> MercSync
                [] c.fam = "whfast512" -> Wh512Sync [] OTHER -> <<>>

(* one call of reb_simulation_step from flag state (s, rc).  With variational particles WHFast
   synchronises at the end of every step (MEGNO needs synchronised x, v, a); when
   keep_unsynchronized is set that synchronisation is undone again (the trajectory word keeps
   only StepCore).                                                                               *)
StepCore(c, s, rc) == (IF HasCoords(c) /\ (c.safe \/ rc) THEN <<FI>> ELSE <<>>)
                      \o Part1(c, s) \o Part2(c, s)
EndSync(c) == HasFlags(c) /\ (c.safe \/ c.var)
StepOps(c, s, rc) == StepCore(c, s, rc) \o (IF EndSync(c) THEN SyncOps(c) ELSE <<>>)
StepWord(c, s, rc) == IF c.var /\ c.keep THEN StepCore(c, s, rc) ELSE StepOps(c, s, rc)

Init == /\ cfg \in AllCfgs
        /\ isSync = TRUE /\ recalc = HasCoords(cfg)
        /\ word = <<>> /\ lastOps = <<>> /\ steps = 0 /\ depth = 0

Step ==
  /\ lastOps' = StepOps(cfg, isSync, recalc)
  /\ word' = word \o StepWord(cfg, isSync, recalc)
  /\ isSync' = (IF HasFlags(cfg) THEN EndSync(cfg) /\ ~cfg.keep ELSE TRUE)
  /\ recalc' = (IF cfg.fam = "mercurius" /\ cfg.safe THEN TRUE ELSE FALSE)   \* mercurius_synchronize sets the flag again
  /\ steps' = steps + 1 /\ depth' = depth + 1
  /\ UNCHANGED cfg

(* reb_simulation_synchronize.  With keep_unsynchronized the synchronised particles are produced
   but the internal coordinates are restored: the word of the trajectory does not change.        *)
Sync ==
  /\ lastOps' = (IF isSync THEN <<>> ELSE SyncOps(cfg))
  /\ IF cfg.keep THEN UNCHANGED <<word, isSync, recalc>>
     ELSE /\ word' = word \o lastOps'
          /\ isSync' = TRUE
          /\ recalc' = (IF cfg.fam = "mercurius" /\ ~isSync THEN TRUE ELSE recalc)
  /\ depth' = depth + 1
  /\ UNCHANGED <<cfg, steps>>

Observe == /\ lastOps' = <<>> /\ depth' = depth + 1
           /\ UNCHANGED <<cfg, isSync, recalc, word, steps>>

SetRecalc == /\ isSync /\ HasCoords(cfg)
             /\ recalc' = TRUE /\ lastOps' = <<>> /\ depth' = depth + 1
             /\ UNCHANGED <<cfg, isSync, word, steps>>

Next == Step \/ Sync \/ Observe \/ SetRecalc
Spec == Init /\ [][Next]_vars

-----------------------------------------------------------------------------
(* properties of the words *)
DriftNames == {"K", "D", "lfD", "seiH", "jD", "mK"}
KickNames == {"V", "I", "lfV", "seiP", "jV", "mV"}
ComNames == {"C", "mC"}
JumpNames == {"J", "mJ"}

Completed == IF isSync THEN word ELSE word \o SyncOps(cfg)
Tol == Len(Completed) + 2
(* every unit of drift is matched by a unit of kick and of centre-of-mass motion *)
Balanced ==
  /\ Abs(SumOf(Completed, DriftNames) - steps * U) <= Tol
  /\ Abs(SumOf(Completed, KickNames) - steps * U) <= Tol
  /\ (cfg.fam \in {"whfast", "saba", "mercurius", "whfast512"} => Abs(SumOf(Completed, ComNames) - steps * U) <= Tol)
  /\ ((cfg.fam = "whfast" /\ cfg.kernel = "default") \/ cfg.fam \in {"mercurius", "whfast512"} => SumOf(Completed, JumpNames) = steps * U)

(* canonical form: drop coordinate transformations, cancel adjacent inverse pairs (corrector and
   its inverse, post- and pre-processor), merge adjacent operators of the same kind; K and C commute *)
Inverse(a, b) == \/ a[1] = "corr" /\ b[1] = "corr" /\ a[2] = -b[2] /\ a[2] < 0
                 \/ a[1] = "corr2" /\ b[1] = "corr2" /\ a[2] = -1 /\ b[2] = 1
                 \/ a[1] = "post" /\ b[1] = "pre" /\ a[2] = b[2]
Mergeable == {"K", "C", "D", "mV", "sc"}
RECURSIVE Push(_, _)
Push(st, op) ==
  LET n == Len(st) IN
  IF op[1] \in {"FI", "TI"} THEN st
  ELSE IF n > 0 /\ Inverse(st[n], op) THEN SubSeq(st, 1, n - 1)
  ELSE IF n > 0 /\ op[1] \in Mergeable /\ st[n][1] = op[1] THEN [st EXCEPT ![n] = <<op[1], st[n][2] + op[2], 0>>]
  ELSE IF n > 1 /\ op[1] \in {"K", "C"} /\ st[n][1] \in {"K", "C"} /\ st[n - 1][1] = op[1]
         THEN [st EXCEPT ![n - 1] = <<op[1], st[n - 1][2] + op[2], 0>>]
  ELSE Append(st, op)
RECURSIVE CanonFrom(_, _)
CanonFrom(st, w) == IF w = <<>> THEN st ELSE CanonFrom(Push(st, w[1]), Tail(w))
Canon(w) == CanonFrom(<<>>, w)

RECURSIVE SafeRef(_, _)
SafeRef(c, k) == IF k = 0 THEN <<>> ELSE StepOps([c EXCEPT !.safe = TRUE, !.keep = FALSE], TRUE, TRUE) \o SafeRef(c, k - 1)
Close(a, b) == /\ Len(a) = Len(b)
               /\ \A i \in 1..Len(a) : a[i][1] = b[i][1] /\ Abs(a[i][2] - b[i][2]) <= 4 /\ Abs(a[i][3] - b[i][3]) <= 4
(* deferring the synchronisation does not change the schedule: completing the pending half step
   gives, after merging, exactly the safe-mode word *)
UnsafeEqualsSafe == Close(Canon(Completed), Canon(SafeRef(cfg, steps)))

(* correctors / processors bracket a synchronisation window exactly once *)
RECURSIVE Bracket(_, _)
Bracket(w, open) ==      \* -1 on a nesting error, else the final open count (0 or 1)
  IF w = <<>> THEN open
  ELSE LET o == w[1] IN
       IF o[1] \in {"corr", "pre"} /\ (o[1] = "pre" \/ o[2] > 0) THEN (IF open = 1 THEN -1 ELSE Bracket(Tail(w), 1))
       ELSE IF (o[1] = "corr" /\ o[2] < 0) \/ o[1] = "post" THEN (IF open = 0 THEN -1 ELSE Bracket(Tail(w), 0))
       ELSE Bracket(Tail(w), open)
HasBracket(c) == (c.fam = "whfast" /\ c.corr # 0) \/ (c.fam = "eos")
CorrectorBracket == HasBracket(cfg) => Bracket(word, 0) = (IF isSync \/ steps = 0 THEN 0 ELSE 1)

(* a synchronised state stays synchronised under Sync and Observe, and they execute nothing *)
SyncIdempotent == [][(Sync \/ Observe) /\ isSync => lastOps' = <<>> /\ UNCHANGED <<word, isSync>>]_vars
ObserveInert == [][Observe => UNCHANGED <<word, isSync, recalc, steps>>]_vars
KeepTransparent == [][Sync /\ cfg.keep => UNCHANGED <<word, isSync, recalc>>]_vars
NoSyncBeforeFirstStep == steps = 0 => isSync /\ word = <<>>

(* time symmetry: the safe-mode word of a scheme without correctors / processors is a palindrome *)
RECURSIVE Rev(_), SwapPass(_)
Mirror(o) == IF o[1] = "pre" THEN <<"post", o[2], o[3]>> ELSE IF o[1] = "post" THEN <<"pre", o[2], o[3]>> ELSE o
Rev(w) == IF w = <<>> THEN <<>> ELSE Append(Rev(Tail(w)), Mirror(w[1]))
(* K and C (and MERCURIUS' com / kepler / encounter drifts) commute: order them by name *)
Commute(a, b) == {a, b} \subseteq {"K", "C"} \/ {a, b} \subseteq {"mC", "mK", "mE"}
Before(a, b) == (a = "C" /\ b = "K") \/ (a = "mK" /\ b = "mC") \/ (a = "mE" /\ b \in {"mC", "mK"})
SwapPass(w) == IF Len(w) < 2 THEN w
               ELSE IF Commute(w[1][1], w[2][1]) /\ Before(w[1][1], w[2][1])
                      THEN <<w[2]>> \o SwapPass(<<w[1]>> \o SubSeq(w, 3, Len(w)))
                      ELSE <<w[1]>> \o SwapPass(Tail(w))
Norm(w) == SwapPass(SwapPass(w))
Symmetric(c) == \/ c.fam \in {"leapfrog", "sei", "janus", "mercurius"}
                \/ c.fam = "whfast" /\ c.corr = 0 /\ c.kernel = "default"
                \/ c.fam = "saba" /\ c.tcorr = 0
                \/ c.fam = "eos" /\ c.phi0 \notin {"pmlf4", "pmlf6", "plf7_6_4"}
Palindromic == Symmetric(cfg) /\ steps = 1 /\ isSync => LET w == Canon(word) IN Close(Norm(w), Norm(Rev(w)))

Bound == depth <= 6
=============================================================================
