SPECIFICATION Spec
CONSTRAINT Emit
INVARIANT Theorems
CHECK_DEADLOCK FALSE
