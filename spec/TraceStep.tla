------------------------------ MODULE TraceStep ------------------------------
(* One step of the TRACE hybrid integrator (src/integrator_trace.c reb_integrator_trace_part2) as a state machine:

      begin -> pre-check -> attempt 1 -> [forced accept | post-check -> accept | reject -> attempt 2 -> accept]

   The environment supplies what the two switching functions answer: PreP / PostP, the planet or star-planet pairs <<i, j>>
   (i < j, i active) for which S is true before / after the attempted step, and PreC / PostC, whether the pericentre
   switch is true for some active planet.  The machine keeps
      C     pericentre flag (current_C),       K   flagged pairs (current_Ks),    E   encounter list (encounter_map),
   and executes operator words:  I(1/2) J(1/2) Kep(1) Com(1) J(1/2) I(1/2), where J is skipped when C is set, Kep = WHFast
   Kepler step of every body followed by a Bulirsch-Stoer integration of the members of E when |E| >= 2; or, when C is
   set and the pericentre mode is one of the FULL ones, one integration of the whole system (word <<Full>>).

   What must hold for every answer of the switching functions (C01 / C02 / C04 clauses that live in this step):
     Covered        whenever a Kepler-type word runs, E holds the star and both end points of every flagged pair -- the
                    precondition of Gravity.tla's TracePartition; otherwise a flagged pair is summed by neither part;
     Monotone       the second attempt's flags contain the first's (K, C only grow inside a step), and they are exactly
                    what was seen before or after the attempted step;
     AtMostOneRedo  a step is attempted at most twice, the second attempt is final;
     Balanced       every attempt's word advances kicks, jumps, Kepler motion and centre of mass by exactly one step
                    (jumps by none when C is set);
     RejectIffNew   the first attempt is rejected iff the post-check saw something the pre-check had not (and no
                    collision forced acceptance);
     RestoreExact   (on traces) the working state after a rejection is bit-identical to the state the step began with.

   MapFromPost = TRUE is the behaviour of the pinned tree (the post-check rebuilt E from its own answers only while K kept
   the earlier flags): the negative model, violates Covered.                                                          *)
EXTENDS Integers, Sequences, FiniteSets, TLC

CONSTANTS N, NA, PeriMode, MapFromPost    \* bodies 0..N-1, the first NA active; "PARTIAL_BS" | "FULL_BS" | "FULL_IAS15"

Bodies == 0..(N - 1)
Pairs == {p \in Bodies \X Bodies : p[1] < p[2] /\ p[1] < NA}
Full == PeriMode # "PARTIAL_BS"
Ends(K) == {p[1] : p \in K} \cup {p[2] : p \in K}

VARIABLES pc, PreP, PostP, PreC, PostC, Coll, C, K, E, attempt, words, C1, K1, rejected
vars == <<pc, PreP, PostP, PreC, PostC, Coll, C, K, E, attempt, words, C1, K1, rejected>>

Init == /\ pc = "pre" /\ PreP \in SUBSET Pairs /\ PostP \in SUBSET Pairs /\ PreC \in BOOLEAN /\ PostC \in BOOLEAN /\ Coll \in BOOLEAN
        /\ C = FALSE /\ K = {} /\ E = {0} /\ attempt = 0 /\ words = <<>> /\ C1 = FALSE /\ K1 = {} /\ rejected = FALSE

(* reb_integrator_trace_pre_ts_check *)
PreCheck ==
  /\ pc = "pre"
  /\ C' = (PreC /\ NA >= 2)
  /\ IF C' /\ Full THEN K' = {} /\ E' = {0}                             \* FULL modes return before the pair loop
     ELSE /\ K' = PreP
          /\ E' = IF C' THEN Bodies ELSE {0} \cup Ends(PreP)
  /\ pc' = "attempt" /\ attempt' = 1
  /\ UNCHANGED <<PreP, PostP, PreC, PostC, Coll, words, C1, K1, rejected>>

KeplerWord == <<"I", "J", "W", "B", "Com", "J", "I">>
Word == IF C /\ Full THEN <<"Full">>
        ELSE [k \in 1..7 |-> LET o == KeplerWord[k] IN
                IF o = "J" /\ C THEN "J0" ELSE IF o = "B" /\ Cardinality(E) < 2 THEN "B0" ELSE o]

(* reb_integrator_trace_step *)
Attempt ==
  /\ pc = "attempt"
  /\ words' = Append(words, [word |-> Word, C |-> C, K |-> K, E |-> E])
  /\ pc' = IF attempt = 2 \/ Coll THEN "done" ELSE "post"
  /\ IF attempt = 1 THEN C1' = C /\ K1' = K ELSE UNCHANGED <<C1, K1>>
  /\ UNCHANGED <<PreP, PostP, PreC, PostC, Coll, C, K, E, attempt, rejected>>

(* reb_integrator_trace_post_ts_check and the decision *)
PostCheck ==
  /\ pc = "post"
  /\ LET newC == ~C /\ PostC /\ NA >= 2
         C2 == C \/ newC IN
     /\ C' = C2
     /\ IF newC /\ Full
        THEN /\ K' = K /\ E' = {0} /\ rejected' = TRUE              \* returns 1 before the pair loop
        ELSE LET K2 == K \cup PostP
                 newP == PostP \ K # {} IN
             /\ K' = K2
             /\ E' = IF C2 THEN Bodies
                     ELSE IF MapFromPost THEN {0} \cup Ends(PostP) ELSE {0} \cup Ends(K2)
             /\ rejected' = (newC \/ newP)
  /\ pc' = IF rejected' THEN "attempt" ELSE "done"
  /\ attempt' = IF rejected' THEN 2 ELSE attempt
  /\ UNCHANGED <<PreP, PostP, PreC, PostC, Coll, words, C1, K1>>

Next == PreCheck \/ Attempt \/ PostCheck
Spec == Init /\ [][Next]_vars

-----------------------------------------------------------------------------
IsKepler(w) == w.word # <<"Full">>
Covered == \A k \in 1..Len(words) : IsKepler(words[k]) => 0 \in words[k].E /\ Ends(words[k].K) \subseteq words[k].E
AtMostOneRedo == Len(words) <= 2 /\ (pc = "done" => Len(words) = (IF rejected THEN 2 ELSE 1))
Monotone == Len(words) = 2 =>
              /\ words[1].K \subseteq words[2].K /\ (words[1].C => words[2].C)
              /\ (IsKepler(words[2]) => words[2].K = (IF words[1].C /\ Full THEN {} ELSE PreP) \cup PostP)
Count(w, o) == Cardinality({k \in 1..Len(w) : w[k] = o})
Balanced == \A k \in 1..Len(words) : LET w == words[k] IN
              IsKepler(w) => /\ Count(w.word, "I") = 2 /\ Count(w.word, "W") = 1 /\ Count(w.word, "Com") = 1
                             /\ (IF w.C THEN Count(w.word, "J0") = 2 /\ Count(w.word, "J") = 0 ELSE Count(w.word, "J") = 2)
                             /\ (Count(w.word, "B") = 1 <=> Cardinality(w.E) >= 2)
RejectIffNew == pc = "done" => (rejected <=> (~Coll /\ ((~C1 /\ PostC /\ NA >= 2) \/ (~((~C1 /\ PostC /\ NA >= 2) /\ Full) /\ PostP \ K1 # {}))))
Terminates == <>(pc = "done")
=============================================================================
