------------------------------ MODULE Transform ------------------------------
(* C12 -- the coordinate systems of the Wisdom-Holman family as exact rational linear maps, written
   from their DEFINITIONS (not from the code):
     Jacobi                   Q_i = q_i - R_{i-1}  (R_k: centre of mass of bodies 0..k), test particles relative to
                              the centre of mass of all active bodies, slot 0 = (M_active, R, V)
     democratic heliocentric  Q_i = q_i - q_0,  P_i/m_i = v_i - V      slot 0 = (M_active, R, V)
     WHDS                     Q_i = q_i - q_0,  velocities (m_0+m_i)/m_0 (v_i - V) for active bodies
     barycentric              Q_i = q_i - R,    v_i - V
   Each map is linear and acts on every Cartesian component alike, so it is specified on one scalar
   coordinate; the lattice is: N <= 4, masses from {0..4} (m_0 > 0), N_active in 1..N, and as input
   the unit vectors e_j (one body at 1, all others at 0) -- the columns of the matrix -- plus one
   generic integer vector.  TLC evaluates the maps, checks Inverse o Forward = Id for the
   specification's own inverse and the slot-0 clause, and prints every row as exact fractions.     *)
EXTENDS Integers, Sequences, FiniteSets, TLC, Json

RECURSIVE GCD(_, _)
GCD(a, b) == IF b = 0 THEN (IF a < 0 THEN -a ELSE a) ELSE GCD(b, a % b)
Norm(r) == LET g == GCD(r[1], r[2]) s == IF r[2] < 0 THEN -1 ELSE 1 IN
           IF r[1] = 0 THEN <<0, 1>> ELSE <<s * (r[1] \div g), s * (r[2] \div g)>>
R(n) == <<n, 1>>
Add(a, b) == Norm(<<a[1] * b[2] + b[1] * a[2], a[2] * b[2]>>)
Sub(a, b) == Norm(<<a[1] * b[2] - b[1] * a[2], a[2] * b[2]>>)
Mul(a, b) == Norm(<<a[1] * b[1], a[2] * b[2]>>)
Div(a, b) == Norm(<<a[1] * b[2], a[2] * b[1]>>)

RECURSIVE SumM(_, _), SumMX(_, _, _)
SumM(m, k) == IF k = 0 THEN 0 ELSE m[k] + SumM(m, k - 1)                        \* m[1..k] (1-based: body 0 is index 1)
SumMX(m, x, k) == IF k = 0 THEN R(0) ELSE Add(Mul(R(m[k]), x[k]), SumMX(m, x, k - 1))
Com(m, x, k) == Div(SumMX(m, x, k), R(SumM(m, k)))                             \* centre of mass of bodies 1..k

(* x: sequence of rationals (one scalar coordinate per body); m: sequence of integer masses; na: N_active *)
Jacobi(m, x, na) == [i \in 1..Len(x) |-> IF i = 1 THEN Com(m, x, na)
                                          ELSE IF i <= na THEN Sub(x[i], Com(m, x, i - 1))
                                          ELSE Sub(x[i], Com(m, x, na))]
HelioPos(m, x, na) == [i \in 1..Len(x) |-> IF i = 1 THEN Com(m, x, na) ELSE Sub(x[i], x[1])]
BaryVel(m, v, na) == [i \in 1..Len(v) |-> IF i = 1 THEN Com(m, v, na) ELSE Sub(v[i], Com(m, v, na))]
WhdsVel(m, v, na) == [i \in 1..Len(v) |-> IF i = 1 THEN Com(m, v, na)
                                           ELSE IF i <= na THEN Mul(Div(R(m[1] + m[i]), R(m[1])), Sub(v[i], Com(m, v, na)))
                                           ELSE Sub(v[i], Com(m, v, na))]
(* the specification's own inverses (used for the model-level theorem) *)
(* s_k = sum_{j<=k} m_j q_j, recovered top-down: s_na = M * Q_1 *)
JacobiInv(m, Q, na) ==
  LET M == SumM(m, na)
      \* centre of mass below i: R_{i-1}; from  R_i = (eta_{i-1} R_{i-1} + m_i q_i)/eta_i and q_i = Q_i + R_{i-1}:  R_{i-1} = R_i - m_i Q_i / eta_i
      RECURSIVE Rk(_)
      Rk(k) == IF k = na THEN Q[1] ELSE Sub(Rk(k + 1), Div(Mul(R(m[k + 1]), Q[k + 1]), R(SumM(m, k + 1)))) IN
  [i \in 1..Len(Q) |-> IF i = 1 THEN Rk(1) ELSE IF i <= na THEN Add(Q[i], Rk(i - 1)) ELSE Add(Q[i], Q[1])]

Masses == {m \in UNION {[1..n -> 0..4] : n \in 1..4} : m[1] > 0}
Unit(n, j) == [i \in 1..n |-> IF i = j THEN R(1) ELSE R(0)]
Generic(n) == [i \in 1..n |-> R(2 * i * i - 3 * i - 1)]
Inputs(n) == {<<j, Unit(n, j)>> : j \in 1..n} \cup {<<0, Generic(n)>>}

VARIABLES row
Init == row \in {[m |-> m, na |-> na, j |-> inp[1], x |-> inp[2]] : m \in Masses, na \in 1..4, inp \in UNION {Inputs(n) : n \in 1..4}}
        /\ row.na <= Len(row.m) /\ Len(row.x) = Len(row.m)
Next == UNCHANGED row
Spec == Init /\ [][Next]_row

Out == [jacobi |-> Jacobi(row.m, row.x, row.na), helio |-> HelioPos(row.m, row.x, row.na),
        bary |-> BaryVel(row.m, row.x, row.na), whdsv |-> WhdsVel(row.m, row.x, row.na)]
Emit == PrintT(<<"T", ToJson([m |-> row.m, na |-> row.na, j |-> row.j, x |-> row.x, out |-> Out])>>)

(* theorems about the definitions *)
InverseOfForward == JacobiInv(row.m, Jacobi(row.m, row.x, row.na), row.na) = row.x
Slot0 == LET c == Com(row.m, row.x, row.na) IN Jacobi(row.m, row.x, row.na)[1] = c /\ HelioPos(row.m, row.x, row.na)[1] = c
                                               /\ BaryVel(row.m, row.x, row.na)[1] = c /\ WhdsVel(row.m, row.x, row.na)[1] = c
(* in barycentric coordinates the mass-weighted sum of the active bodies' coordinates vanishes *)
BaryMomentumZero == LET b == BaryVel(row.m, row.x, row.na) IN
                      SumMX(row.m, [i \in 1..Len(b) |-> IF i = 1 THEN Sub(row.x[1], b[1]) ELSE b[i]], row.na) = R(0)
=============================================================================
