SPECIFICATION Spec
CONSTANTS
 N = 4
 NA = 4
 PeriMode = "PARTIAL_BS"
 MapFromPost = FALSE
INVARIANT Covered
INVARIANT AtMostOneRedo
INVARIANT Monotone
INVARIANT Balanced
INVARIANT RejectIffNew
CHECK_DEADLOCK FALSE
