------------------------------- MODULE Switch -------------------------------
(* Histories of integrator switches on one simulation object (C01, C02).

   Assigning r->integrator (Python: sim.integrator = ...) changes nothing but the selector.  What the previous
   integrator left in the object stays there:
     grav    the selected gravity routine -- MERCURIUS and TRACE select their own partial routine in part1,
             a routine that only adds up to the full force together with their own Kepler / encounter part;
     ign     gravity_ignore_terms -- WHFast / SABA (1) and EOS (2) tell the basic routine to skip the star-planet
             terms which their Kepler step covers; every integrator that needs the full force clears it in part1;
     bsOde   the N-body ODE which BS registers in r->odes (length 6 N at the time of its last step); every
             non-BS integrator integrates all registered ODEs after its own step, and this ODE's right-hand
             side writes its own solution back into the particle array.
   The model is the step driver of src/integrator.c / src/gravity.c at that grain: Use(i) = assign the selector
   and take steps, Add = add a (test) particle.  Every step must (a) see the full pairwise force, (b) not have
   its particles overwritten by a foreign ODE, (c) not touch an ODE buffer sized for another N.
   Fallback / DropOde / ResetIgn = TRUE is the code as it is (fix commits f6ebb6b, 3713bc4, d92e7ee); FALSE are the
   negative models, each of which violates Clean.

   Binding: TLC emits every history up to MaxLen segments; harness/w_c01.py executes each on a three-body
   system (added particles are massless and far away, so the reference trajectory is unchanged) and compares the
   end state with a reference computed without REBOUND, to the accuracy class of the least accurate integrator
   used; thorough runs execute them under ASan as well.                                                      *)
EXTENDS Naturals, Sequences, FiniteSets, TLC, Json

CONSTANTS MaxLen, Fallback, DropOde, ResetIgn, Integrators

OwnGravity(i) == CASE i = "mercurius" -> "mercurius" [] i = "trace" -> "trace" [] OTHER -> "basic"

(* the value of gravity_ignore_terms an integrator wants and leaves; MERCURIUS's own routine does not read the flag *)
OwnIgnore(i) == CASE i \in {"whfast", "saba"} -> 1 [] i = "eos" -> 2 [] OTHER -> 0
ReadsIgnore(i) == i # "mercurius"
ClearsIgnore(i) == i \in {"ias15", "leapfrog", "janus"} \/ (ResetIgn /\ i \in {"bs", "trace"})

VARIABLES integ, grav, ign, bsOde, odeN, N, ops, bad
vars == <<integ, grav, ign, bsOde, odeN, N, ops, bad>>

Init == /\ integ = "ias15" /\ grav = "basic" /\ ign = 0 /\ bsOde = FALSE /\ odeN = 0 /\ N = 3 /\ ops = <<>> /\ bad = {}

(* one or more steps with integrator i *)
Use(i) ==
  /\ Len(ops) < MaxLen
  /\ integ' = i
  /\ LET g1 == IF OwnGravity(i) # "basic" THEN OwnGravity(i) ELSE grav                  \* part1 of MERCURIUS / TRACE
         g2 == IF Fallback /\ g1 # "basic" /\ g1 # OwnGravity(i) THEN "basic" ELSE g1    \* reb_calculate_acceleration
         partial == g2 # "basic" /\ g2 # OwnGravity(i)
         ig == IF OwnIgnore(i) # 0 THEN OwnIgnore(i) ELSE IF ClearsIgnore(i) THEN 0 ELSE ign
         missing == ReadsIgnore(i) /\ ig # OwnIgnore(i)
         stale == i # "bs" /\ bsOde /\ ~DropOde
     IN /\ grav' = g2
        /\ ign' = ig
        /\ bsOde' = IF i = "bs" THEN TRUE ELSE (bsOde /\ ~DropOde)
        /\ odeN' = IF i = "bs" THEN N ELSE odeN
        /\ bad' = bad \cup (IF partial THEN {"partial-force"} ELSE {})
                      \cup (IF missing THEN {"star-planet-terms-skipped"} ELSE {})
                      \cup (IF stale THEN {"foreign-ode-writes-particles"} ELSE {})
                      \cup (IF stale /\ odeN # N THEN {"ode-buffer-overflow"} ELSE {})
  /\ ops' = Append(ops, i)
  /\ UNCHANGED N

Add == /\ Len(ops) < MaxLen /\ Len(ops) > 0 /\ ops[Len(ops)] # "add"
       /\ N' = N + 1 /\ ops' = Append(ops, "add")
       /\ UNCHANGED <<integ, grav, ign, bsOde, odeN, bad>>

Next == (\E i \in Integrators : Use(i)) \/ Add
Spec == Init /\ [][Next]_vars

(* the property at this grain *)
Clean == bad = {}
(* what is left behind is bounded: a partial routine is only ever selected while its integrator is in use *)
GravityOwned == grav # "basic" => grav = OwnGravity(integ)
OdeOwned == bsOde => (integ = "bs" /\ odeN = N) \/ ops[Len(ops)] = "add" \/ ~DropOde

Emit == (Len(ops) >= 2 /\ ops[Len(ops)] # "add") => PrintT(<<"H", ToJson(ops)>>)
=============================================================================
