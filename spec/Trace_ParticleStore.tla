------------------------- MODULE Trace_ParticleStore -------------------------
(* Trace validation for ParticleStore: every recorded history of the real code (action, arguments,
   and the full projected state after the call) must be a behaviour of ParticleStore, and all of
   ParticleStore's invariants are evaluated in every state of it.  Many traces per TLC run: the
   initial states choose the trace id.                                                            *)
EXTENDS ParticleStore, Json, IOUtils, TLCExt

Traces == ndJsonDeserialize(IOEnv.TRACE_FILE)

VARIABLES tid, l
tvars == <<vars, tid, l>>

Ev == Traces[tid].events

TraceInit == /\ Init /\ tid \in 1..Len(Traces) /\ l = 1

ToPs(seq) == TLCEval([k \in 1..Len(seq) |-> [id |-> seq[k][1], hash |-> seq[k][2], dead |-> seq[k][3]]])
TblSet(t) == {<<t[k].hash, t[k].idx>> : k \in 1..Len(t)}
EvTbl(e) == {<<e.tbl[k][1], e.tbl[k][2]>> : k \in 1..Len(e.tbl)}

(* the logged post-state must be the spec's post-state *)
Matches(e) ==
  /\ ps' = ToPs(e.ps)
  /\ nActive' = e.nActive
  /\ TblSet(tbl') = EvTbl(e)
  /\ (e.a \in {"Add", "RemoveIdx", "RemoveHash", "Lookup", "RemoveAll", "GetIdx"} => ret' = e.ret /\ err' = e.err)
  /\ Len(e.ps) <= e.nAlloc

(* TreeFlush with the permutation bound to the logged order (enumerating Permutations of a long
   list is infeasible): the logged list must be a permutation of the survivors.                   *)
TraceTreeFlush(e) ==
  /\ TreeMode
  /\ \E k \in 1..N : ps[k].dead
  /\ LET live == TLCEval(SelectSeq(ps, LAMBDA p : ~p.dead))
         new == ToPs(e.ps) IN
       /\ Len(new) = Len(live)
       /\ {new[k] : k \in 1..Len(new)} = {live[k] : k \in 1..Len(live)}
       /\ ps' = new
  /\ UNCHANGED <<nActive, nAlloc, tbl, ret, err, ref, refActive, nextId>>
  /\ last' = <<"TreeFlush">>

Step(e) ==
  \/ e.a = "Add" /\ Add(e.args[1])
  \/ e.a = "RemoveIdx" /\ RemoveIdx(e.args[1], e.args[2])
  \/ e.a = "RemoveHash" /\ RemoveHash(e.args[1], e.args[2])
  \/ e.a = "SetHash" /\ SetHash(e.args[1], e.args[2])
  \/ e.a = "Lookup" /\ Lookup(e.args[1])
  \/ e.a = "GetIdx" /\ GetIdx(e.args[1])
  \/ e.a = "RemoveAll" /\ RemoveAll
  \/ e.a = "SetNActive" /\ SetNActive(e.args[1])
  \/ e.a = "TreeFlush" /\ TraceTreeFlush(e)

TraceNext == /\ l <= Len(Ev)
             /\ Step(Ev[l]) /\ Matches(Ev[l])
             /\ l' = l + 1 /\ UNCHANGED tid

TraceSpec == TraceInit /\ [][TraceNext]_tvars

(* acceptance is reported per trace: a line <<"ACC", tid>> when the last event was consumed, and
   <<"AT", tid, l>> for every state so that the harness can report the longest matched prefix   *)
Report == IF l = Len(Ev) + 1 THEN PrintT(<<"ACC", tid>>) ELSE TRUE
=============================================================================
