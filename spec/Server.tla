------------------------------- MODULE Server -------------------------------
(* C19 -- the integrate loop and the built-in web server share one simulation (src/rebound.c
   reb_simulation_integrate_raw, src/server.c reb_server_start).

   Integrator thread:  loop { check_exit (NOT under the mutex; before the last step, and again after
                       the loop, it calls reb_simulation_synchronize and rewrites dt);
                       wait until need_copy = 0; lock; [archive heartbeat; step; heartbeat]; unlock }
   Server thread:      per /simulation request { need_copy := 1; lock; serialise the whole simulation;
                       need_copy := 0; unlock; reply }

   The simulation state is abstracted to: k (completed steps), torn (inside a step), midSync
   (inside a synchronisation that really moves coordinates, i.e. safe mode off).  The step is two
   actions so that TLC sees the torn state; the synchronisation is two actions for the same reason.
   HeartbeatOutside = TRUE models a variant in which the user heartbeat (which may modify the
   simulation) runs after the unlock.                                                            *)
EXTENDS Integers, Sequences, TLC

CONSTANTS MaxSteps, MaxReq,
          Unsafe,             \* safe_mode = 0: synchronisations move coordinates
          Exact,              \* exact_finish_time = 1: check_exit synchronises before the last step
          SyncLocked,         \* TRUE: the synchronisations outside the loop body are protected by the mutex
          HeartbeatInside     \* TRUE: the user heartbeat (which may modify the simulation) runs before the unlock

VARIABLES ipc, spc, mutex, needCopy, k, torn, midSync, served, reqs
vars == <<ipc, spc, mutex, needCopy, k, torn, midSync, served, reqs>>

Init == /\ ipc = "ce" /\ spc = "idle" /\ mutex = "free" /\ needCopy = 0
        /\ k = 0 /\ torn = FALSE /\ midSync = FALSE /\ served = <<>> /\ reqs = 0

(* ---- integrator *)
ICheck == /\ ipc = "ce"
          /\ ipc' = IF k >= MaxSteps THEN "fin1"
                    ELSE IF Exact /\ k = MaxSteps - 1 THEN "cesync1" ELSE "wait"
          /\ UNCHANGED <<spc, mutex, needCopy, k, torn, midSync, served, reqs>>
SyncBegin(from, to) == /\ ipc = from
                       /\ (SyncLocked => mutex = "free" /\ needCopy = 0)
                       /\ mutex' = IF SyncLocked THEN "I" ELSE mutex
                       /\ midSync' = Unsafe
                       /\ ipc' = to
                       /\ UNCHANGED <<spc, needCopy, k, torn, served, reqs>>
SyncEnd(from, to) == /\ ipc = from
                     /\ midSync' = FALSE
                     /\ mutex' = IF SyncLocked THEN "free" ELSE mutex
                     /\ ipc' = to
                     /\ UNCHANGED <<spc, needCopy, k, torn, served, reqs>>
IWait == /\ ipc = "wait" /\ needCopy = 0 /\ ipc' = "lock"
         /\ UNCHANGED <<spc, mutex, needCopy, k, torn, midSync, served, reqs>>
ILock == /\ ipc = "lock" /\ mutex = "free" /\ mutex' = "I" /\ ipc' = "stepA"
         /\ UNCHANGED <<spc, needCopy, k, torn, midSync, served, reqs>>
IStepA == /\ ipc = "stepA" /\ torn' = TRUE /\ ipc' = "stepB"
          /\ UNCHANGED <<spc, mutex, needCopy, k, midSync, served, reqs>>
IStepB == /\ ipc = "stepB" /\ torn' = FALSE /\ k' = k + 1 /\ ipc' = (IF HeartbeatInside THEN "hbA" ELSE "unlock")
          /\ UNCHANGED <<spc, mutex, needCopy, midSync, served, reqs>>
(* reb_run_heartbeat: the user's function may edit the simulation in several writes *)
IHbA == /\ ipc = "hbA" /\ torn' = TRUE /\ ipc' = "hbB"
        /\ UNCHANGED <<spc, mutex, needCopy, k, midSync, served, reqs>>
IHbB == /\ ipc = "hbB" /\ torn' = FALSE /\ ipc' = (IF HeartbeatInside THEN "unlock" ELSE "ce")
        /\ UNCHANGED <<spc, mutex, needCopy, k, midSync, served, reqs>>
IUnlock == /\ ipc = "unlock" /\ mutex' = "free" /\ ipc' = (IF HeartbeatInside THEN "ce" ELSE "hbA")
           /\ UNCHANGED <<spc, needCopy, k, torn, midSync, served, reqs>>
Integrator == ICheck \/ SyncBegin("cesync1", "cesync2") \/ SyncEnd("cesync2", "wait") \/ IWait \/ ILock \/ IStepA \/ IStepB \/ IHbA \/ IHbB \/ IUnlock
              \/ SyncBegin("fin1", "fin2") \/ SyncEnd("fin2", "done")

(* ---- server *)
SReq == /\ spc = "idle" /\ reqs < MaxReq /\ needCopy' = 1 /\ reqs' = reqs + 1 /\ spc' = "lock"
        /\ UNCHANGED <<ipc, mutex, k, torn, midSync, served>>
SLock == /\ spc = "lock" /\ mutex = "free" /\ mutex' = "S" /\ spc' = "ser"
         /\ UNCHANGED <<ipc, needCopy, k, torn, midSync, served, reqs>>
SSer == /\ spc = "ser" /\ served' = Append(served, [k |-> k, torn |-> torn, midSync |-> midSync]) /\ spc' = "nc0"
        /\ UNCHANGED <<ipc, mutex, needCopy, k, torn, midSync, reqs>>
SNc0 == /\ spc = "nc0" /\ needCopy' = 0 /\ spc' = "unlock"
        /\ UNCHANGED <<ipc, mutex, k, torn, midSync, served, reqs>>
SUnlock == /\ spc = "unlock" /\ mutex' = "free" /\ spc' = "idle"
           /\ UNCHANGED <<ipc, needCopy, k, torn, midSync, served, reqs>>
ServerP == SReq \/ SLock \/ SSer \/ SNc0 \/ SUnlock

Next == Integrator \/ ServerP
Spec == Init /\ [][Next]_vars /\ WF_vars(Integrator) /\ WF_vars(SLock \/ SSer \/ SNc0 \/ SUnlock)

-----------------------------------------------------------------------------
MutualExclusion == ~(mutex = "I" /\ spc \in {"ser", "nc0", "unlock"}) /\ ~(mutex = "S" /\ ipc \in {"stepA", "stepB", "unlock"})
(* every served snapshot is the state at a completed step boundary *)
ServedNotTorn == \A i \in 1..Len(served) : ~served[i].torn
ServedNotMidSync == \A i \in 1..Len(served) : ~served[i].midSync
ServeTransparent == [][SSer => UNCHANGED <<k, torn, midSync>>]_vars
(* the handshake: a request is eventually served, and the run ends *)
RequestServed == (spc = "lock") ~> (spc = "ser")
Terminates == <>(ipc = "done")
=============================================================================
