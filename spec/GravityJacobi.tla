---------------------------- MODULE GravityJacobi ----------------------------
(* C02 -- the Jacobi-split force routine (REB_GRAVITY_JACOBI, src/gravity.c) as the gradient of the Wisdom-Holman
   interaction Hamiltonian in Jacobi coordinates

       H_int = - sum_{i<j, {i,j} # {0,1}} G m_i m_j / |x_i - x_j|  +  sum_{j>=2} G m_j M_{j-1} / |Q_j|,
       Q_j = x_j - R_{j-1},  R_{j-1}, M_{j-1} = centre of mass and mass of bodies 0..j-1,

   i.e.  a_i = -(1/m_i) dH_int/dx_i:
       direct   :  + G m_j (x_j - x_i)/|x_j - x_i|^3      for every j # i except the pair {0,1}
       Jacobi j :  + G M_{j-1} Q_j/|Q_j|^3  for i = j,    - G m_j Q_j/|Q_j|^3  for every i < j          (j >= 2)
   (the m_i of the prefactor cancels, so bodies of mass zero are fine).

   Exact lattice: the bodies sit on the line through the origin with direction (2,3,6) (length 7) at integer
   abscissae s_k, so every distance is 7 x a rational and every term is  c * sgn(q)/q^2 * (2,3,6)/343  with c, q rational.
   TLC prints for every configuration and target body the list of terms <<numerator, denominator>>; the harness sums them
   exactly, checks sum_i m_i a_i = 0 (momentum conservation of the specified force, a check of this module), and compares
   with the accelerations the real routine returns.                                                                 *)
EXTENDS Integers, Sequences, TLC, Json

Sgn(x) == IF x > 0 THEN 1 ELSE IF x < 0 THEN -1 ELSE 0
RECURSIVE MSum(_, _), RSum(_, _, _)
MSum(m, j) == IF j = 0 THEN 0 ELSE m[j] + MSum(m, j - 1)                 \* mass of the first j bodies
RSum(m, s, j) == IF j = 0 THEN 0 ELSE m[j] * s[j] + RSum(m, s, j - 1)    \* their mass moment

(* bodies are numbered 1..n here (body 1 is the star); i is the target *)
Direct(m, s, i) == [j \in {k \in 1..Len(m) : k # i /\ {k, i} # {1, 2}} |->
                       <<m[j] * Sgn(s[j] - s[i]), (s[j] - s[i]) * (s[j] - s[i])>>]
Qn(m, s, j) == s[j] * MSum(m, j - 1) - RSum(m, s, j - 1)                 \* Q_j = Qn / M_{j-1}
JacobiT(m, s, i) == [j \in {k \in 3..Len(m) : i <= k} |->
                       LET qn == Qn(m, s, j)
                           M == MSum(m, j - 1) IN
                       IF i = j THEN <<M * Sgn(qn) * M * M, qn * qn>> ELSE <<-m[j] * Sgn(qn) * M * M, qn * qn>>]
SetToSeq(S) == LET RECURSIVE F(_) F(T) == IF T = {} THEN <<>> ELSE LET x == CHOOSE x \in T : TRUE IN <<x>> \o F(T \ {x}) IN F(S)
TermsOf(f) == [k \in 1..Len(SetToSeq(DOMAIN f)) |-> f[SetToSeq(DOMAIN f)[k]]]
Terms(m, s, i) == TermsOf(Direct(m, s, i)) \o TermsOf(JacobiT(m, s, i))

Masses == {<<3, 1, 2, 1, 2>>, <<1, 2, 1, 3, 1>>, <<2, 0, 1, 0, 1>>, <<5, 1, 1, 1, 1>>}
Sites == {<<0, 1, 3, 7, 12>>, <<0, 5, 2, 9, 3>>, <<4, -3, 6, -8, 1>>, <<-2, 7, -5, 3, 10>>, <<6, 5, 4, 2, -1>>}
Prefix(t, n) == [k \in 1..n |-> t[k]]
(* no body may sit on the centre of mass of the bodies before it, nor on another body *)
WellDefined(m, s) == /\ \A j \in 3..Len(m) : Qn(m, s, j) # 0
                     /\ \A a, b \in 1..Len(s) : a # b => s[a] # s[b]

VARIABLE row
Init == row \in {<<Prefix(m, n), Prefix(s, n)>> : m \in Masses, s \in Sites, n \in 2..5}
Spec == Init /\ [][UNCHANGED row]_row
Emit == WellDefined(row[1], row[2]) =>
          PrintT(<<"J", ToJson([m |-> row[1], s |-> row[2], terms |-> [i \in 1..Len(row[1]) |-> Terms(row[1], row[2], i)]])>>)
(* sanity of the transcription: the star and the first planet have no direct term with each other, the last body has no
   Jacobi term of a later body; the number of terms of body i is (n - 1 - [i <= 2]) + (n - max(i, 3) + 1) *)
TermCount == LET n == Len(row[1]) IN \A i \in 1..n :
               Len(Terms(row[1], row[2], i)) = (n - 1 - (IF i <= 2 /\ n >= 2 THEN 1 ELSE 0)) + (IF n >= 3 THEN n - (IF i > 3 THEN i ELSE 3) + 1 ELSE 0)
=============================================================================
