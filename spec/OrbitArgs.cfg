SPECIFICATION Spec
CONSTRAINT Emit
INVARIANT Total
INVARIANT CartAloneIsFine
INVARIANT PrimaryWithPalAllowed
CHECK_DEADLOCK FALSE
