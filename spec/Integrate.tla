------------------------------ MODULE Integrate ------------------------------
(* C08 -- the integrate() driver: reb_simulation_integrate_raw + reb_check_exit + the exit
   conditions of reb_run_heartbeat (src/rebound.c).

   Time-like quantities (t, tmax, dt, ...) are integers of which the specification uses only the
   ORDER, equality and the sign.  All arithmetic the code performs on them (t+dt, tmax-t, -dt,
   |t-tmax| < 1e-12|tmax|) enters the actions through the record `ar`:
     - in the model-checking instance (MC_Integrate) `ar` is computed on the tick lattice,
     - in trace validation (Trace_Integrate) it is evaluated by the harness in binary64 from the
       values logged by the hook, and every double is replaced by its rank (0.0 |-> 0).
   So one set of actions serves both directions.

   One action per critical section of the code:
     Begin       reb_simulation_integrate_raw up to the loop (direction of dt, last_full_dt,
                 dt_last_done := 0, status := RUNNING)
     Heartbeat   reb_run_heartbeat: user heartbeat / escape / encounter may set a status; a
                 collision found during the step and a removal of all particles are environment
                 events of the same boundary
     CheckExit   reb_check_exit, every branch
     Step        reb_simulation_step: fixed step (t := t+dt) or adaptive (any advance, new dt)
     End         synchronize, restore dt := last_full_dt when exact finishing was requested      *)
EXTENDS Integers, Sequences, TLC

CONSTANTS Kind            \* "fixed" | "adaptive"

VARIABLES pc,             \* "idle" | "hb" | "check" | "step" | "end" | "done" (a call has just returned)
          t, dt, status, lfd, dtld,      \* r->t, r->dt, r->status, last_full_dt, r->dt_last_done
          tmax, inf, exact, n0,          \* target, target is INFINITY, exact_finish_time, N == 0
          \* ghost state for the contract
          calls, t0, dtUser, dtBegin, steps, tPrev, shortened, fullDt, exitEv, exitSteps, nearEnd,
          total, clean

vars == <<pc, t, dt, status, lfd, dtld, tmax, inf, exact, n0, calls, t0, dtUser, dtBegin, steps, tPrev,
          shortened, fullDt, exitEv, exitSteps, nearEnd, total, clean>>

LAST == -2  RUNNING == -1  SUCCESS == 0  GENERIC == 1  NOPART == 2  ENCOUNTER == 3  ESCAPE == 4
USER == 5  SIGINT == 6  COLLISION == 7
ExitEvents == {ENCOUNTER, ESCAPE, USER, COLLISION}

Dir(d) == IF d >= 0 THEN 1 ELSE -1                    \* copysign(1., d)
Ge(a, b, s) == IF s = 1 THEN a >= b ELSE a <= b       \* a*s >= b*s
Gt(a, b, s) == IF s = 1 THEN a > b ELSE a < b
Max(a, b) == IF a >= b THEN a ELSE b
Min(a, b) == IF a <= b THEN a ELSE b

InitWith(tt, dd) ==
  /\ pc = "idle" /\ t = tt /\ dt = dd /\ status = RUNNING /\ lfd = dd /\ dtld = 0
  /\ tmax = tt /\ inf = FALSE /\ exact = 1 /\ n0 = FALSE
  /\ calls = 0 /\ t0 = tt /\ dtUser = dd /\ dtBegin = dd /\ steps = 0 /\ tPrev = tt
  /\ shortened = FALSE /\ fullDt = dd /\ exitEv = 0 /\ exitSteps = 0 /\ nearEnd = FALSE
  /\ total = 0 /\ clean = TRUE

(* ar.neg = -dt *)
Begin(tm, isInf, ex, ar) ==
  /\ pc \in {"idle", "done"}
  /\ LET d == IF tm = t THEN dt ELSE IF tm > t THEN Max(dt, ar.neg) ELSE Min(dt, ar.neg) IN
       /\ dt' = d /\ lfd' = d /\ dtBegin' = d /\ fullDt' = d
  /\ dtld' = 0 /\ status' = RUNNING
  /\ tmax' = tm /\ inf' = isInf /\ exact' = ex
  /\ calls' = calls + 1 /\ t0' = t /\ dtUser' = dt /\ steps' = 0 /\ tPrev' = t
  /\ shortened' = FALSE /\ exitEv' = 0 /\ exitSteps' = 0 /\ nearEnd' = FALSE
  /\ clean' = (clean /\ ex = 0)
  /\ pc' = "hb"
  /\ UNCHANGED <<t, n0, total>>

(* ev = 0: nothing became true at this boundary.  ev \in ExitEvents: that condition is true now.
   gone: all particles were removed at this boundary.                                            *)
Heartbeat(ev, gone) ==
  /\ pc = "hb"
  /\ status' = IF ev = 0 THEN status ELSE ev
  /\ n0' = (n0 \/ gone)
  /\ IF exitEv = 0 /\ (ev # 0 \/ gone)
       THEN exitEv' = (IF ev # 0 THEN ev ELSE NOPART) /\ exitSteps' = steps
       ELSE UNCHANGED <<exitEv, exitSteps>>
  /\ pc' = "check"
  /\ UNCHANGED <<t, dt, lfd, dtld, tmax, inf, exact, calls, t0, dtUser, dtBegin, steps, tPrev, shortened,
                 fullDt, nearEnd, total, clean>>

(* reb_check_exit.  ar = [sum |-> t+dt, rem |-> tmax-t, near |-> |t-tmax| < tscale, err |-> message waiting] *)
CheckExit(ar) ==
  /\ pc = "check"
  /\ LET s   == Dir(dt)
         s1  == IF ar.err THEN GENERIC ELSE status
         \* <<status, dt, last_full_dt, shortened-now, near-used>>
         res == IF s1 >= 0 \/ inf THEN <<s1, dt, lfd, FALSE, FALSE>>
                ELSE IF exact = 1 THEN
                  IF Ge(ar.sum, tmax, s) THEN
                    IF t = tmax THEN <<SUCCESS, dt, lfd, FALSE, FALSE>>
                    ELSE IF s1 = LAST THEN
                      IF ar.near THEN <<SUCCESS, dt, lfd, FALSE, TRUE>>
                      ELSE <<LAST, ar.rem, lfd, TRUE, FALSE>>
                    ELSE <<LAST, ar.rem, IF dtld # 0 THEN dtld ELSE lfd, TRUE, FALSE>>
                  ELSE IF s1 = LAST THEN <<RUNNING, dt, lfd, FALSE, FALSE>>
                  ELSE <<s1, dt, lfd, FALSE, FALSE>>
                ELSE IF Ge(t, tmax, s) THEN <<SUCCESS, dt, lfd, FALSE, FALSE>>
                ELSE <<s1, dt, lfd, FALSE, FALSE>>
         s2  == IF n0 THEN NOPART ELSE res[1] IN
       /\ status' = s2 /\ dt' = res[2] /\ lfd' = res[3]
       /\ shortened' = (shortened \/ res[4])
       /\ fullDt' = IF res[4] /\ s1 # LAST THEN res[3] ELSE fullDt
       /\ nearEnd' = res[5]
       /\ pc' = IF s2 < 0 THEN "step" ELSE "end"
  /\ UNCHANGED <<t, dtld, tmax, inf, exact, n0, calls, t0, dtUser, dtBegin, steps, tPrev, exitEv, exitSteps,
                 total, clean>>

(* reb_simulation_step.  Fixed-step integrators: t := t+dt, in one addition (ar.sum) or as two half
   steps (ar.sum2 = (t+dt/2)+dt/2: leapfrog, whfast, sei), dt untouched, dt_last_done = dt.
   Adaptive ones: the environment chooses the new time, the next step size and dt_last_done.     *)
Step(tn, dn, dd, ar) ==
  /\ pc = "step"
  /\ Kind = "fixed" => tn \in {ar.sum, ar.sum2} /\ dn = dt /\ dd \in {dt, dtld}   \* JANUS leaves dt_last_done alone
  /\ t' = tn /\ dt' = dn /\ dtld' = dd
  /\ tPrev' = t /\ steps' = steps + 1 /\ total' = total + 1
  /\ pc' = "hb"
  /\ UNCHANGED <<status, lfd, tmax, inf, exact, n0, calls, t0, dtUser, dtBegin, shortened, fullDt, exitEv,
                 exitSteps, nearEnd, clean>>

(* the user assigns a new step size between two calls *)
SetDt(d) ==
  /\ pc \in {"idle", "done"}
  /\ dt' = d /\ pc' = "idle"
  /\ UNCHANGED <<t, status, lfd, dtld, tmax, inf, exact, n0, calls, t0, dtUser, dtBegin, steps, tPrev, shortened,
                 fullDt, exitEv, exitSteps, nearEnd, total, clean>>

End ==
  /\ pc = "end"
  /\ dt' = IF exact = 1 THEN lfd ELSE dt
  /\ pc' = "done"
  /\ UNCHANGED <<t, status, lfd, dtld, tmax, inf, exact, n0, calls, t0, dtUser, dtBegin, steps, tPrev, shortened,
                 fullDt, exitEv, exitSteps, nearEnd, total, clean>>

-----------------------------------------------------------------------------
(* The contract (property C08).  All are evaluated on model states AND on every state of every
   recorded implementation trace.                                                                *)
Done == pc = "done"
D == Dir(dtBegin)

\* ends at the target (exactly, or within the 1e-12 fuzz) when exact finishing was requested
EndsAtTarget == Done /\ status = SUCCESS /\ exact = 1 /\ ~inf => t = tmax \/ nearEnd
\* otherwise at or past it by less than one step
Overshoot == Done /\ status = SUCCESS /\ exact = 0 /\ ~inf =>
               /\ Ge(t, tmax, D)
               /\ steps > 0 => Gt(tmax, tPrev, D)
\* never against the direction (action property)
TimeMonotone == [][pc = "step" => Ge(t', t, D)]_vars
\* never in the wrong direction relative to the target either
RightDirection == Done /\ tmax # t0 /\ steps > 0 => Gt(t, t0, IF tmax > t0 THEN 1 ELSE -1) \/ t = t0
\* the user's step size is restored: fixed-step -> the step size the call started with;
\* adaptive -> never the artificially shortened last step
DtRestored == Done /\ exact = 1 =>
               IF Kind = "fixed" THEN dt = dtBegin
               ELSE (shortened => dt = fullDt)
DtKept == Done /\ exact = 0 /\ Kind = "fixed" => dt = dtBegin
\* no-op when the target equals the current time
NoOp == Done /\ tmax = t0 /\ exitEv = 0 /\ ~n0 /\ status # GENERIC => t = t0 /\ steps = 0 /\ dt = dtUser /\ status = SUCCESS
\* the status names the first boundary at which an exit condition became true
StatusFirst == Done /\ exitEv # 0 => status = (IF n0 THEN NOPART ELSE exitEv) /\ steps = exitSteps
NoSpuriousExit == Done /\ exitEv = 0 => status \in {SUCCESS, GENERIC} \/ (n0 /\ status = NOPART)
\* no step is taken once the target is reached or an exit condition holds
NoStepAfterExit == [][pc = "step" /\ pc' = "hb" => status < 0]_vars
=============================================================================
