SPECIFICATION Spec
CONSTANTS
  MaxSnap = 3
  Lens = {2, 3}
  MaxCrashes = 2
  VersionAt = 1
INVARIANT ExposedIdentical
INVARIANT ErrorIffNothing
INVARIANT NeverStuck
INVARIANT Converges
PROPERTY NeverLoses
CHECK_DEADLOCK FALSE
