SPECIFICATION Spec
CONSTRAINT Emit
INVARIANT InverseOfForward
INVARIANT Slot0
INVARIANT BaryMomentumZero
CHECK_DEADLOCK FALSE
