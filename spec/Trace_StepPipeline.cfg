SPECIFICATION TraceSpec
CONSTRAINT Report
CHECK_DEADLOCK FALSE
