---------------------------- MODULE Trace_Server ----------------------------
(* Trace validation for Server.  Events are emitted by hooks while the emitting thread holds the
   server mutex (crit_b / step / crit_e around the loop body, ce_sync_b / ce_sync_e and fin_sync_b /
   fin_sync_e around the synchronisations of reb_check_exit and after the loop, serve_b / serve_e
   around the serialisation in the server thread); their order in the file is the order of a global
   sequence counter taken under the emitter's own lock.  Each event is the composition of the
   Server actions between two logged points.  serve_e carries the harness' verdict on the bytes the
   client received: `boundary' (the digest of the restored snapshot equals the reference run's
   state at that step boundary) and `cont' (continuing the restored snapshot reproduces the
   undisturbed run bit for bit).                                                                  *)
EXTENDS Server, Json, IOUtils, TLCExt

Traces == ndJsonDeserialize(IOEnv.TRACE_FILE)
Verbose == "VERBOSE" \in DOMAIN IOEnv /\ IOEnv.VERBOSE = "1"
VARIABLES tid, l, afterSync, servedOK
tvars == <<vars, tid, l, afterSync, servedOK>>
Ev == Traces[tid].events

TraceInit == /\ tid \in 1..Len(Traces) /\ l = 1
             /\ Init /\ afterSync = FALSE /\ servedOK = TRUE

Keep == UNCHANGED <<spc, needCopy, reqs, torn>>
Acquire(who) == mutex = "free" /\ mutex' = who
Release(who) == mutex = who /\ mutex' = "free"

TCritB(e) == Acquire("I") /\ ipc' = "stepA" /\ e.k = k /\ UNCHANGED <<k, midSync, served, afterSync, servedOK>> /\ Keep
TStep(e) == mutex = "I" /\ ipc = "stepA" /\ k' = k + 1 /\ e.k = k + 1 /\ ipc' = "unlock" /\ afterSync' = FALSE
            /\ UNCHANGED <<mutex, midSync, served, servedOK>> /\ Keep
TCritE(e) == Release("I") /\ ipc = "unlock" /\ ipc' = "ce" /\ UNCHANGED <<k, midSync, served, afterSync, servedOK>> /\ Keep
(* the user heartbeat (logged by the harness' own callback): it runs inside the critical section, after the step *)
THbB(e) == mutex = "I" /\ ipc = "unlock" /\ e.k = k /\ ipc' = "hb" /\ UNCHANGED <<mutex, k, midSync, served, afterSync, servedOK>> /\ Keep
THbE(e) == mutex = "I" /\ ipc = "hb" /\ ipc' = "unlock" /\ UNCHANGED <<mutex, k, midSync, served, afterSync, servedOK>> /\ Keep
(* the synchronisations: protected by the mutex (SyncLocked) or not -- the constant states which design the code follows *)
TSyncB(e) == /\ (IF SyncLocked THEN Acquire("I") ELSE UNCHANGED mutex)
             /\ midSync' = TRUE /\ e.k = k /\ ipc' = "sync"
             /\ UNCHANGED <<k, served, afterSync, servedOK>> /\ Keep
TSyncE(e) == /\ ipc = "sync" /\ (IF SyncLocked THEN Release("I") ELSE UNCHANGED mutex)
             /\ midSync' = FALSE /\ ipc' = "ce" /\ afterSync' = TRUE
             /\ UNCHANGED <<k, served, servedOK>> /\ Keep
TServeB(e) == Acquire("S") /\ e.k = k /\ UNCHANGED <<ipc, k, midSync, served, afterSync, servedOK>> /\ Keep
TServeE(e) == /\ Release("S") /\ e.k = k
              /\ served' = Append(served, [k |-> k, torn |-> FALSE, midSync |-> midSync])
              \* the bytes are the boundary state (or its synchronised form right after check_exit) and can be continued
              /\ servedOK' = (servedOK /\ e.cont /\ (e.boundary \/ afterSync))
              /\ UNCHANGED <<ipc, k, midSync, afterSync>> /\ Keep

TraceNext == /\ l <= Len(Ev)
             /\ LET e == Ev[l] IN
                  \/ e.e = "crit_b" /\ TCritB(e)
                  \/ e.e = "step" /\ (IF mutex = "I" /\ ipc = "stepA" THEN TStep(e)
                                      ELSE  \* a step outside integrate() (no server protocol involved)
                                           /\ k' = k + 1 /\ UNCHANGED <<ipc, mutex, midSync, served, afterSync, servedOK>> /\ Keep)
                  \/ e.e = "crit_e" /\ TCritE(e)
                  \/ e.e = "hb_b" /\ THbB(e)
                  \/ e.e = "hb_e" /\ THbE(e)
                  \/ e.e \in {"ce_sync_b", "fin_sync_b"} /\ TSyncB(e)
                  \/ e.e \in {"ce_sync_e", "fin_sync_e"} /\ TSyncE(e)
                  \/ e.e = "serve_b" /\ TServeB(e)
                  \/ e.e = "serve_e" /\ TServeE(e)
             /\ l' = l + 1 /\ UNCHANGED tid
TraceSpec == TraceInit /\ [][TraceNext]_tvars

ServedIsBoundaryAndContinuable == servedOK
TServedNotMidSync == \A i \in 1..Len(served) : ~served[i].midSync
Report == /\ (l = Len(Ev) + 1 => PrintT(<<"ACC", tid>>))
          /\ (Verbose => PrintT(<<"AT", tid, l>>))
=============================================================================
