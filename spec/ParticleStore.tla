--------------------------- MODULE ParticleStore ---------------------------
(* Particle array, N, N_active, storage growth, the lazy hash lookup table and the removal
   paths of src/particle.c -- one action per public call, each transcribed branch by branch.

   Two layers:
     * the implementation-shaped state  (ps, nActive, nAlloc, tbl, pendingTree)
     * the reference list model         (ref : what the documentation promises)
   The invariants say the first refines the second.

   `ps` is a sequence of records [id, hash, dead].  `id` is a ghost identity (the harness stores it
   in the particle's mass); `dead` models the tree code path of unsorted removal, which only flags
   a particle (y = NaN) and leaves the actual removal to the next tree update.                    *)
EXTENDS Naturals, Integers, Sequences, FiniteSets, TLC

CONSTANTS MaxN,        \* bound on number of particles ever alive at once
          MaxId,       \* ids are 1..MaxId, each used at most once
          Hashes,      \* set of hash values, 0 is the "unset" hash
          TreeMode,    \* BOOLEAN: a tree is in use (tree_root # NULL)
          Hybrid,      \* BOOLEAN: MERCURIUS/TRACE force keep_sorted
          BaseAlloc    \* first allocation size (128 in the code; small in the model)

VARIABLES ps, nActive, nAlloc, tbl, ret, err, ref, refActive, nextId, last

vars == <<ps, nActive, nAlloc, tbl, ret, err, ref, refActive, nextId, last>>

N == Len(ps)
Min(a, b) == IF a < b THEN a ELSE b

Init == /\ ps = <<>> /\ nActive = -1 /\ nAlloc = 0 /\ tbl = <<>>
        /\ ret = 1 /\ err = FALSE /\ ref = <<>> /\ refActive = -1 /\ nextId = 1
        /\ last = <<"Init">>

-----------------------------------------------------------------------------
(* helpers on sequences *)
RemoveAt(s, i) == TLCEval([k \in 1..(Len(s)-1) |-> IF k < i THEN s[k] ELSE s[k+1]])   \* 1-based i
SwapLast(s, i) == TLCEval([k \in 1..(Len(s)-1) |-> IF k = i THEN s[Len(s)] ELSE s[k]])

(* reb_update_particle_lookup_table: one entry per non-zero-hash particle, one entry for the LAST
   zero-hash particle placed at the position of the first one; then sorted by hash.  The sort is
   not stable (qsort); the model keeps *some* sorted permutation: we pick the one ordered by
   (hash, idx), and Lookup below is written so that any sorted permutation gives the same
   observable answer class (see LookupResult).                                                    *)
RECURSIVE BuildTbl(_, _, _)
BuildTbl(s, k, acc) ==
  IF k > Len(s) THEN acc
  ELSE IF s[k].hash = 0
       THEN LET zi == CHOOSE j \in 0..Len(acc) : (j = 0 /\ \A q \in 1..Len(acc) : acc[q].hash # 0) \/ (j > 0 /\ acc[j].hash = 0 /\ \A q \in 1..(j-1) : acc[q].hash # 0)
            IN IF zi = 0 THEN BuildTbl(s, k+1, Append(acc, [hash |-> 0, idx |-> k-1]))
               ELSE BuildTbl(s, k+1, [acc EXCEPT ![zi].idx = k-1])
       ELSE BuildTbl(s, k+1, Append(acc, [hash |-> s[k].hash, idx |-> k-1]))

(* candidates a binary search over a sorted table may return for hash h: any entry with that hash.
   (which one depends on qsort's order among equal keys and on the midpoint sequence)             *)
Cands(t, h) == {q \in 1..Len(t) : t[q].hash = h}

(* reb_search_lookup_table: returns 0-based index or -1.  With duplicates the entry found is any
   of the candidates; if it points beyond N the search returns NULL.                              *)
SearchSet(t, h, n) == IF Cands(t, h) = {} THEN {-1}
                      ELSE {IF t[q].idx < n THEN t[q].idx ELSE -1 : q \in Cands(t, h)}

(* reb_simulation_particle_by_hash as a relation: (result index, new table)                        *)
LookupRel(h) ==
  LET first == SearchSet(tbl, h, N)
      fresh == BuildTbl(ps, 1, <<>>)
  IN  UNION { IF i = -1 \/ ps[i+1].hash # h
              THEN {<<j, fresh>> : j \in SearchSet(fresh, h, N)}
              ELSE {<<i, tbl>>}
            : i \in first }

-----------------------------------------------------------------------------
(* reference model operations *)
RefIdxOfHash(h) == {k \in 1..Len(ref) : ref[k].hash = h}

-----------------------------------------------------------------------------
Add(h) ==
  /\ N < MaxN /\ nextId <= MaxId
  /\ ps' = Append(ps, [id |-> nextId, hash |-> h, dead |-> FALSE])
  /\ nAlloc' = IF nAlloc <= N THEN (IF nAlloc = 0 THEN BaseAlloc ELSE
                   (CHOOSE a \in {nAlloc * 2, nAlloc * 4, nAlloc * 8} : a > N /\ \A b \in {nAlloc*2, nAlloc*4, nAlloc*8} : b > N => a <= b))
               ELSE nAlloc
  /\ ref' = Append(ref, [id |-> nextId, hash |-> h])
  /\ nextId' = nextId + 1
  /\ ret' = 1 /\ err' = FALSE
  /\ UNCHANGED <<nActive, tbl, refActive>>
  /\ last' = <<"Add", h>>

(* reb_simulation_remove_particle(r, index, keep_sorted) -- index is 0-based, any integer in
   -1..MaxN.  This is the DESIGN the property requires (validate, then mutate):
     1. out-of-range index         -> fail, nothing changes
     2. last particle (N = 1)      -> N := 0 (warning), N_active follows the sorted rule
     3. keep_sorted with a tree    -> fail, nothing changes
     4. keep_sorted                -> shift down; N_active-- when index < N_active
     5. unsorted, tree             -> only flag the particle; the next tree update deletes it
     6. unsorted, no tree          -> overwrite with the last particle; N_active never exceeds N
   `t` is the lookup table left behind by a preceding hash lookup (RemoveHash).                    *)
RemoveCore(index, ks0, t) ==
  LET ks == ks0 \/ Hybrid IN
  /\ tbl' = t
  /\ UNCHANGED nAlloc
  /\ IF index >= N \/ index < 0 THEN
         /\ ret' = 0 /\ err' = TRUE /\ UNCHANGED <<ps, nActive>>
     ELSE IF N = 1 THEN
         /\ ps' = <<>> /\ ret' = 1 /\ err' = FALSE
         /\ nActive' = IF nActive > 0 THEN nActive - 1 ELSE nActive
     ELSE IF ks /\ TreeMode THEN
         /\ ret' = 0 /\ err' = TRUE /\ UNCHANGED <<ps, nActive>>
     ELSE IF ks THEN
         /\ ps' = RemoveAt(ps, index + 1)
         /\ nActive' = IF index < nActive THEN nActive - 1 ELSE nActive
         /\ ret' = 1 /\ err' = FALSE
     ELSE IF TreeMode THEN
         /\ ps' = TLCEval([ps EXCEPT ![index + 1].dead = TRUE])
         /\ ret' = 1 /\ err' = FALSE /\ UNCHANGED nActive
     ELSE
         /\ ps' = SwapLast(ps, index + 1)
         /\ ret' = 1 /\ err' = FALSE
         /\ nActive' = IF nActive > N - 1 THEN N - 1 ELSE nActive

(* what the documentation promises for the same request *)
RefRemove(index, ks0) ==
  LET ks == ks0 \/ Hybrid IN
  IF index < 0 \/ index >= Len(ref) \/ (ks /\ TreeMode /\ Len(ref) > 1) THEN UNCHANGED <<ref, refActive>>
  ELSE /\ ref' = IF TreeMode   \* order is implementation-defined with a tree: remove by identity
                 THEN LET rid == TLCEval(ps[index + 1].id) IN SelectSeq(ref, LAMBDA p : p.id # rid)
                 ELSE IF ks THEN RemoveAt(ref, index + 1) ELSE SwapLast(ref, index + 1)
       /\ refActive' = IF ks \/ Len(ref) = 1
                         THEN (IF index < refActive THEN refActive - 1 ELSE refActive)
                         ELSE (IF refActive > Len(ref) - 1 THEN Len(ref) - 1 ELSE refActive)

RemoveIdx(index, ks) ==
  /\ \A k \in 1..N : ~ps[k].dead         \* harness flushes the tree before the next request
  /\ RemoveCore(index, ks, tbl)
  /\ RefRemove(index, ks)
  /\ UNCHANGED nextId
  /\ last' = <<"RemoveIdx", index, ks>>

RemoveHash(h, ks) ==
  /\ \A k \in 1..N : ~ps[k].dead
  /\ \E pr \in LookupRel(h) :
       LET i == pr[1] IN
       IF i = -1 THEN /\ ret' = 0 /\ err' = TRUE /\ tbl' = pr[2]
                      /\ UNCHANGED <<ps, nActive, nAlloc, ref, refActive>>
       ELSE /\ RemoveCore(i, ks, pr[2])
            /\ RefRemove(i, ks)
  /\ UNCHANGED nextId
  /\ last' = <<"RemoveHash", h, ks>>

(* tree update: actually deletes flagged particles (swap with last, order not preserved) *)
TreeFlush ==
  /\ TreeMode
  /\ \E k \in 1..N : ps[k].dead
  /\ LET live == SelectSeq(ps, LAMBDA p : ~p.dead) IN
       \* the tree walk decides the resulting order: any permutation of the survivors
       \E f \in Permutations(1..Len(live)) : ps' = TLCEval([k \in 1..Len(live) |-> live[f[k]]])
  /\ UNCHANGED <<nActive, nAlloc, tbl, ret, err, ref, refActive, nextId>>
  /\ last' = <<"TreeFlush">>

SetHash(i, h) ==
  /\ i \in 0..(N-1)
  /\ ~ps[i+1].dead
  /\ ps' = TLCEval([ps EXCEPT ![i+1].hash = h])
  /\ ref' = TLCEval([k \in 1..Len(ref) |-> IF ref[k].id = ps[i+1].id THEN [ref[k] EXCEPT !.hash = h] ELSE ref[k]])
  /\ UNCHANGED <<nActive, nAlloc, tbl, ret, err, refActive, nextId>>
  /\ last' = <<"SetHash", i, h>>

Lookup(h) ==
  /\ \A k \in 1..N : ~ps[k].dead
  /\ \E pr \in LookupRel(h) :
       /\ ret' = pr[1] /\ tbl' = pr[2]
  /\ err' = FALSE
  /\ UNCHANGED <<ps, nActive, nAlloc, ref, refActive, nextId>>
  /\ last' = <<"Lookup", h>>

(* Python container read access sim.particles[k]: negative indices count from the end; anything
   outside -N..N-1 raises and returns nothing.                                                     *)
GetIdx(k) ==
  /\ \A q \in 1..N : ~ps[q].dead
  /\ ret' = IF -N <= k /\ k < N THEN (IF k < 0 THEN k + N ELSE k) ELSE -2
  /\ err' = ~(-N <= k /\ k < N)
  /\ UNCHANGED <<ps, nActive, nAlloc, tbl, ref, refActive, nextId>>
  /\ last' = <<"GetIdx", k>>

RemoveAll ==
  /\ ps' = <<>> /\ nActive' = -1 /\ nAlloc' = 0 /\ ref' = <<>> /\ refActive' = -1
  /\ ret' = 1 /\ err' = FALSE
  /\ UNCHANGED <<tbl, nextId>>
  /\ last' = <<"RemoveAll">>

SetNActive(k) ==
  /\ ~TreeMode                 \* tree simulations do not maintain N_active (scope, see DESIGN)
  /\ k \in 0..N
  /\ \A q \in 1..N : ~ps[q].dead
  /\ nActive' = k /\ refActive' = k
  /\ UNCHANGED <<ps, nAlloc, tbl, ret, err, ref, nextId>>
  /\ last' = <<"SetNActive", k>>

Next == \/ \E h \in Hashes : Add(h)
        \/ \E i \in -1..MaxN, ks \in BOOLEAN : RemoveIdx(i, ks)
        \/ \E h \in Hashes, ks \in BOOLEAN : RemoveHash(h, ks)
        \/ \E i \in 0..(MaxN-1), h \in Hashes : SetHash(i, h)
        \/ \E h \in Hashes : Lookup(h)
        \/ \E k \in (-MaxN-2)..(MaxN+1) : GetIdx(k)
        \/ RemoveAll
        \/ \E k \in 0..MaxN : SetNActive(k)
        \/ TreeFlush

Spec == Init /\ [][Next]_vars

-----------------------------------------------------------------------------
(* Properties (C14).  Each is stated on the implementation-shaped state against the reference.    *)

Live == SelectSeq(ps, LAMBDA p : ~p.dead)
Ids(s) == {s[k].id : k \in 1..Len(s)}
Proj(s) == [k \in 1..Len(s) |-> [id |-> s[k].id, hash |-> s[k].hash]]

\* exactly the expected particles (as a set of (id,hash)); with no tree and sorted removals only, order too
ExactlyExpected == {<<Live[k].id, Live[k].hash>> : k \in 1..Len(Live)} = {<<ref[k].id, ref[k].hash>> : k \in 1..Len(ref)}

\* same order as the reference whenever the reference order is defined (no tree)
OrderPreserved == ~TreeMode => Proj(ps) = ref

NActiveRange == nActive = -1 \/ (0 <= nActive /\ nActive <= N)

NActiveAsDocumented == ~TreeMode => nActive = refActive

\* a lookup answer is sound and complete
LookupOK == last[1] = "Lookup" =>
              LET h == last[2] IN
              /\ (ret # -1 => ret < N /\ ps[ret+1].hash = h)
              /\ (ret = -1 => \A k \in 1..N : ps[k].hash # h)

\* failing requests leave the particles unchanged -- as an action property
FailUnchanged == [][ (ret' = 0 /\ last'[1] \in {"RemoveIdx", "RemoveHash"}) => UNCHANGED <<ps, nActive>> ]_vars

\* an out-of-range request must fail
InvalidFails == [][ (last'[1] = "RemoveIdx" /\ (last'[2] < 0 \/ last'[2] >= N)) => (ret' = 0 /\ UNCHANGED <<ps, nActive>>) ]_vars

\* container access returns the addressed particle or fails
GetIdxOK == last[1] = "GetIdx" =>
              LET k == last[2] IN
              IF -N <= k /\ k < N THEN ret = (k + N) % N /\ ~err ELSE ret = -2 /\ err

AllocCovers == N <= nAlloc

=============================================================================
