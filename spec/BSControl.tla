------------------------------ MODULE BSControl ------------------------------
(* The order and step-size controller of the Gragg-Bulirsch-Stoer integrator (src/integrator_bs.c, reb_integrator_bs_step)
   as a state machine, one action per pass of the extrapolation loop and one for the bookkeeping after it.

   Persistent state of the controller (struct reb_integrator_bs):
        target    target_iter: the column of the extrapolation table at which convergence is expected (0 = not chosen yet)
        prevRej   previous_rejected
        fol       first_or_last_step
   State of one call:
        k         the column being computed (sequence[k] = 4k + 2 sub-steps), -1 before the first pass
        written   the columns whose optimal_step / cost_per_time_unit entries were computed by THIS call
        reads     the columns whose cost_per_time_unit entry was read by this call (column 0 holds the constant 0 set at allocation)
        oreads    the columns whose optimal_step entry was read by this call (column 0 is never written)
        rej       the call rejects the step
        src       where the proposed step comes from:  <<"stab">> |dt|/2, <<"opt", j>> optimal_step[j],
                  <<"min", j>> min(|dt|, optimal_step[j]),  <<"scaled", k, a>> optimal_step[k] * cost_per_step[a] / cost_per_step[k],
                  <<"min2", i, j>> min(optimal_step[i], optimal_step[j])  (accepted at the floor after the loop had rejected)
   The numbers (error estimate, cost comparisons) are the environment's: every pass receives
        ok        the stability check of the modified-midpoint sub-steps passed
        cls       the class of the error estimate: "conv" (<= 1), "hope" (> 1, may converge in the next column),
                  "hopeless" (> ratio^2 of the column sequence), "huge" (> 1e25), "nan"
        L8(i,j)   cost_per_time_unit[i] < 0.8 cost_per_time_unit[j]          L9(i,j)   ... < 0.9 ...
   What must hold whatever the numbers are:
     TargetInRange   1 <= target_iter <= SeqLen - 2 after the first call  (sequence[target_iter + 1] is read);
     KBound          the loop ends at the latest one column past the target: k <= target_iter + 1 <= SeqLen - 1 (array bounds);
     NoStaleRead     no optimal_step / cost entry is read that was not computed by this call (entries of earlier calls belong
                     to another step size and possibly another system);
     AfterReject     a step accepted right after a rejected one raises neither the order above the converged column nor the step;
     FlagsFollow     previous_rejected is exactly "the last call rejected"; first_or_last_step is cleared by an accepted step only;
     RejectHasSource a rejecting call proposes |dt|/2 or the optimal step of the (possibly lowered) target column;
     NoRejectAtFloor a call made at |dt| = min_dt never rejects (the caller would repeat the identical attempt for ever).
   GuardLow / CapHigh switch off the `target_iter > 1` guards and the `MIN(.., SeqLen - 2)` caps: the negative models.  *)
EXTENDS Integers, FiniteSets, TLC

CONSTANTS SeqLen, GuardLow, CapHigh, AcceptAtFloor

Classes == {"conv", "hope", "hopeless", "huge", "nan"}
VARIABLES target, prevRej, fol, pc, k, written, reads, oreads, rej, src, ktarget, calls, floor
vars == <<target, prevRej, fol, pc, k, written, reads, oreads, rej, src, ktarget, calls, floor>>

Cap(x) == IF CapHigh /\ x > SeqLen - 2 THEN SeqLen - 2 ELSE x
Gt1(t) == IF GuardLow THEN t > 1 ELSE TRUE
Min(a, b) == IF a < b THEN a ELSE b

Init == /\ target = 0 /\ prevRej = FALSE /\ fol = TRUE /\ pc = "idle" /\ k = -1 /\ written = {} /\ reads = {} /\ oreads = {}
        /\ rej = FALSE /\ src = <<"none">> /\ ktarget = 0 /\ calls = 0 /\ floor = FALSE

(* entry: initial order selection from the tolerance (t0 = MAX(1, MIN(SeqLen - 2, floor(0.5 - 0.6 log10 tol)))) *)
Begin(t0, fl) ==
  /\ pc = "idle" /\ floor' = fl
  /\ target' = IF target = 0 THEN t0 ELSE target
  /\ ktarget' = target'
  /\ pc' = "loop" /\ k' = -1 /\ written' = {} /\ reads' = {} /\ oreads' = {} /\ rej' = FALSE /\ src' = <<"none">>
  /\ calls' = calls + 1
  /\ UNCHANGED <<prevRej, fol>>

(* the target after a rejection at target column t: lowered by one when the lower column is cheaper *)
Lowered(t, l8) == IF Gt1(t) /\ l8 THEN t - 1 ELSE t

(* one pass of the loop; l8 is L8(t - 1, t) for the column t the rejection branch looks at *)
Pass(ok, cls, l8) ==
  /\ pc = "loop"
  /\ k' = k + 1
  /\ UNCHANGED <<prevRej, fol, ktarget, calls, floor>>
  /\ IF ~ok THEN /\ rej' = TRUE /\ src' = <<"stab">> /\ pc' = "end" /\ UNCHANGED <<target, written, reads, oreads>>
     ELSE IF k' = 0 THEN UNCHANGED <<target, written, reads, oreads, rej, src, pc>>
     ELSE IF cls = "nan" THEN /\ pc' = "idle" /\ src' = <<"error">> /\ UNCHANGED <<target, written, reads, oreads, rej>>     \* status error, dt_proposed = dt
     ELSE IF cls = "huge" THEN /\ rej' = TRUE /\ src' = <<"stab">> /\ pc' = "end" /\ UNCHANGED <<target, written, reads, oreads>>
     ELSE
       /\ written' = written \cup {k'}
       /\ LET d == k' - target
              RejectAt(t) == LET t2 == Lowered(t, l8) IN
                                /\ rej' = TRUE /\ target' = t2 /\ src' = <<"opt", t2>> /\ pc' = "end"
                                /\ reads' = reads \cup (IF Gt1(t) THEN {t - 1, t} ELSE {}) /\ oreads' = oreads \cup {t2}
              Stop == /\ pc' = "end" /\ UNCHANGED <<target, reads, oreads, rej, src>>
              Go == UNCHANGED <<target, reads, oreads, rej, src, pc>>
          IN CASE d = -1 -> IF target > 1 /\ ~prevRej
                            THEN (IF cls = "conv" THEN Stop ELSE IF cls = "hopeless" THEN RejectAt(k') ELSE Go)
                            ELSE Go
               [] d = 0  -> IF cls = "conv" THEN Stop ELSE IF cls = "hopeless" THEN RejectAt(target) ELSE Go
               [] d = 1  -> IF cls = "conv" THEN Stop ELSE RejectAt(target)
               [] OTHER  -> IF fol /\ cls = "conv" THEN Stop ELSE Go

(* after the loop: order selection for the next step (accepted steps only), flags.
   A step attempted at the minimal step size cannot be repeated with a smaller one: it is accepted on its error estimate
   (as IAS15 accepts at its min_dt), and is an error when there is no extrapolated result at all (stability check).
   AcceptAtFloor = FALSE is the controller without that rule: the same attempt is repeated for ever.                  *)
End(a, b, c, d2) ==        \* a = L8(k-1,k)  b = L9(k,k-1)  c = L8(k-2,k-1)  d2 = L9(k, optimalIter)
  /\ pc = "end"
  /\ pc' = "idle"
  /\ UNCHANGED <<k, written, ktarget, calls, floor>>
  /\ LET atfl == floor /\ AcceptAtFloor
         really == rej /\ ~atfl
     IN
     IF rej /\ atfl /\ src = <<"stab">>
     THEN /\ src' = <<"error">> /\ UNCHANGED <<target, prevRej, fol, reads, oreads, rej>>
     ELSE
     /\ rej' = really
     /\ prevRej' = really
     /\ fol' = IF really THEN fol ELSE FALSE
     /\ IF really THEN UNCHANGED <<target, src, reads, oreads>>
        ELSE
       LET o1 == IF k = 1 THEN (IF prevRej THEN 1 ELSE 2)
                 ELSE IF k <= target THEN (IF a THEN k - 1 ELSE IF b THEN Cap(k + 1) ELSE k)
                 ELSE LET o == IF k > 2 /\ c THEN k - 2 ELSE k - 1 IN IF d2 THEN Cap(k) ELSE o
           r1 == IF k = 1 THEN {}
                 ELSE IF k <= target THEN {k - 1, k}
                 ELSE (IF k > 2 THEN {k - 2, k - 1} ELSE {}) \cup {k, IF k > 2 /\ c THEN k - 2 ELSE k - 1}
       IN IF prevRej
          THEN /\ target' = Min(o1, k) /\ reads' = reads \cup r1 /\ oreads' = oreads \cup {Min(o1, k)}
               /\ src' = IF rej THEN <<"min2", target, Min(o1, k)>> ELSE <<"min", Min(o1, k)>>
          ELSE /\ target' = o1
               /\ IF o1 <= k THEN /\ src' = <<"opt", o1>> /\ reads' = reads \cup r1 /\ oreads' = oreads \cup {o1}
                  ELSE /\ reads' = reads \cup r1 \cup (IF k < target THEN {k - 1, k} ELSE {}) /\ oreads' = oreads \cup {k}
                       /\ src' = IF k < target /\ (IF k = 1 THEN FALSE ELSE b) THEN <<"scaled", k, o1 + 1>> ELSE <<"scaled", k, o1>>

(* the callers: a new N-body or user ODE set (particle number changed, reb_ode_create) marks the next step as "first" *)
NewOde == /\ pc = "idle" /\ fol' = TRUE /\ UNCHANGED <<target, prevRej, pc, k, written, reads, oreads, rej, src, ktarget, calls, floor>>
Reset == /\ pc = "idle" /\ target' = 0 /\ prevRej' = FALSE /\ fol' = TRUE /\ UNCHANGED <<pc, k, written, reads, oreads, rej, src, ktarget, calls, floor>>

Next == \/ \E t0 \in 1..SeqLen - 2, fl \in BOOLEAN : Begin(t0, fl)
        \/ \E ok \in BOOLEAN, cls \in Classes, l8 \in BOOLEAN : Pass(ok, cls, l8)
        \/ \E a, b, c, d2 \in BOOLEAN : End(a, b, c, d2)
        \/ NewOde \/ Reset
Spec == Init /\ [][Next]_vars

TypeOK == /\ target \in 0..SeqLen /\ k \in -1..SeqLen + 1 /\ pc \in {"idle", "loop", "end"}
TargetInRange == (calls > 0 /\ target # 0) => (target >= 1 /\ target <= SeqLen - 2)
KBound == pc # "idle" => (k <= ktarget + 1 /\ k <= SeqLen - 1)
NoStaleRead == reads \subseteq written \cup {0} /\ oreads \subseteq written
ScaledInTable == src[1] = "scaled" => (src[3] <= SeqLen - 1 /\ src[2] \in written)
AfterReject == [][(pc = "end" /\ ~rej' /\ prevRej /\ src' # <<"error">>) => (src'[1] \in {"min", "min2"} /\ target' <= k)]_vars
FlagsFollow == [][(pc = "end" /\ src' # <<"error">>) => (prevRej' = rej' /\ (fol' # fol => (~rej' /\ ~fol')))]_vars
RejectHasSource == [][(pc = "end" /\ rej' /\ src' # <<"error">>) => (src' = src /\ (src = <<"stab">> \/ src = <<"opt", target>>) /\ target' = target)]_vars
(* at the minimal step size a call never asks for the same attempt again *)
NoRejectAtFloor == [][(pc = "end" /\ floor) => (src' = <<"error">> \/ ~prevRej')]_vars
(* the loop cannot run for ever: every pass moves k forward and KBound stops it *)
Progress == [][pc = "loop" /\ pc' = "loop" => k' = k + 1]_vars
=============================================================================
