------------------------- MODULE Trace_ArchiveDelta -------------------------
(* Trace validation for ArchiveDelta (C06).  One event per snapshot append of a real history:
     cur      the live stream right before the append (field records in stream order)
     first    blob 0 parsed from the archive file
     delta    blob k parsed from the archive file
     loaded   [j, stream of snapshot j reloaded through the library]
   Field ids are ranks in the writer's descriptor order, so Stream() of the spec applies unchanged.
   Each event is two spec steps: arbitrary user mutations (unlogged, bound by `cur`), then Snapshot. *)
EXTENDS ArchiveDelta, Json, IOUtils, TLCExt, SequencesExt

Traces == ndJsonDeserialize(IOEnv.TRACE_FILE)
VARIABLES tid, l, phase
tvars == <<vars, tid, l, phase>>
Ev == Traces[tid].events

RecSeq(rs) == [q \in 1..Len(rs) |-> [id |-> rs[q][1], size |-> rs[q][2], v |-> rs[q][3]]]
MapOf(rs) == Overlay(Empty, RecSeq(rs), 1)

TraceInit == /\ live = Empty /\ first = <<>> /\ deltas = <<>> /\ ghosts = <<>>
             /\ tid \in 1..Len(Traces) /\ l = 1 /\ phase = "mutate"

TraceMutate == /\ phase = "mutate" /\ l <= Len(Ev)
               /\ live' = MapOf(Ev[l].cur)
               /\ phase' = "snap"
               /\ UNCHANGED <<first, deltas, ghosts, tid, l>>

TraceSnapshot ==
  /\ phase = "snap"
  /\ Snapshot
  /\ LET e == Ev[l] IN
       /\ Stream(live) = RecSeq(e.cur)                \* present fields, descriptor order
       /\ e.wellformed /\ e.nblobs = e.k + 1 /\ e.t_ok
       /\ IF e.k = 0 THEN first' = RecSeq(e.first)
                     ELSE first = RecSeq(e.first) /\ Last(deltas') = RecSeq(e.delta)
       /\ \A q \in 1..Len(e.loaded) : RecSeq(e.loaded[q][2]) = Stream(ghosts'[e.loaded[q][1] + 1])
  /\ l' = l + 1 /\ phase' = "mutate" /\ UNCHANGED tid

TraceNext == TraceMutate \/ TraceSnapshot
TraceSpec == TraceInit /\ [][TraceNext]_tvars

Report == IF l = Len(Ev) + 1 THEN PrintT(<<"ACC", tid>>) ELSE TRUE
=============================================================================
