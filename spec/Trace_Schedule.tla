--------------------------- MODULE Trace_Schedule ---------------------------
(* Trace validation for Schedule.  One trace = one integrator configuration and a sequence of
   user-level calls (step / sync / observe / setrecalc / reset-to-root-state); each event carries
   the operator word the implementation actually executed during the call (from the sub-step
   hooks, coefficients as round(arg/dt * 10^8), correctors / processors / EOS shell-1 collapsed --
   their inner words are checked against ScheduleEmit's tables by the harness), the
   is_synchronized flag afterwards, and digest ids (A3) of the integrator's internal coordinates
   (`cache`) and of the particle array (`parts`).                                                 *)
EXTENDS Schedule, Json, IOUtils, TLCExt

Traces == ndJsonDeserialize(IOEnv.TRACE_FILE)
Verbose == "VERBOSE" \in DOMAIN IOEnv /\ IOEnv.VERBOSE = "1"

VARIABLES tid, l, cacheD, partD, traj, prevA, keepOK, idemOK, obsOK, trajOK
tvars == <<vars, tid, l, cacheD, partD, traj, prevA, keepOK, idemOK, obsOK, trajOK>>

Ev == Traces[tid].events
Bitwise == Traces[tid].bitwise

TraceInit == /\ tid \in 1..Len(Traces) /\ l = 1
             /\ cfg = Traces[tid].cfg
             /\ isSync = TRUE /\ recalc = HasCoords(cfg)
             /\ word = <<>> /\ lastOps = <<>> /\ steps = 0 /\ depth = 0
             /\ cacheD = Traces[tid].cache0 /\ partD = Traces[tid].parts0
             /\ traj = <<>> /\ prevA = "init"
             /\ keepOK = TRUE /\ idemOK = TRUE /\ obsOK = TRUE /\ trajOK = TRUE

OpsClose(spec, obs) ==
  /\ Len(spec) = Len(obs)
  /\ \A i \in 1..Len(spec) : spec[i][1] = obs[i][1] /\ Abs(spec[i][2] - obs[i][2]) <= 2 /\ Abs(spec[i][3] - obs[i][3]) <= 2

Dig(e) == cacheD' = e.cache /\ partD' = e.parts /\ prevA' = e.a

TStep(e) ==
  /\ Step /\ OpsClose(lastOps', e.ops) /\ isSync' = e.sync
  /\ Dig(e)
  \* the internal state after k steps is a function of k, whatever was observed in between
  /\ IF Bitwise
       THEN IF steps' \in DOMAIN traj THEN trajOK' = (trajOK /\ traj[steps'] = e.cache) /\ traj' = traj
            ELSE trajOK' = trajOK /\ traj' = (steps' :> e.cache) @@ traj
       ELSE UNCHANGED <<traj, trajOK>>
  /\ UNCHANGED <<keepOK, idemOK, obsOK>>

TSync(e) ==
  /\ Sync /\ OpsClose(lastOps', e.ops) /\ isSync' = e.sync
  /\ Dig(e)
  \* keep_unsynchronized: internal coordinates untouched by the synchronisation
  /\ keepOK' = (keepOK /\ (cfg.keep => e.cache = cacheD))
  \* synchronising a synchronised state, or synchronising twice in a row, changes nothing
  /\ idemOK' = (idemOK /\ (isSync \/ prevA = "sync" => e.parts = partD /\ e.cache = cacheD))
  /\ UNCHANGED <<traj, obsOK, trajOK>>

TObserve(e) ==
  /\ Observe /\ e.ops = <<>> /\ isSync = e.sync
  /\ Dig(e)
  /\ obsOK' = (obsOK /\ e.cache = cacheD /\ e.parts = partD)
  /\ UNCHANGED <<traj, keepOK, idemOK, trajOK>>

TSetRecalc(e) ==
  /\ SetRecalc /\ Dig(e)
  /\ UNCHANGED <<traj, keepOK, idemOK, obsOK, trajOK>>

TReset(e) ==
  /\ isSync' = TRUE /\ recalc' = HasCoords(cfg) /\ word' = <<>> /\ lastOps' = <<>> /\ steps' = 0 /\ depth' = 0
  /\ Dig(e) /\ UNCHANGED <<cfg, traj, keepOK, idemOK, obsOK, trajOK>>

TraceNext == /\ l <= Len(Ev)
             /\ LET e == Ev[l] IN
                  \/ e.a = "step" /\ TStep(e)
                  \/ e.a = "sync" /\ TSync(e)
                  \/ e.a = "observe" /\ TObserve(e)
                  \/ e.a = "setrecalc" /\ TSetRecalc(e)
                  \/ e.a = "reset" /\ TReset(e)
             /\ l' = l + 1 /\ UNCHANGED tid

TraceSpec == TraceInit /\ [][TraceNext]_tvars

KeepUnsyncTransparent == keepOK
SyncTwiceSameAsOnce == idemOK
ObserveChangesNothing == obsOK
OutputsDoNotChangeTrajectory == trajOK

Report == /\ (l = Len(Ev) + 1 => PrintT(<<"ACC", tid>>))
          /\ (Verbose => PrintT(<<"AT", tid, l>>))
=============================================================================
