---------------------------- MODULE StepPipeline ----------------------------
(* The phases of one reb_simulation_step (src/rebound.c) as seen by the user's callbacks.

     pre    pre_timestep_modifications    (after a synchronisation; coordinates are re-derived afterwards)
     af     additional_forces             (once per force evaluation, after gravity, before the kick that uses it)
     post   post_timestep_modifications   (after part2 and a synchronisation)
     coll   collision_resolve             (after the boundary check of the completed step)
   plus the two markers the harness writes around the call (begin / end).  MERCURIUS additionally calls post and coll
   inside its encounter sub-integration with ri_mercurius.mode = 1; those events carry inner = TRUE.

   Has* say which callbacks are installed; Single says that the scheme evaluates the force exactly once per step.
   What must hold for every step (the trace specification checks the recorded order and the logged observations):
     Order         begin, pre?, af+, post?, coll*, end -- nothing else, nothing twice, nothing out of place;
     PreFirst      pre sees the state and time the step started from, synchronised;
     ForcesInside  every force evaluation happens after pre and before post; exactly one for single-evaluation schemes;
     PostLast      post sees the time the step ends at, synchronised, and its changes survive to the end marker;
     CollAfter     collisions are resolved after post, on the final positions of the step;
     CountOnce     steps_done grows by exactly one.                                                                    *)
EXTENDS Integers, Sequences, TLC

VARIABLES pc, naf, ncoll, has          \* has: which callbacks are installed and whether the scheme is single-evaluation (never changes)
vars == <<pc, naf, ncoll, has>>
HasPre == has.pre
HasAF == has.af
HasPost == has.post
HasColl == has.coll
Single == has.single
Init == /\ pc = "idle" /\ naf = 0 /\ ncoll = 0
        /\ has \in [pre : BOOLEAN, af : BOOLEAN, post : BOOLEAN, coll : BOOLEAN, single : BOOLEAN]

Begin == pc = "idle" /\ pc' = "begun" /\ naf' = 0 /\ ncoll' = 0 /\ UNCHANGED has
(* completing a deferred synchronisation (before pre) may need a force evaluation of its own: it belongs to the previous step *)
SyncAF == HasPre /\ HasAF /\ pc = "begun" /\ UNCHANGED vars
Pre == HasPre /\ pc = "begun" /\ pc' = "pre" /\ UNCHANGED <<naf, ncoll, has>>
AF == /\ HasAF /\ pc \in (IF HasPre THEN {"pre", "af"} ELSE {"begun", "af"})
      /\ (Single => naf = 0)
      /\ pc' = "af" /\ naf' = naf + 1 /\ UNCHANGED <<ncoll, has>>
Inside == pc \in {"begun", "pre", "af"}                        \* between the start of the step and the outer post callback
InnerPost == HasPost /\ Inside /\ UNCHANGED vars             \* MERCURIUS encounter loop (mode = 1)
InnerColl == HasColl /\ Inside /\ UNCHANGED vars
Post == /\ HasPost
        /\ pc = (IF HasAF THEN "af" ELSE IF HasPre THEN "pre" ELSE "begun")
        /\ pc' = "post" /\ UNCHANGED <<naf, ncoll, has>>
Coll == /\ HasColl
        /\ pc = (IF HasPost THEN "post" ELSE IF HasAF THEN "af" ELSE IF HasPre THEN "pre" ELSE "begun") \/ pc = "coll"
        /\ pc' = "coll" /\ ncoll' = ncoll + 1 /\ UNCHANGED <<naf, has>>
End == /\ pc = (IF HasPost THEN "post" ELSE IF HasAF THEN "af" ELSE IF HasPre THEN "pre" ELSE "begun") \/ pc = "coll"
       /\ pc' = "idle" /\ UNCHANGED <<naf, ncoll, has>>
Next == Begin \/ SyncAF \/ Pre \/ AF \/ Post \/ Coll \/ End \/ InnerPost \/ InnerColl
Spec == Init /\ [][Next]_vars

TypeOK == pc \in {"idle", "begun", "pre", "af", "post", "coll"}
(* the step cannot end before every installed single-shot callback ran *)
AllRan == [][(pc # "idle" /\ pc' = "idle") => ((HasAF => naf >= 1) /\ (Single /\ HasAF => naf = 1))]_vars
NoForceAfterPost == [][(pc \in {"post", "coll"}) => naf' = naf]_vars
=============================================================================
