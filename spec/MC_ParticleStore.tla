--------------------------- MODULE MC_ParticleStore ---------------------------
EXTENDS ParticleStore
CONSTANT MaxDepth
Depth == TLCGet("level") <= MaxDepth
===============================================================================
