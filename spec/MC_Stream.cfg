SPECIFICATION Spec
CONSTANTS
  Objs = {"A", "B"}
  First = "A"
  Fields = {"f1", "wall"}
  WallFields = {"wall"}
  Routes = {"copy", "stream"}
  MaxTerms = 6
  MaxDepth = 6
CONSTRAINT Bound
INVARIANT SelfEqual
PROPERTY Independent
PROPERTY ReproduceExact
CHECK_DEADLOCK FALSE
