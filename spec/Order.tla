-------------------------------- MODULE Order --------------------------------
(* C01, discrete part -- which configurations exist, what each must execute, and which mass enters each Kepler
   solve.  The operator words themselves (every kernel, corrector, coordinate system, SABA type, EOS splitting,
   JANUS order) are Schedule's and are validated on hook traces by the C09 check for all valid configurations;
   here:
     * the validity lattice of WHFast options (which combinations must be refused with an error),
     * the Kepler mass parameter mu_i of body i as a function of (coordinates, N_active, masses):
         Jacobi         G * (sum of the masses of the ACTIVE bodies up to and including i)
         democratic h.  G * m_0
         WHDS           G * (m_0 + m_i) for active bodies, G * m_0 for test particles
         barycentric    G * (total mass of the active bodies)
         MERCURIUS      G * m_0
     * the advertised order in the step size of every scheme (used by the sampled convergence measurement).       *)
EXTENDS Schedule, Json

RECURSIVE SumTo(_, _)
SumTo(m, k) == IF k = 0 THEN 0 ELSE m[k] + SumTo(m, k - 1)            \* masses are 1-based: body 0 is m[1]
Min(a, b) == IF a < b THEN a ELSE b
Mu(coord, m, na, i) ==        \* i: 0-based body index >= 1; G = 1
  CASE coord = "jacobi" -> SumTo(m, Min(i + 1, na))
    [] coord = "democraticheliocentric" -> m[1]
    [] coord = "whds" -> IF i < na THEN m[1] + m[i + 1] ELSE m[1]
    [] coord = "barycentric" -> SumTo(m, na)
    [] coord = "mercurius" -> m[1]

(* advertised order in dt (the leading error term in the step size; perturbation-order terms are not counted) *)
EosOrder(t) == CASE t = "lf" -> 2 [] t = "lf4" -> 4 [] t = "lf6" -> 6 [] t = "lf8" -> 8 [] t = "lf4_2" -> 2 [] t = "lf8_6_4" -> 4
                 [] t = "plf7_6_4" -> 4 [] t = "pmlf4" -> 4 [] t = "pmlf6" -> 6
Advertised == [leapfrog |-> 2, whfast |-> 2, saba |-> 2, mercurius |-> 2, trace |-> 2, janus2 |-> 2, janus4 |-> 4, janus6 |-> 6,
               eos_lf |-> 2, eos_lf4 |-> 4, eos_lf6 |-> 6, eos_lf8 |-> 8, eos_pmlf4 |-> 4, eos_pmlf6 |-> 6,
               eos_lf4_2 |-> EosOrder("lf4_2"), eos_lf864 |-> EosOrder("lf8_6_4"), eos_plf764 |-> EosOrder("plf7_6_4"),
               \* order in dt of each splitting type on its own; an EOS(phi0, phi1) scheme has the smaller of the two
               eostype_lf |-> EosOrder("lf"), eostype_lf4 |-> EosOrder("lf4"), eostype_lf6 |-> EosOrder("lf6"), eostype_lf8 |-> EosOrder("lf8"),
               eostype_lf4_2 |-> EosOrder("lf4_2"), eostype_lf8_6_4 |-> EosOrder("lf8_6_4"), eostype_plf7_6_4 |-> EosOrder("plf7_6_4"),
               eostype_pmlf4 |-> EosOrder("pmlf4"), eostype_pmlf6 |-> EosOrder("pmlf6")]

MassSets == {<<5, 1, 2, 3>>, <<8, 2, 1, 4>>}
WhfastAllOpts == {Cfg("whfast", co, k, cr, 0, TRUE, FALSE, 0, 0, "-", 0, FALSE) : co \in Coords, k \in Kernels, cr \in Correctors}

VARIABLE row
ovars == <<vars, row>>
OInit == /\ row \in ({<<"MU", co, ms, na>> : co \in Coords \cup {"mercurius"}, ms \in MassSets, na \in 2..4}
                     \cup {<<"VALID", c>> : c \in WhfastAllOpts} \cup {<<"ADV", 0>>})
         /\ cfg = 0 /\ isSync = TRUE /\ recalc = FALSE /\ word = <<>> /\ lastOps = <<>> /\ steps = 0 /\ depth = 0
OSpec == OInit /\ [][UNCHANGED ovars]_ovars
Emit == CASE row[1] = "MU" -> PrintT(<<"MU", ToJson([coord |-> row[2], m |-> row[3], na |-> row[4],
                                                    mu |-> [i \in 1..3 |-> Mu(row[2], row[3], row[4], i)]])>>)
          [] row[1] = "VALID" -> PrintT(<<"VALID", ToJson([coord |-> row[2].coord, kernel |-> row[2].kernel, corr |-> row[2].corr, valid |-> WhfastValid(row[2])])>>)
          [] row[1] = "ADV" -> PrintT(<<"ADV", ToJson(Advertised)>>)
(* sanity: with all bodies active the Jacobi parameter of the last body is the total mass; WHDS exceeds DH by G m_i *)
MuSane == row[1] = "MU" => LET m == row[3] IN
            /\ Mu("jacobi", m, 4, 3) = SumTo(m, 4)
            /\ \A i \in 1..3 : Mu("whds", m, 4, i) - Mu("democraticheliocentric", m, 4, i) = m[i + 1]
            /\ \A i \in 1..3 : Mu("barycentric", m, 4, i) = SumTo(m, 4)
=============================================================================
