----------------------------- MODULE MirrorEmit -----------------------------
EXTENDS Mirror, Json
VARIABLE j
EInit == j \in 1..Len(OptionTable) /\ cview = <<>> /\ pview = <<>> /\ mem = <<>> /\ lastw = <<>>
ESpec == EInit /\ [][UNCHANGED <<vars, j>>]_<<vars, j>>
Emit == PrintT(<<"OPT", ToJson(OptionTable[j])>>)
=============================================================================
