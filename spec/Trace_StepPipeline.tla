------------------------- MODULE Trace_StepPipeline -------------------------
(* Trace validation of the callback order of reb_simulation_step; the installed callbacks are read from the trace header. *)
EXTENDS StepPipeline, Json, IOUtils, TLCExt

Traces == ndJsonDeserialize(IOEnv.TRACE_FILE)
Verbose == "VERBOSE" \in DOMAIN IOEnv /\ IOEnv.VERBOSE = "1"
VARIABLES tid, l
tvars == <<tid, l, vars>>
T == Traces[tid]
Ev == T.events
E == Ev[l]

TraceInit == /\ tid \in 1..Len(Traces) /\ l = 1 /\ pc = "idle" /\ naf = 0 /\ ncoll = 0
             /\ has = [pre |-> T.has.pre, af |-> T.has.af, post |-> T.has.post, coll |-> T.has.coll, single |-> T.single]
Is(n) == l <= Len(Ev) /\ E.ev = n
Step == l' = l + 1 /\ UNCHANGED tid
(* observations logged with the events (the harness compares times, digests and flags in binary64 / bit for bit) *)
TBegin == Is("begin") /\ Begin /\ Step
TPre == Is("pre") /\ Pre /\ E.t_is_begin /\ E.sync /\ E.state_is_begin /\ E.steps_same /\ Step
TAFSync == Is("af") /\ ~E.inner /\ E.before_pre /\ ~E.sync0 /\ SyncAF /\ Step
TAF == Is("af") /\ ~E.inner /\ ~E.before_pre /\ AF /\ E.sees_pre /\ E.steps_same /\ Step
TAFInner == Is("af") /\ E.inner /\ Inside /\ HasAF /\ UNCHANGED vars /\ Step       \* encounter sub-integration
TPost == Is("post") /\ ~E.inner /\ Post /\ E.t_is_end /\ E.sync /\ E.steps_same /\ Step
TPostInner == Is("post") /\ E.inner /\ InnerPost /\ Step
TColl == Is("coll") /\ ~E.inner /\ Coll /\ E.t_is_end /\ E.sees_post /\ Step
TCollInner == Is("coll") /\ E.inner /\ InnerColl /\ Step
TEnd == Is("end") /\ End /\ E.steps_plus_one /\ E.post_kept /\ (HasAF => naf >= 1) /\ ((Single /\ HasAF) => naf = 1) /\ Step
TraceNext == TBegin \/ TPre \/ TAFSync \/ TAF \/ TAFInner \/ TPost \/ TPostInner \/ TColl \/ TCollInner \/ TEnd
TraceSpec == TraceInit /\ [][TraceNext]_tvars
Report == /\ (l = Len(Ev) + 1 => PrintT(<<"ACC", tid>>))
          /\ (Verbose => PrintT(<<"AT", tid, l>>))
=============================================================================
