SPECIFICATION TraceSpec
CONSTANTS
  MaxN = 100000
  MaxId = 100000
  Hashes = {0}
  TreeMode = FALSE
  Hybrid = FALSE
  BaseAlloc = 128
CONSTRAINT Report
INVARIANT ExactlyExpected
INVARIANT OrderPreserved
INVARIANT NActiveRange
INVARIANT NActiveAsDocumented
INVARIANT LookupOK
PROPERTY FailUnchanged
PROPERTY InvalidFails
CHECK_DEADLOCK FALSE
