--------------------------- MODULE Trace_BSControl ---------------------------
(* Trace validation of the Bulirsch-Stoer order / step-size controller.  One trace = the calls of reb_integrator_bs_step of
   one run (BS itself, or the Bulirsch-Stoer part of TRACE), recorded through the hooks bs_beg / bs_it / bs_end.
   The harness evaluates, with binary64 operations, the comparisons the controller makes on the logged numbers
   (error classes against the column-sequence ratios, cost comparisons over the entries written so far), recomputes every
   optimal_step / cost entry from the logged error, and lists the symbolic sources whose value -- after the min_dt / max_dt
   clamps and the sign of the step -- is bit for bit the logged proposal.  Every logged pass must then be BSControl!Pass,
   every end of a call BSControl!End with the logged post-state, and the invariants of BSControl hold along the way.    *)
EXTENDS BSControl, Json, IOUtils, TLCExt, Sequences

Traces == ndJsonDeserialize(IOEnv.TRACE_FILE)
Verbose == "VERBOSE" \in DOMAIN IOEnv /\ IOEnv.VERBOSE = "1"

VARIABLES tid, l
tvars == <<vars, tid, l>>
T == Traces[tid]
Ev == T.events
E == Ev[l]

TraceInit == /\ tid \in 1..Len(Traces) /\ l = 1
             /\ target = T.init.target /\ prevRej = T.init.prevRej /\ fol = T.init.fol
             /\ pc = "idle" /\ k = -1 /\ written = {} /\ reads = {} /\ oreads = {}
             /\ rej = FALSE /\ src = <<"none">> /\ ktarget = 0 /\ calls = 0 /\ floor = FALSE

Is(n) == l <= Len(Ev) /\ E.ev = n
Step == l' = l + 1 /\ UNCHANGED tid

SrcName(s) == CASE s[1] = "stab" -> "stab"
                [] s[1] = "opt" -> "opt" \o ToString(s[2])
                [] s[1] = "min" -> "min" \o ToString(s[2])
                [] s[1] = "min2" -> "min2_" \o ToString(s[2]) \o "_" \o ToString(s[3])
                [] s[1] = "scaled" -> "scaled" \o ToString(s[2]) \o "_" \o ToString(s[3])
                [] OTHER -> s[1]

(* silent: the caller marked the next step as first (new ODE set, TRACE's Bulirsch-Stoer loop) *)
TMark == /\ Is("beg") /\ E.fol /\ ~fol /\ NewOde /\ UNCHANGED <<tid, l>>
TReset == /\ Is("reset") /\ Reset /\ Step
TBeg == /\ Is("beg") /\ E.tprev = target /\ E.prevRej = prevRej /\ E.fol = fol
        /\ E.t0ok /\ E.t0 \in 1..SeqLen - 2
        /\ Begin(E.t0, E.floor) /\ Step

Cls(e) == IF e.nan THEN "nan" ELSE IF e.huge THEN "huge" ELSE IF e.conv THEN "conv"
          ELSE LET d == e.k - target IN
               IF d = -1 THEN (IF e.gtRm1 THEN "hopeless" ELSE "hope")
               ELSE IF d = 0 THEN (IF e.gtR0 THEN "hopeless" ELSE "hope") ELSE "hope"
TPass == /\ Is("it") /\ E.k = k + 1 /\ E.optok
         /\ LET t == IF E.k - target = -1 THEN E.k ELSE target
                l8 == IF t >= 1 /\ t <= SeqLen - 1 THEN E.l8adj[t] ELSE FALSE IN
            Pass(E.ok, Cls(E), l8)
         /\ Step
TEnd == /\ Is("end") /\ E.k = k
        /\ LET a == IF k >= 1 THEN E.l8adj[k] ELSE FALSE
               b == IF k >= 1 THEN E.l9adj[k] ELSE FALSE
               c == IF k >= 2 THEN E.l8adj[k - 1] ELSE FALSE
               d2 == IF k > 2 /\ c THEN E.l9k2 ELSE b IN
           End(a, b, c, d2)
        /\ rej' = E.rej /\ target' = E.target /\ prevRej' = E.prevRej /\ fol' = E.fol
        /\ SrcName(src') \in {E.srcs[i] : i \in 1..Len(E.srcs)}
        /\ Step
(* a NaN error estimate ends the call with an error status: the proposal is the step that came in, the flags stay *)
TErr == /\ Is("err") /\ pc = "idle" /\ src = <<"error">> /\ E.same /\ UNCHANGED vars /\ Step
(* no extrapolated result at the minimal step size: error status, the flags stay *)
TErrFloor == /\ Is("err") /\ pc = "end" /\ E.same /\ End(FALSE, FALSE, FALSE, FALSE) /\ src' = <<"error">> /\ Step

TraceNext == TMark \/ TReset \/ TBeg \/ TPass \/ TEnd \/ TErr \/ TErrFloor
TraceSpec == TraceInit /\ [][TraceNext]_tvars
Report == /\ (l = Len(Ev) + 1 => PrintT(<<"ACC", tid>>))
          /\ (Verbose => PrintT(<<"AT", tid, l>>))
=============================================================================
