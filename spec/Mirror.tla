------------------------------- MODULE Mirror -------------------------------
(* C18 -- two views of one block of memory.

   The C library and the Python ctypes classes both describe the same bytes: a view maps member
   names to (offset, size, kind).  The register-file model below states what "mirrors exactly"
   means operationally -- a write through one view is read back through the other at the member of
   the same name and nowhere else -- and TLC checks the lemma the conformance check rests on: for
   non-overlapping members, ALL cross write/read round trips succeed iff the two tables agree
   (so comparing tables and executing the write/read matrix decide the same thing, and a swapped pair
   of equal-size members or an equal-size wrong type is visible).

   The second half fixes, independently of both implementations, which C symbol every documented
   option name denotes (enumerators and exported functions).                                     *)
EXTENDS Integers, Sequences, FiniteSets, TLC

CONSTANTS Size, Members            \* bytes of the model struct; set of member names

VARIABLES cview, pview, mem, lastw
vars == <<cview, pview, mem, lastw>>

Kinds == {"int", "float"}
Field == [off : {o \in 0..(Size - 1) : o % 2 = 0}, size : {2, 4, 8}, kind : Kinds]
Bytes(f) == f.off..(f.off + f.size - 1)
Views == {v \in [Members -> Field] : (\A m \in Members : Bytes(v[m]) \subseteq 0..(Size - 1))
                                     /\ (\A m, n \in Members : m # n => Bytes(v[m]) \cap Bytes(v[n]) = {})}
Agree(a, b) == \A m \in Members : a[m] = b[m]

(* write value id v (with the writer's kind tag) through view w into member m of a zeroed block *)
WriteTo(v, m, val) == [i \in 0..(Size - 1) |-> IF i \in Bytes(v[m]) THEN <<val, v[m].kind>> ELSE <<0, "none">>]
ReadsBack(v, m, blk, val, kind) == /\ \A i \in Bytes(v[m]) : blk[i] = <<val, kind>>
Untouched(v, m, blk) == \A n \in Members \ {m} : \A i \in Bytes(v[n]) : blk[i] = <<0, "none">>
RoundTrip(a, b, m) == LET blk == WriteTo(a, m, 7) IN
                        /\ ReadsBack(b, m, blk, 7, b[m].kind)      \* same bytes, same interpretation
                        /\ Bytes(b[m]) = Bytes(a[m])               \* nothing of the value is cut off
                        /\ Untouched(b, m, blk)
AllRoundTrips(a, b) == \A m \in Members : RoundTrip(a, b, m) /\ RoundTrip(b, a, m)

(* the C view is one fixed layout (two ints and a double-like member); the Python view ranges over EVERY layout *)
Init == /\ cview \in {v \in Views : \E order \in [Members -> 0..2] :
                        (\A m, n \in Members : m # n => order[m] # order[n]) /\
                        (\A m \in Members : v[m] = [off |-> 4 * order[m], size |-> 4, kind |-> IF order[m] = 2 THEN "float" ELSE "int"])}
        /\ pview \in Views
        /\ mem = [i \in 0..(Size - 1) |-> <<0, "none">>] /\ lastw = <<>>
Write(side, m) == /\ mem' = WriteTo(IF side = "c" THEN cview ELSE pview, m, 7)
                  /\ lastw' = <<side, m>> /\ UNCHANGED <<cview, pview>>
Next == \E side \in {"c", "py"}, m \in Members : Write(side, m)
Spec == Init /\ [][Next]_vars

(* the lemma *)
TablesDecide == Agree(cview, pview) <=> AllRoundTrips(cview, pview)
(* when the tables agree every write is observed through the other view at the same member, nowhere else *)
ViewsAgree == Agree(cview, pview) /\ lastw # <<>> =>
                LET m == lastw[2] o == IF lastw[1] = "c" THEN pview ELSE cview IN
                  ReadsBack(o, m, mem, 7, o[m].kind) /\ Untouched(o, m, mem)

-----------------------------------------------------------------------------
(* documented option names -> C symbol (enumerator, or exported function for callback-valued options) *)
Opt(owner, attr, pairs) == [owner |-> owner, attr |-> attr, pairs |-> pairs]
OptionTable == <<
  Opt("sim", "integrator", <<<<"ias15", "REB_INTEGRATOR_IAS15">>, <<"whfast", "REB_INTEGRATOR_WHFAST">>, <<"sei", "REB_INTEGRATOR_SEI">>,
        <<"leapfrog", "REB_INTEGRATOR_LEAPFROG">>, <<"none", "REB_INTEGRATOR_NONE">>, <<"janus", "REB_INTEGRATOR_JANUS">>,
        <<"mercurius", "REB_INTEGRATOR_MERCURIUS">>, <<"saba", "REB_INTEGRATOR_SABA">>, <<"eos", "REB_INTEGRATOR_EOS">>, <<"bs", "REB_INTEGRATOR_BS">>,
        <<"whfast512", "REB_INTEGRATOR_WHFAST512">>, <<"trace", "REB_INTEGRATOR_TRACE">>>>),
  Opt("sim", "gravity", <<<<"none", "REB_GRAVITY_NONE">>, <<"basic", "REB_GRAVITY_BASIC">>, <<"compensated", "REB_GRAVITY_COMPENSATED">>,
        <<"tree", "REB_GRAVITY_TREE">>, <<"mercurius", "REB_GRAVITY_MERCURIUS">>, <<"jacobi", "REB_GRAVITY_JACOBI">>, <<"trace", "REB_GRAVITY_TRACE">>>>),
  Opt("sim", "collision", <<<<"none", "REB_COLLISION_NONE">>, <<"direct", "REB_COLLISION_DIRECT">>, <<"tree", "REB_COLLISION_TREE">>,
        <<"line", "REB_COLLISION_LINE">>, <<"linetree", "REB_COLLISION_LINETREE">>>>),
  Opt("sim", "boundary", <<<<"none", "REB_BOUNDARY_NONE">>, <<"open", "REB_BOUNDARY_OPEN">>, <<"periodic", "REB_BOUNDARY_PERIODIC">>,
        <<"shear", "REB_BOUNDARY_SHEAR">>>>),
  Opt("ri_whfast", "coordinates", <<<<"jacobi", "REB_WHFAST_COORDINATES_JACOBI">>, <<"democraticheliocentric", "REB_WHFAST_COORDINATES_DEMOCRATICHELIOCENTRIC">>,
        <<"whds", "REB_WHFAST_COORDINATES_WHDS">>, <<"barycentric", "REB_WHFAST_COORDINATES_BARYCENTRIC">>>>),
  Opt("ri_whfast", "kernel", <<<<"default", "REB_WHFAST_KERNEL_DEFAULT">>, <<"modifiedkick", "REB_WHFAST_KERNEL_MODIFIEDKICK">>,
        <<"composition", "REB_WHFAST_KERNEL_COMPOSITION">>, <<"lazy", "REB_WHFAST_KERNEL_LAZY">>>>),
  Opt("ri_trace", "peri_mode", <<<<"PARTIAL_BS", "REB_TRACE_PERI_PARTIAL_BS">>, <<"FULL_BS", "REB_TRACE_PERI_FULL_BS">>, <<"FULL_IAS15", "REB_TRACE_PERI_FULL_IAS15">>>>),
  Opt("ri_saba", "type", <<<<"1", "REB_SABA_1">>, <<"2", "REB_SABA_2">>, <<"3", "REB_SABA_3">>, <<"4", "REB_SABA_4">>,
        <<"cm1", "REB_SABA_CM_1">>, <<"cm2", "REB_SABA_CM_2">>, <<"cm3", "REB_SABA_CM_3">>, <<"cm4", "REB_SABA_CM_4">>,
        <<"cl1", "REB_SABA_CL_1">>, <<"cl2", "REB_SABA_CL_2">>, <<"cl3", "REB_SABA_CL_3">>, <<"cl4", "REB_SABA_CL_4">>,
        <<"10,4", "REB_SABA_10_4">>, <<"8,6,4", "REB_SABA_8_6_4">>, <<"10,6,4", "REB_SABA_10_6_4">>,
        <<"h8,4,4", "REB_SABA_H_8_4_4">>, <<"h8,6,4", "REB_SABA_H_8_6_4">>, <<"h10,6,4", "REB_SABA_H_10_6_4">>>>),
  Opt("ri_eos", "phi0", <<<<"lf", "REB_EOS_LF">>, <<"lf4", "REB_EOS_LF4">>, <<"lf6", "REB_EOS_LF6">>, <<"lf8", "REB_EOS_LF8">>, <<"lf4_2", "REB_EOS_LF4_2">>,
        <<"lf8_6_4", "REB_EOS_LF8_6_4">>, <<"plf7_6_4", "REB_EOS_PLF7_6_4">>, <<"pmlf4", "REB_EOS_PMLF4">>, <<"pmlf6", "REB_EOS_PMLF6">>>>),
  Opt("ri_eos", "phi1", <<<<"lf", "REB_EOS_LF">>, <<"lf4", "REB_EOS_LF4">>, <<"lf6", "REB_EOS_LF6">>, <<"lf8", "REB_EOS_LF8">>, <<"lf4_2", "REB_EOS_LF4_2">>,
        <<"lf8_6_4", "REB_EOS_LF8_6_4">>, <<"plf7_6_4", "REB_EOS_PLF7_6_4">>, <<"pmlf4", "REB_EOS_PMLF4">>, <<"pmlf6", "REB_EOS_PMLF6">>>>),
  Opt("ri_mercurius", "L", <<<<"mercury", "reb_integrator_mercurius_L_mercury">>, <<"C4", "reb_integrator_mercurius_L_C4">>,
        <<"C5", "reb_integrator_mercurius_L_C5">>, <<"infinity", "reb_integrator_mercurius_L_infinity">>>>),
  Opt("ri_trace", "S", <<<<"default", "reb_integrator_trace_switch_default">>>>),
  Opt("ri_trace", "S_peri", <<<<"default", "reb_integrator_trace_switch_peri_default">>, <<"none", "reb_integrator_trace_switch_peri_none">>>>),
  Opt("sim", "collision_resolve", <<<<"merge", "reb_collision_resolve_merge">>, <<"hardsphere", "reb_collision_resolve_hardsphere">>,
        <<"halt", "reb_collision_resolve_halt">>>>)
>>
(* agreement of two real tables (used on the tables extracted from the header and from ctypes):
   entries are <<name, offset, size, kind>>; kinds "int" / "uint" / "float" / "ptr" / "struct" / "array" *)
Compatible(kc, kp) == kc = kp        \* same type class, same signedness
EntryAgrees(c, p) == c[2] = p[2] /\ c[3] = p[3] /\ Compatible(c[4], p[4])
RECURSIVE Firsts(_), Seconds(_)
Firsts(p) == IF p = <<>> THEN {} ELSE {p[1][1]} \cup Firsts(Tail(p))
Seconds(p) == IF p = <<>> THEN {} ELSE {p[1][2]} \cup Seconds(Tail(p))
(* a name can only read back as itself if the table is one-to-one *)
OptionsOneToOne == \A i \in 1..Len(OptionTable) : LET p == OptionTable[i].pairs IN
                     Cardinality(Firsts(p)) = Len(p) /\ Cardinality(Seconds(p)) = Len(p)
=============================================================================
