SPECIFICATION Spec
CONSTANTS
 MaxN = 5
 Seps = {30, 105, 115}
CONSTRAINT Emit
INVARIANT Covered
INVARIANT Minimal
INVARIANT TpOnlySound
INVARIANT CountsAgree
CHECK_DEADLOCK FALSE
