------------------------------ MODULE Lattice ------------------------------
(* The lattice of documented option combinations (C05, C01, C09): which combinations are valid is
   transcribed from the *_init / part1 checks of the integrators (src/integrator_*.c) and from the
   documentation.  TLC enumerates every valid point; each is one implementation experiment.

   A point is a record with the same signature for all integrators; options that do not exist for
   an integrator carry the value "-".                                                            *)
EXTENDS Naturals, Sequences, FiniteSets, TLC, Json

Coords == {"jacobi", "democraticheliocentric", "whds", "barycentric"}
Kernels == {"default", "modifiedkick", "composition", "lazy"}
Correctors == {0, 3, 5, 7, 11, 17}
SabaTypes == {"1", "2", "3", "4", "cm1", "cm2", "cm3", "cm4", "cl1", "cl2", "cl3", "cl4",
              "10,4", "8,6,4", "10,6,4", "h8,4,4", "h8,6,4", "h10,6,4"}
EosTypes == {"lf", "lf4", "lf6", "lf8", "lf4_2", "lf8_6_4", "plf7_6_4", "pmlf4", "pmlf6"}
JanusOrders == {2, 4, 6, 8, 10}
IasModes == {0, 1, 2, 3}
PeriModes == {"PARTIAL_BS", "FULL_BS", "FULL_IAS15"}
Gravs == {"basic", "compensated"}
TPs == {"all", "tp0", "tp1"}        \* all active / test particles type 0 / type 1
Routes == {"pickle", "file", "archive", "getsim"}
Conts == {1, 2, 17}

P(integ, coord, kernel, corr, corr2, safe, keep, typ, typ2, n, grav, tp, var) ==
  [integ |-> integ, coord |-> coord, kernel |-> kernel, corr |-> corr, corr2 |-> corr2, safe |-> safe,
   keep |-> keep, typ |-> typ, typ2 |-> typ2, n |-> n, grav |-> grav, tp |-> tp, var |-> var]

(* --- validity, one conjunct per check in the code *)
WhfastValid(c) ==
  /\ (c.kernel # "default" => c.coord = "jacobi")                 \* "Non-standard kernel requires Jacobi coordinates."
  /\ (c.corr # 0 => c.coord \in {"jacobi", "barycentric"})        \* "Symplectic correctors are only compatible with ..."
  /\ (c.keep = 1 => c.safe = 0)                                   \* keep_unsynchronized needs safe_mode = 0
  /\ (c.corr2 = 1 => c.corr # 0)                                  \* second correctors refine a first corrector
  /\ (c.var = 1 => c.coord = "jacobi" /\ c.kernel = "default")    \* variational: Jacobi, standard kernel
  /\ (c.var = 1 => c.tp = "all")
  /\ (c.kernel \in {"modifiedkick", "lazy"} => c.grav = "basic")  \* these kernels select the Jacobi gravity routine themselves

Whfast == {c \in {P("whfast", co, k, cr, c2, s, kp, "-", "-", 0, g, tp, v) :
                    co \in Coords, k \in Kernels, cr \in Correctors, c2 \in {0, 1}, s \in {0, 1}, kp \in {0, 1},
                    g \in Gravs, tp \in TPs, v \in {0, 1}} : WhfastValid(c)}

Saba == {c \in {P("saba", "jacobi", "-", 0, 0, s, kp, t, "-", 0, g, tp, 0) :
                  s \in {0, 1}, kp \in {0, 1}, t \in SabaTypes, g \in Gravs, tp \in TPs} : c.keep = 1 => c.safe = 0}

Eos == {P("eos", "-", "-", 0, 0, s, 0, t0, t1, n, "basic", tp, 0) :
          s \in {0, 1}, t0 \in EosTypes, t1 \in EosTypes, n \in {1, 3}, tp \in {"all", "tp0"}}

(* "testparticletype=1 not implemented for second order variational equations" (gravity.c) *)
VarValid(c) == c.var = 2 => c.tp # "tp1"
Ias15 == {c \in {P("ias15", "-", "-", 0, 0, 1, 0, "-", "-", m, g, tp, v) : m \in IasModes, g \in Gravs, tp \in TPs, v \in {0, 1, 2}} : VarValid(c)}
Bs == {c \in {P("bs", "-", "-", 0, 0, 1, 0, "-", "-", 0, g, tp, v) : g \in Gravs, tp \in TPs, v \in {0, 1, 2}} : VarValid(c)}
Janus == {P("janus", "-", "-", 0, 0, 1, 0, "-", "-", o, g, "all", 0) : o \in JanusOrders, g \in Gravs}
Leapfrog == {P("leapfrog", "-", "-", 0, 0, 1, 0, "-", "-", 0, g, tp, 0) : g \in Gravs, tp \in TPs}
Mercurius == {P("mercurius", "-", "-", 0, 0, s, 0, "-", "-", 0, "basic", tp, 0) : s \in {0, 1}, tp \in TPs}
Trace == {P("trace", "-", "-", 0, 0, 1, 0, pm, "-", 0, "basic", tp, 0) : pm \in PeriModes, tp \in TPs}
Sei == {P("sei", "-", "-", 0, 0, 1, 0, "-", "-", 0, "basic", "all", 0)}

Points == Whfast \cup Saba \cup Eos \cup Ias15 \cup Bs \cup Janus \cup Leapfrog \cup Mercurius \cup Trace \cup Sei

(* --- invalid whfast combinations (must raise an error): used by C01 *)
WhfastAll == {P("whfast", co, k, cr, 0, s, kp, "-", "-", 0, "basic", "all", 0) :
                co \in Coords, k \in Kernels, cr \in Correctors, s \in {0, 1}, kp \in {0, 1}}
WhfastInvalid == {c \in WhfastAll : ~WhfastValid(c)}

VARIABLES pt
Init == pt \in Points
Next == UNCHANGED pt
Spec == Init /\ [][Next]_pt

(* model-level sanity theorems about the lattice *)
KeepNeedsUnsafe == pt.keep = 1 => pt.safe = 0
VarOnlyWhereSupported == pt.var > 0 => pt.integ \in {"whfast", "ias15", "bs"}
WhfastVarFirstOrder == (pt.integ = "whfast" /\ pt.var > 0) => pt.var = 1

Emit == PrintT(<<"PT", ToJson(pt)>>)
=============================================================================
