----------------------------- MODULE StepControl -----------------------------
(* The step-size controller of IAS15 (src/integrator_ias15.c, end of reb_integrator_ias15_step) as a state machine.

   Magnitudes live on a logarithmic lattice: a step size is  sign * 2^e  with e an integer "level"; the error estimate
   of an attempted step proposes a new level w (any level, the environment's choice), min_dt is a level or absent.
   One attempt:
        raw      the proposal  sign(dt) * 2^w            (the controller never changes the sign)
        clamp    |dt_new| < min_dt  ->  min_dt
        reject   |dt_new / dt| < 1/4:  state and time unchanged, dt := dt_new, try again
        limit    dt_new / dt > 4    ->  4 dt
        accept   t advances by dt, dt_last_done := dt, dt := dt_new
   SF = 2 levels is the safety factor 1/4.  What must hold for every sequence of proposals:
     SignKept        the step size never changes sign inside integrate (C08: time never moves against the direction);
     RejectShrinks   a rejected attempt leaves t (and the particles) untouched and shrinks |dt| by more than the safety factor,
                     or to min_dt; an accepted attempt advances t by exactly the step that was attempted;
     GrowthBounded   after an accepted step |dt| grows by at most 4 and shrinks by at most 4 (more would have been a rejection);
     FloorHolds      |dt| never falls below min_dt once it is at or above it (a start below climbs towards it);
     NoRejectAtFloor an attempt at |dt| = min_dt is never rejected (the loop `while(!step)` cannot spin at the floor);
     Terminates      under the assumption that the proposals do not keep demanding shrinkage for ever, every step is accepted. *)
EXTENDS Integers, TLC

CONSTANTS Levels, MinLevel, NoMin, MaxAttempts      \* Levels: set of integers; MinLevel \in Levels or NoMin

SF == 2
VARIABLES lev, sgn, tsteps, last, attempts, hist, pc
vars == <<lev, sgn, tsteps, last, attempts, hist, pc>>

HasMin == MinLevel # NoMin
Clamp(w) == IF HasMin /\ w < MinLevel THEN MinLevel ELSE w

Init == /\ lev \in Levels /\ sgn \in {1, -1} /\ tsteps = 0 /\ last = NoMin /\ attempts = 0 /\ hist = <<>> /\ pc = "try"

(* what one attempt at level l with proposal w does: <<verdict, new level>> *)
Outcome(l, w) == LET c == Clamp(w) IN
                   IF l - c > SF THEN <<"reject", c>>                                  \* |dt_new / dt| < 2^-SF
                   ELSE <<"accept", IF c - l > SF THEN l + SF ELSE c>>                   \* growth limited to 2^SF
(* the same decision from the three comparisons the code makes (what the traces log): proposal below the floor,
   clamped proposal below dt / 4, clamped proposal above 4 dt; "c" = the clamped proposal, "4d" = four times the old step *)
Decide(belowMin, ltQuarter, gtFour) == IF ltQuarter THEN <<"reject", "c">> ELSE IF gtFour THEN <<"accept", "4d">> ELSE <<"accept", "c">>
DecideMatches == \A l \in Levels, w \in Levels :
   LET c == Clamp(w)
       d == Decide(HasMin /\ w < MinLevel, l - c > SF, c - l > SF)
       o == Outcome(l, w) IN
   d[1] = o[1] /\ (d[2] = "c" => o[2] = c) /\ (d[2] = "4d" => o[2] = l + SF)

(* one attempt with proposal w *)
Attempt(w) ==
  /\ pc = "try" /\ attempts < MaxAttempts
  /\ LET o == Outcome(lev, w) IN
     IF o[1] = "reject"
     THEN /\ lev' = o[2] /\ UNCHANGED <<tsteps, last>>
          /\ hist' = <<"reject", lev, o[2]>>
          /\ attempts' = attempts + 1 /\ pc' = "try"
     ELSE /\ lev' = o[2] /\ tsteps' = tsteps + 1 /\ last' = lev
          /\ hist' = <<"accept", lev, o[2]>>
          /\ attempts' = 0 /\ pc' = "try"
  /\ UNCHANGED sgn

Next == \E w \in Levels : Attempt(w)
Fair == \A w \in Levels : WF_vars(Attempt(w))
Spec == Init /\ [][Next]_vars

SignKept == [][sgn' = sgn]_vars
RejectShrinks == [][(hist' # hist /\ hist'[1] = "reject") => (tsteps' = tsteps /\ last' = last /\ (lev' < lev - SF \/ (HasMin /\ lev' = MinLevel /\ lev' < lev)))]_vars
AcceptAdvances == [][(hist' # hist /\ hist'[1] = "accept") => (tsteps' = tsteps + 1 /\ last' = lev)]_vars
GrowthBounded == [][(hist' # hist /\ hist'[1] = "accept") => (lev' - lev <= SF /\ lev - lev' <= SF)]_vars
(* a user may start below the floor: the controller then climbs towards it (growth limit first) and never leaves it again *)
FloorHolds == [][(HasMin /\ hist' # hist) => (IF lev >= MinLevel THEN lev' >= MinLevel ELSE lev' > lev)]_vars
NoRejectAtFloor == [][(HasMin /\ lev = MinLevel /\ hist' # hist) => hist'[1] = "accept"]_vars
(* rejections strictly shrink the level: at most (top - bottom) / (SF + 1) + 1 in a row on a finite lattice *)
BoundedRejections == attempts * (SF + 1) <= 64
=============================================================================
