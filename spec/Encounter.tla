------------------------------ MODULE Encounter ------------------------------
(* The encounter bookkeeping of MERCURIUS (src/integrator_mercurius.c: reb_mercurius_encounter_predict and the head of
   reb_mercurius_encounter_step) on a lattice of cluster configurations.

   Index 0 is the star.  Bodies 1..N-1 are partitioned into clusters; members of one cluster are mutually at a separation
   of Sep percent of the larger critical radius, co-moving, everybody else is far away.  NA is N_active (-1: everybody),
   TT is testparticle_type.  The predictor visits the pairs (i, j) with i active and j > i and flags a pair when its minimal
   separation during the step is below 1.1 critical radii.  From the flagged pairs follow
        Members   the particles handed to the IAS15 sub-integration (the star always),
        encN      their number,          encNA   the active ones among them,
        tponly    only test particles met massive bodies (then the massive members keep their Kepler-step state).
   What the bookkeeping is for (checked by TLC for every row):
        Covered        every pair inside the changeover region (separation below the critical radius) that has a mutual force
                       is integrated by IAS15: both members are in Members;
        Minimal        a body that is in no flagged pair is not a member (apart from the star);
        TpOnlySound    tponly holds only when no flagged pair has a mutual force on a massive body: restoring the massive
                       members to their Kepler state drops no interaction;
        CountsAgree    encN = |Members|, encNA counts the active members, the sub-integration runs iff encN >= 2.
   A second family (built by the harness only) are fast fly-bys: two planets meeting inside the step with both end points far outside
   the critical radius, impact parameter 0.3 .. 3 critical radii: flagged iff the impact parameter is below 1.1 critical radii.
   The harness builds every row as a real simulation, takes one MERCURIUS step and compares encounter_N, encounter_N_active,
   tponly_encounter and the compacted encounter_map with the row.                                                        *)
EXTENDS Integers, FiniteSets, Sequences, TLC, Json

CONSTANTS MaxN, Seps          \* Seps: separations in percent of the critical radius, e.g. {30, 105, 115}

NoLimit == -1
Active(i, NA) == NA = NoLimit \/ i < NA

(* canonical partitions of 1..n-1: restricted growth strings, cl[i] = cluster label *)
RGS(n) == IF n = 1 THEN {<<>>}
          ELSE {f \in [1..n - 1 -> 1..n - 1] : f[1] = 1 /\ \A i \in 2..n - 1 : \E j \in 1..i - 1 : f[i] <= f[j] + 1}
Same(cl, i, j) == i # 0 /\ j # 0 /\ cl[i] = cl[j]
ClusterSizes(cl, n) == {Cardinality({i \in 1..n - 1 : cl[i] = c}) : c \in 1..n - 1}

(* the predictor: pairs with an active first member, j > i, closer than 1.1 critical radii *)
Flagged(n, NA, cl, sep) == {<<i, j>> \in (0..n - 1) \X (0..n - 1) : i < j /\ Active(i, NA) /\ Same(cl, i, j) /\ sep < 110}
Members(n, NA, cl, sep) == {0} \cup {p[1] : p \in Flagged(n, NA, cl, sep)} \cup {p[2] : p \in Flagged(n, NA, cl, sep)}
EncN(n, NA, cl, sep) == Cardinality(Members(n, NA, cl, sep))
EncNA(n, NA, cl, sep) == Cardinality({i \in Members(n, NA, cl, sep) : Active(i, NA)})
TpOnly(n, NA, TT, cl, sep) == TT # 1 /\ \A p \in Flagged(n, NA, cl, sep) : ~Active(p[2], NA)

(* a pair has a mutual force if one member is active (sources are the active bodies; with type 1 test particles pull back) *)
HasForce(i, j, NA) == Active(i, NA) \/ Active(j, NA)
ForceOnMassive(i, j, NA, TT) == (Active(i, NA) /\ Active(j, NA)) \/ (TT = 1 /\ (Active(i, NA) \/ Active(j, NA)))

VARIABLE row
Rows == {<<n, NA, TT, cl, sep>> : n \in 2..MaxN, NA \in {NoLimit} \cup (1..MaxN), TT \in {0, 1}, cl \in UNION {RGS(m) : m \in 2..MaxN}, sep \in Seps}
Valid(r) == /\ (r[2] = NoLimit \/ r[2] <= r[1])
            /\ Len(r[4]) = r[1] - 1
            /\ (r[5] # 30 => \A s \in ClusterSizes(r[4], r[1]) : s <= 2)        \* threshold rows: pairs only
Init == row \in {r \in Rows : Valid(r)}
Spec == Init /\ [][UNCHANGED row]_row

n_ == row[1]
NA_ == row[2]
TT_ == row[3]
cl_ == row[4]
sep_ == row[5]
Covered == \A i, j \in 0..n_ - 1 : (i < j /\ Same(cl_, i, j) /\ sep_ < 100 /\ HasForce(i, j, NA_))
                                   => (i \in Members(n_, NA_, cl_, sep_) /\ j \in Members(n_, NA_, cl_, sep_))
Minimal == \A i \in 1..n_ - 1 : i \in Members(n_, NA_, cl_, sep_) => \E p \in Flagged(n_, NA_, cl_, sep_) : i = p[1] \/ i = p[2]
TpOnlySound == TpOnly(n_, NA_, TT_, cl_, sep_) => \A p \in Flagged(n_, NA_, cl_, sep_) : ~ForceOnMassive(p[1], p[2], NA_, TT_)
CountsAgree == /\ EncNA(n_, NA_, cl_, sep_) >= 1 /\ EncNA(n_, NA_, cl_, sep_) <= EncN(n_, NA_, cl_, sep_)
               /\ (EncN(n_, NA_, cl_, sep_) >= 2 <=> Flagged(n_, NA_, cl_, sep_) # {})

SortedSeq(S) == LET RECURSIVE F(_, _)
                    F(T, acc) == IF T = {} THEN acc ELSE LET m == CHOOSE x \in T : \A y \in T : x <= y IN F(T \ {m}, Append(acc, m))
                IN F(S, <<>>)
Emit == PrintT(<<"E", ToJson([n |-> n_, na |-> NA_, tt |-> TT_, cl |-> cl_, sep |-> sep_,
                              encN |-> EncN(n_, NA_, cl_, sep_), encNA |-> EncNA(n_, NA_, cl_, sep_),
                              tponly |-> TpOnly(n_, NA_, TT_, cl_, sep_), map |-> SortedSeq(Members(n_, NA_, cl_, sep_))])>>)
=============================================================================
