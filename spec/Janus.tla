-------------------------------- MODULE Janus --------------------------------
(* C10 -- JANUS (src/integrator_janus.c): a symmetric composition of drifts and kicks on an INTEGER
   grid.  Positions and velocities are integers; a drift adds T(c * v) to x, a kick adds T(c * A(x)) to
   v, where T truncates toward zero (the C cast to an integer type), c is the stage coefficient times dt and
   A is an arbitrary function of the integer positions (the force evaluated on the grid positions).
   Because each sub-step changes one half of the state by a function of the other half, and T(-y) = -T(y),
   running the palindromic stage sequence with -dt undoes it exactly: n steps forward and n steps back
   return every bit.  TLC checks that for every order on lattices of initial states and several force
   tables, and the negative result that replaces T by floor (kept to show the model is not vacuous).

   One scalar degree of freedom (the argument is per component); coefficients in units of 10^-8.       *)
EXTENDS Integers, Sequences, TLC, ScheduleTables

CONSTANTS Order, NSteps, Mode, X0s, V0s, Tables

U == 100000000
VARIABLES x, v, ph, k, x0, v0, tab
vars == <<x, v, ph, k, x0, v0, tab>>

JG(o) == CASE o = 2 -> JanusGamma2 [] o = 4 -> JanusGamma4 [] o = 6 -> JanusGamma6 [] o = 8 -> JanusGamma8 [] o = 10 -> JanusGamma10
JS(o) == CASE o = 2 -> JanusStages2 [] o = 4 -> JanusStages4 [] o = 6 -> JanusStages6 [] o = 8 -> JanusStages8 [] o = 10 -> JanusStages10
Gg(o, st) == IF st < (JS(o) + 1) \div 2 THEN JG(o)[st + 1] ELSE JG(o)[JS(o) - 1 - st + 1]

(* T(c, y): c * y / 10^8 rounded toward zero ("trunc", the C cast) or toward minus infinity ("floor", the negative
   model).  TLC integers are 32 bit: the product is formed in two limbs of 10^4 on magnitudes.            *)
Abs(a) == IF a < 0 THEN -a ELSE a
Sgn(a) == IF a < 0 THEN -1 ELSE 1
L4 == 10000
FloorMag(c, a) == LET hi == c \div L4 lo == c % L4 IN (hi * a + (lo * a) \div L4) \div L4            \* floor(c a / 10^8), c, a >= 0
ExactMag(c, a) == LET hi == c \div L4 lo == c % L4 IN (lo * a) % L4 = 0 /\ (hi * a + (lo * a) \div L4) % L4 = 0
T(c, y) == LET m == FloorMag(Abs(c), Abs(y)) sg == Sgn(c) * Sgn(y) IN
           IF sg > 0 \/ Mode = "trunc" \/ ExactMag(Abs(c), Abs(y)) THEN sg * m ELSE -(m + 1)

(* force tables: functions of the integer position (not symmetric, not monotonic) *)
A(t, xx) == CASE t = 1 -> -(xx \div 4)
              [] t = 2 -> -((xx \div 64) * (xx \div 64)) \div 7 + 11
              [] t = 3 -> IF xx % 3 = 0 THEN 40 - xx \div 3 ELSE -(xx \div 5) - 5
              [] t = 4 -> 0

Drift(st, c, s) == [st EXCEPT !.x = st.x + T(s * c, st.v)]
Kick(st, c, s, t) == [st EXCEPT !.v = st.v + T(s * c, A(t, st.x))]
RECURSIVE Stages(_, _, _, _)
Stages(st, i, s, t) == IF i >= JS(Order) THEN st
                       ELSE Stages(Kick(Drift(st, (Gg(Order, i - 1) + Gg(Order, i)) \div 2, s), Gg(Order, i), s, t), i + 1, s, t)
(* one reb_simulation_step with dt = s (one tick forward or backward) *)
StepFn(st, s, t) == LET a == Drift(st, Gg(Order, 0) \div 2, s)
                        b == Kick(a, Gg(Order, 0), s, t)
                        c == Stages(b, 1, s, t) IN
                    Drift(c, Gg(Order, JS(Order) - 1) \div 2, s)

Init == /\ x0 \in X0s /\ v0 \in V0s /\ tab \in Tables /\ x = x0 /\ v = v0 /\ ph = "fwd" /\ k = 0
Fwd == /\ ph = "fwd" /\ k < NSteps
       /\ LET n == StepFn([x |-> x, v |-> v], 1, tab) IN x' = n.x /\ v' = n.v
       /\ k' = k + 1 /\ UNCHANGED <<ph, x0, v0, tab>>
Turn == /\ ph = "fwd" /\ k > 0 /\ ph' = "bwd" /\ UNCHANGED <<x, v, k, x0, v0, tab>>
Bwd == /\ ph = "bwd" /\ k > 0
       /\ LET n == StepFn([x |-> x, v |-> v], -1, tab) IN x' = n.x /\ v' = n.v
       /\ k' = k - 1 /\ UNCHANGED <<ph, x0, v0, tab>>
Next == Fwd \/ Turn \/ Bwd
Spec == Init /\ [][Next]_vars

Emit == PrintT(<<"J", x0, v0, tab, ph, k, x, v>>)
(* n steps forward then n steps back return exactly the initial state *)
RoundTripIdentity == ph = "bwd" /\ k = 0 => x = x0 /\ v = v0
(* the model really moves (no vacuous identity) *)
Moves == ~(ph = "fwd" /\ k = NSteps /\ x = x0 /\ v = v0 /\ tab # 4 /\ v0 # 0)
(* the stage table is a palindrome and sums to one *)
RECURSIVE SumG(_)
SumG(i) == IF i < 0 THEN 0 ELSE Gg(Order, i) + SumG(i - 1)
Palindrome == \A i \in 0..(JS(Order) - 1) : Gg(Order, i) = Gg(Order, JS(Order) - 1 - i)
Consistent == LET d == SumG(JS(Order) - 1) - U IN d < 40 /\ d > -40
=============================================================================
