SPECIFICATION Spec
CONSTRAINT Emit
INVARIANT PairCount
INVARIANT ClassesSane
CHECK_DEADLOCK FALSE
