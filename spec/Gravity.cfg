SPECIFICATION Spec
CONSTANTS
  MaxN = 6
CONSTRAINT Emit
INVARIANT Theorems
CHECK_DEADLOCK FALSE
