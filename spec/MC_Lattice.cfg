SPECIFICATION Spec
INVARIANT KeepNeedsUnsafe
INVARIANT VarOnlyWhereSupported
INVARIANT WhfastVarFirstOrder
CONSTRAINT Emit
CHECK_DEADLOCK FALSE
