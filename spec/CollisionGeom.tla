--------------------------- MODULE CollisionGeom ---------------------------
(* C13, detection clause, as a lattice oracle: two spheres in a periodic box (cubic 8 ticks with a ghost ring in x and y; and
   non-cubic root-box layouts with a ghost ring in all directions), integer positions, velocities and radii.  TLC evaluates, for every
   configuration, whether the pair MUST be handed to the resolver (Required), or MAY be (Boundary:
   touching spheres, zero approach speed -- measure-zero cases the statement does not decide):
     point search (direct, tree):   some image overlaps (d^2 < (r1+r2)^2) while approaching (dv.dx < 0)
     line search (line, linetree):  the straight paths over the last step (dt_last_done = 1 tick)
                                    came within r1+r2: min over the step of |dx(t)|^2 < (r1+r2)^2
   The harness runs every configuration through the four search modes.                         *)
EXTENDS Integers, Sequences, FiniteSets, TLC, Json

Pos == {-3, -1, 1, 3}
Vel == {-1, 0, 1}
Rad == {0, 1, 2}
Ghost == {-1, 0, 1}

Dot(a, b) == a[1] * b[1] + a[2] * b[2] + a[3] * b[3]
(* image g of particle 1 relative to particle 2; the box may be non-cubic (root-box layouts) *)
Dx(c, g) == <<c.x1 + g[1] * c.lx - c.x2, c.y1 + g[2] * c.ly - c.y2, c.z1 + g[3] * c.lz - c.z2>>
Dv(c) == <<c.vx, c.vy, c.vz>>
SR2(c) == (c.r1 + c.r2) * (c.r1 + c.r2)

PointReq(c, g) == Dot(Dx(c, g), Dx(c, g)) < SR2(c) /\ Dot(Dv(c), Dx(c, g)) < 0
PointMay(c, g) == Dot(Dx(c, g), Dx(c, g)) <= SR2(c) /\ Dot(Dv(c), Dx(c, g)) <= 0

(* squared minimum distance over the last step, times |dv|^2 (to stay in the integers):
   positions now: dx; one tick ago: dx - dv; closest approach inside the step iff 0 <= dx.dv <= dv.dv *)
Min(a, b) == IF a < b THEN a ELSE b
LineMin2(c, g) ==         \* returns <<num, den>> of the minimum squared distance
  LET dx == Dx(c, g) dv == Dv(c)
      dx0 == <<dx[1] - dv[1], dx[2] - dv[2], dx[3] - dv[3]>>
      ends == Min(Dot(dx, dx), Dot(dx0, dx0))
      vv == Dot(dv, dv) xv == Dot(dx, dv) IN
  IF vv > 0 /\ xv >= 0 /\ xv <= vv
    THEN LET r3n == Dot(dx, dx) * vv - xv * xv IN (IF r3n < ends * vv THEN <<r3n, vv>> ELSE <<ends, 1>>)
    ELSE <<ends, 1>>
LineReq(c, g) == LET m == LineMin2(c, g) IN m[1] < SR2(c) * m[2]
LineMay(c, g) == LET m == LineMin2(c, g) IN m[1] <= SR2(c) * m[2]

Gs(c) == Ghost \X Ghost \X (IF c.gz = 1 THEN Ghost ELSE {0})
Class(c) == [preq |-> \E g \in Gs(c) : PointReq(c, g), pmay |-> \E g \in Gs(c) : PointMay(c, g),
             lreq |-> \E g \in Gs(c) : LineReq(c, g), lmay |-> \E g \in Gs(c) : LineMay(c, g)]

(* family A: every pair on a 4 x 4 planar lattice in a cubic box of 8 ticks, ghost ring in x and y *)
ConfigsA == {c \in [x1 : Pos, y1 : Pos, z1 : {0}, x2 : Pos, y2 : Pos, z2 : {0}, vx : Vel, vy : Vel, vz : {0}, r1 : Rad, r2 : Rad,
                    lx : {8}, ly : {8}, lz : {8}, gz : {0}] : <<c.x1, c.y1>> # <<c.x2, c.y2>>}
(* family B: non-cubic boxes (root-box layouts 2x1x1, 1x2x1, 1x1x2 of an 8-tick root box) with a ghost ring
   in all three directions: a pair facing each other across one of the six faces                             *)
Layouts == {<<16, 8, 8>>, <<8, 16, 8>>, <<8, 8, 16>>}
Axis(a, v) == <<IF a = 1 THEN v ELSE 0, IF a = 2 THEN v ELSE 0, IF a = 3 THEN v ELSE 0>>
ConfigsB == {[x1 |-> Axis(a, s * (ly[a] \div 2 - d))[1], y1 |-> Axis(a, s * (ly[a] \div 2 - d))[2], z1 |-> Axis(a, s * (ly[a] \div 2 - d))[3],
              x2 |-> Axis(a, -s * (ly[a] \div 2 - 1))[1], y2 |-> Axis(a, -s * (ly[a] \div 2 - 1))[2], z2 |-> Axis(a, -s * (ly[a] \div 2 - 1))[3],
              vx |-> Axis(a, w)[1], vy |-> Axis(a, w)[2], vz |-> Axis(a, w)[3], r1 |-> q1, r2 |-> q2,
              lx |-> ly[1], ly |-> ly[2], lz |-> ly[3], gz |-> 1] :
               ly \in Layouts, a \in 1..3, s \in {1, -1}, d \in {1, 2}, w \in Vel, q1 \in {1, 2}, q2 \in Rad}
(* family C: fly-throughs in the cubic box -- a fast body whose straight path over the step passes the other one although
   neither end point overlaps it (the closest approach lies strictly inside the step)                                    *)
Fast == {-6, -4, 4, 6}
ConfigsC == {c \in [x1 : Pos, y1 : Pos, z1 : {0}, x2 : Pos, y2 : Pos, z2 : {0}, vx : Fast, vy : {-2, 0, 2}, vz : {0}, r1 : {0, 1}, r2 : {1, 2},
                    lx : {8}, ly : {8}, lz : {8}, gz : {0}] : <<c.x1, c.y1>> # <<c.x2, c.y2>>}
Configs == ConfigsA \cup ConfigsB \cup ConfigsC
EndsMin2(c, g) == LET dx == Dx(c, g) dv == Dv(c)
                      dx0 == <<dx[1] - dv[1], dx[2] - dv[2], dx[3] - dv[3]>> IN Min(Dot(dx, dx), Dot(dx0, dx0))
MidOnly(c) == \E g \in Gs(c) : LineReq(c, g) /\ EndsMin2(c, g) >= SR2(c)

VARIABLE c
Init == c \in Configs
Next == UNCHANGED c
Spec == Init /\ [][Next]_c
(* model-level sanity: what must be reported may be reported; the line criterion contains the point one *)
Sane == LET k == Class(c) IN (k.preq => k.pmay) /\ (k.lreq => k.lmay) /\ (k.preq => k.lreq)
B(x) == IF x THEN 1 ELSE 0
Emit == PrintT(<<"G", c.x1, c.y1, c.z1, c.x2, c.y2, c.z2, c.vx, c.vy, c.vz, c.r1, c.r2, c.lx, c.ly, c.lz, c.gz,
                B(Class(c).preq) + 2 * B(Class(c).pmay) + 4 * B(Class(c).lreq) + 8 * B(Class(c).lmay), B(MidOnly(c))>>)
=============================================================================
