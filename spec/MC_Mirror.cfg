SPECIFICATION Spec
CONSTANTS
  Size = 12
  Members = {"a", "b", "c"}
INVARIANT TablesDecide
INVARIANT ViewsAgree
INVARIANT OptionsOneToOne
CHECK_DEADLOCK FALSE
