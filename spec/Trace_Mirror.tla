---------------------------- MODULE Trace_Mirror ----------------------------
(* The real tables: for every mirrored structure the C view (offsetof / sizeof / type class printed by
   generated C programs compiled against src/rebound.h) and the Python view (ctypes introspection of
   the classes in rebound/), the executed write/read matrix, and the executed option round trips.
   One line of the input file per structure (kind "struct") or per option owner (kind "options").  *)
EXTENDS Mirror, Json, IOUtils, TLCExt

Items == ndJsonDeserialize(IOEnv.TRACE_FILE)
VARIABLES it, k
tv == <<vars, it, k>>

TInit == /\ it \in 1..Len(Items) /\ k = 0
         /\ cview = <<>> /\ pview = <<>> /\ mem = <<>> /\ lastw = <<>>
TNext == UNCHANGED tv
TraceSpec == TInit /\ [][TNext]_tv
X == Items[it]

(* every member Python names has the offset, size and type class of the C member of the same name *)
LayoutAgrees == X.kind = "struct" => \A i \in 1..Len(X.pairs) : EntryAgrees(X.pairs[i].c, X.pairs[i].p)
(* ... and the executed cross write/read succeeded in both directions with two different bit patterns *)
MatrixAgrees == X.kind = "struct" => \A i \in 1..Len(X.pairs) : X.pairs[i].rw = "ok" \/ X.pairs[i].rw = "skip"
(* a Python member without a C member of that name (or a structure of different total size) *)
NothingUnmatched == X.kind = "struct" => X.unmatched = <<>> /\ (X.csize = X.psize \/ X.py = "ServerData")
(* options: setting the name stores the C value of the specified symbol, and the name reads back *)
OptionRoundTrip == X.kind = "options" => \A i \in 1..Len(X.rows) : X.rows[i].stored = X.rows[i].expected /\ X.rows[i].readback \in {X.rows[i].name, "n/a"}
(* the harness executed exactly the rows of OptionTable *)
OptionsComplete == X.kind = "options" =>
   \E j \in 1..Len(OptionTable) : OptionTable[j].owner = X.owner /\ OptionTable[j].attr = X.attr
                                  /\ Len(X.rows) = Len(OptionTable[j].pairs)
                                  /\ \A i \in 1..Len(X.rows) : X.rows[i].name = OptionTable[j].pairs[i][1] /\ X.rows[i].symbol = OptionTable[j].pairs[i][2]
Report == PrintT(<<"SEEN", it>>)
=============================================================================
