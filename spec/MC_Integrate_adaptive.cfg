SPECIFICATION MCSpec
CONSTANTS
  Kind = "adaptive"
  T0sN = {10}
  Shift = 10
  DtMags = {1, 3}
  TMsN = {7, 10, 12, 14}
  MaxCalls = 2
  MaxEvents = 1
  AdaptDts = {1, 2, 4}
  MaxRej = 1
INVARIANT EndsAtTarget
INVARIANT Overshoot
INVARIANT RightDirection
INVARIANT DtRestored
INVARIANT NoOp
INVARIANT StatusFirst
INVARIANT NoSpuriousExit
PROPERTY MTimeMonotone
PROPERTY MNoStepAfterExit
CHECK_DEADLOCK FALSE
