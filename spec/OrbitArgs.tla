------------------------------ MODULE OrbitArgs ------------------------------
(* C11 -- the argument contract of the two particle constructors (C: reb_simulation_add_fmt /
   reb_particle_from_fmt, src/tools.c; Python: rebound.Particle / sim.add), written ONCE from the
   documented rules (the 14 error strings), as a decision table over which arguments are present and,
   for structurally valid calls, over classes of their values.  Both front ends must implement it.

   Also: the relations the read-back elements must satisfy on the pi/4 angle grid (Canon), computed
   by modular arithmetic.                                                                        *)
EXTENDS Integers, Sequences, FiniteSets, TLC

Atoms == <<"cart", "primary", "a", "P", "e", "inc", "Omega", "omega", "pomega", "f", "M", "E", "l", "theta", "T", "pal">>
NA == Len(Atoms)
Has(S, x) == x \in S
NonPal == {"e", "inc", "Omega", "omega", "pomega", "f", "M", "E", "theta", "T"}      \* error string 7 lists exactly these
Orb == {"primary", "a", "P", "e", "inc", "Omega", "omega", "pomega", "f", "M", "E", "l", "theta", "T"}
Long == {"f", "M", "E", "l", "theta", "T"}

(* result classes: 0 cartesian particle, 100 particle from classical elements, 101 particle from Pal elements, 1..14 error *)
Decide(S) ==
  IF S \cap NonPal # {} /\ "pal" \in S THEN 7
  ELSE IF "cart" \in S /\ S \cap Orb # {} THEN 8
  ELSE IF "cart" \in S \/ S \cap Orb = {} THEN 0
  ELSE IF "a" \notin S /\ "P" \notin S THEN 10
  ELSE IF "a" \in S /\ "P" \in S THEN 11
  ELSE IF "pal" \in S THEN 101
  ELSE IF "omega" \in S /\ "pomega" \in S THEN 13
  ELSE IF Cardinality(S \cap Long) > 1 THEN 14
  ELSE 100

(* value classes of a structurally valid classical call: e in halves (0, 1/2, 1, 3/2, -1/2 as e2 = 2e), sign of a,
   e*cos(f) < -1 (f beyond the asymptote), mass of the primary *)
DecideValues(e2, apos, beyond, pmass) ==
  IF e2 = 2 THEN 1
  ELSE IF e2 < 0 THEN 2
  ELSE IF e2 > 2 /\ apos THEN 3
  ELSE IF e2 < 2 /\ ~apos THEN 4
  ELSE IF beyond THEN 5
  ELSE IF pmass = 0 THEN 6
  ELSE 100
(* Pal call: ix^2 + iy^2 > 4 *)
DecidePal(big) == IF big THEN 12 ELSE 101

-----------------------------------------------------------------------------
(* bitmask encoding of presence sets for the emitted table *)
SetOf(n) == {Atoms[i] : i \in {j \in 1..NA : (n \div (2 ^ (j - 1))) % 2 = 1}}

(* read-back relations on the pi/4 grid (indices mod 8): Omega, omega, f given; inc in {0, 1, 2, 3, 4} quarter-pi *)
Retro(inc) == inc > 2            \* cos(inc) <= 0 ; inc = pi/2 counts as retrograde in both front ends (cos(inc) > 0 fails)
Mod8(x) == ((x % 8) + 8) % 8
PomegaIdx(inc, Om, om) == IF Retro(inc) THEN Mod8(Om - om) ELSE Mod8(Om + om)
ThetaIdx(inc, Om, om, f) == IF Retro(inc) THEN Mod8(Om - om - f) ELSE Mod8(Om + om + f)

VARIABLES row
vars == <<row>>
Init == row \in ({<<"S", n>> : n \in 0..(2 ^ NA - 1)}
                 \cup {<<"V", e2, ap, by, pm>> : e2 \in {0, 1, 2, 3, -1}, ap \in {0, 1}, by \in {0, 1}, pm \in {0, 1}}
                 \cup {<<"G", inc, Om, om, f>> : inc \in 0..4, Om \in 0..7, om \in 0..7, f \in 0..7})
Next == UNCHANGED row
Spec == Init /\ [][Next]_vars

Emit == CASE row[1] = "S" -> PrintT(<<"S", row[2], Decide(SetOf(row[2]))>>)
          [] row[1] = "V" -> PrintT(<<"V", row[2], row[3], row[4], row[5], DecideValues(row[2], row[3] = 1, row[4] = 1, row[5])>>)
          [] row[1] = "G" -> PrintT(<<"G", row[2], row[3], row[4], row[5], PomegaIdx(row[2], row[3], row[4]), ThetaIdx(row[2], row[3], row[4], row[5])>>)
(* sanity of the table itself *)
Total == row[1] = "S" => Decide(SetOf(row[2])) \in {0, 7, 8, 10, 11, 13, 14, 100, 101}
CartAloneIsFine == row[1] = "S" /\ SetOf(row[2]) \subseteq {"cart"} => Decide(SetOf(row[2])) = 0
PrimaryWithPalAllowed == row[1] = "S" /\ SetOf(row[2]) = {"primary", "a", "pal"} => Decide(SetOf(row[2])) = 101
=============================================================================
