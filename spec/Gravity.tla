------------------------------- MODULE Gravity -------------------------------
(* C02 -- which ordered pairs (j acts on i) a force routine sums.

   Acts(c) is the DECLARATIVE interaction set, from the statement: j is a source for i (i # j) iff j is
   active, or test particles have mass (testparticle_type = 1) and i is active and j a test particle;
   minus the pairs the integrator asked to leave out (gravity_ignore_terms = 1: the pair {0,1};
   = 2: every pair containing body 0).
   The loop-shaped sets are transcribed from the loop bounds of src/gravity.c (serial variants):
   BASIC (starti / startj / MAX(N_active, starti)), COMPENSATED (full i<j loop with skip tests),
   MERCURIUS mode 0 (planet pairs only, weight L) and mode 1 (star term + planet pairs over the
   encounter map, weight 1-L).  TLC proves them equal to the declarative sets for every
   configuration with N <= 6, and the partition theorem of the hybrid splitting.                   *)
EXTENDS Integers, FiniteSets, Sequences, TLC, Json

CONSTANT MaxN
Cfgs == {[n |-> n, na |-> na, type |-> ty, ign |-> ig] : n \in 0..MaxN, na \in -1..MaxN, ty \in {0, 1}, ig \in {0, 1, 2}}
Valid(c) == c.na <= c.n
Na(c) == IF c.na = -1 THEN c.n ELSE c.na
Idx(c) == 0..(c.n - 1)
Active(c, j) == j < Na(c)
Max(a, b) == IF a > b THEN a ELSE b

Src(c, i, j) == i # j /\ (Active(c, j) \/ (c.type = 1 /\ Active(c, i) /\ ~Active(c, j)))
Ignored(c, i, j) == (c.ign = 1 /\ {i, j} = {0, 1}) \/ (c.ign = 2 /\ (i = 0 \/ j = 0))
Acts(c) == {p \in Idx(c) \X Idx(c) : Src(c, p[1], p[2]) /\ ~Ignored(c, p[1], p[2])}

(* ---- BASIC, serial *)
BasicLoop(c) ==
  LET starti == IF c.ign = 0 THEN 1 ELSE 2
      startj == IF c.ign = 2 THEN 1 ELSE 0
      act == UNION {{<<i, j>>, <<j, i>>} : i \in starti..(Na(c) - 1), j \in startj..(c.n - 1)} \cap
             {p \in Idx(c) \X Idx(c) : (p[2] < p[1] /\ p[1] < Na(c) /\ p[1] >= starti /\ p[2] >= startj) \/
                                       (p[1] < p[2] /\ p[2] < Na(c) /\ p[2] >= starti /\ p[1] >= startj)}
      tp == {p \in Idx(c) \X Idx(c) : p[1] >= Max(Na(c), starti) /\ p[2] >= startj /\ p[2] < Na(c)}
      back == IF c.type = 1 THEN {<<p[2], p[1]>> : p \in tp} ELSE {} IN
  act \cup tp \cup back
(* ---- COMPENSATED, serial *)
Skip(c, i, j) == (c.ign = 1 /\ ((j = 1 /\ i = 0) \/ (i = 1 /\ j = 0))) \/ (c.ign = 2 /\ (j = 0 \/ i = 0))
CompLoop(c) ==
  LET act == UNION {{<<i, j>>, <<j, i>>} : i \in 0..(Na(c) - 1), j \in 0..(Na(c) - 1)} \cap
             {p \in Idx(c) \X Idx(c) : p[1] # p[2] /\ p[1] < Na(c) /\ p[2] < Na(c) /\ ~Skip(c, p[1], p[2])}
      tp == {p \in Idx(c) \X Idx(c) : p[1] >= Na(c) /\ p[2] < Na(c) /\ ~Skip(c, p[1], p[2])}
      back == IF c.type = 1 THEN {<<p[2], p[1]>> : p \in tp} ELSE {} IN
  act \cup tp \cup back
(* ---- MERCURIUS mode 0: the star is handled by the Kepler step; every other pair with weight L *)
Merc0Loop(c) ==
  LET act == {p \in Idx(c) \X Idx(c) : p[1] # p[2] /\ p[1] >= 1 /\ p[2] >= 1 /\ p[1] < Na(c) /\ p[2] < Na(c)}
      tp == {p \in Idx(c) \X Idx(c) : p[1] >= Max(Na(c), 2) /\ p[2] >= 1 /\ p[2] < Na(c)}
      back == IF c.type = 1 THEN {<<p[2], p[1]>> : p \in tp} ELSE {} IN
  act \cup tp \cup back
Merc0Decl(c) == Acts([c EXCEPT !.ign = 2])
(* ---- MERCURIUS mode 1 over the encounter list (positions 0..n-1 of the map; position 0 is the star):
        the star acts on everybody with full weight and feels nothing; pairs as in mode 0 with weight 1-L *)
Merc1Star(c) == {<<i, 0>> : i \in 1..(c.n - 1)}
Merc1Pairs(c) == Merc0Loop(c)

(* ---- TRACE (heliocentric coordinates; the star-body terms belong to the Kepler step).  K is the set of planet pairs
        <<j, i>>, 1 <= j < i, flagged as close encounters (current_Ks[j*N+i]); E the encounter list (body indices, 0 included).
        INTERACTION mode: the three loop nests of the serial variant, each skipping flagged pairs.
        KEPLER mode: star term for the members of E, flagged pairs between members of E (loops over list positions). *)
PlanetPairs(c) == {p \in Idx(c) \X Idx(c) : 1 <= p[1] /\ p[1] < p[2]}
InK(K, i, j) == (IF i < j THEN <<i, j>> ELSE <<j, i>>) \in K
TraceIntLoop(c, K) ==
  LET act == {p \in Idx(c) \X Idx(c) : p[1] # p[2] /\ p[1] >= 1 /\ p[2] >= 1 /\ p[1] < Na(c) /\ p[2] < Na(c) /\ ~InK(K, p[1], p[2])}
      tp == {p \in Idx(c) \X Idx(c) : p[1] >= Max(Na(c), 2) /\ p[2] >= 1 /\ p[2] < Na(c) /\ ~InK(K, p[1], p[2])}
      back == IF c.type = 1 THEN {<<p[2], p[1]>> : p \in tp} ELSE {} IN
  act \cup tp \cup back
EMin(c, K) == {0} \cup {p[1] : p \in K} \cup {p[2] : p \in K}
TraceKepStar(c, E) == {<<i, 0>> : i \in E \ {0}}
TraceKepPairs(c, K, E) ==
  LET act == {p \in E \X E : p[1] # p[2] /\ p[1] >= 1 /\ p[2] >= 1 /\ p[1] < Na(c) /\ p[2] < Na(c) /\ InK(K, p[1], p[2])}
      tp == {p \in E \X E : p[1] >= Max(Na(c), 1) /\ p[1] >= 1 /\ p[2] >= 1 /\ p[2] < Na(c) /\ InK(K, p[1], p[2])}
      back == IF c.type = 1 THEN {<<p[2], p[1]>> : p \in tp} ELSE {} IN
  act \cup tp \cup back
(* the probe variants of K printed for the harness *)
KVariant(c, v) == CASE v = 1 -> {} [] v = 2 -> PlanetPairs(c)
                    [] v = 3 -> {p \in PlanetPairs(c) : (p[1] + p[2]) % 3 = 0}
                    [] v = 4 -> {p \in PlanetPairs(c) : (p[1] * p[2]) % 2 = 1 \/ p[2] = c.n - 1}
                    [] v = 5 -> {p \in PlanetPairs(c) : p[1] = Na(c) - 1 /\ p[2] >= Na(c)}      \* last active body with the test particles
                    [] v = 6 -> {p \in PlanetPairs(c) : p[2] - p[1] = 2 /\ p[1] >= 2}            \* encounter list skips indices

(* theorems *)
(* TRACE: whatever pairs are flagged, as long as the encounter list holds their end points, the interaction part and the
   Kepler part sum every planet pair of the declarative set exactly once; with nothing flagged TRACE is MERCURIUS mode 0 *)
TracePartition(c) == c.ign = 0 => \A K \in SUBSET PlanetPairs(c) :
    \A E \in {EMin(c, K), Idx(c) \cup {0}} :
       /\ TraceIntLoop(c, K) \cup TraceKepPairs(c, K, E) = Merc0Decl(c)
       /\ TraceIntLoop(c, K) \cap TraceKepPairs(c, K, E) = {}
TraceNoFlagsIsMerc0(c) == c.ign = 0 => TraceIntLoop(c, {}) = Merc0Loop(c)
BasicIsDeclarative(c) == BasicLoop(c) = Acts(c)
CompIsDeclarative(c) == CompLoop(c) = Acts(c)
Merc0IsDeclarative(c) == c.ign = 0 => Merc0Loop(c) = Merc0Decl(c)
(* all active: the interaction set is symmetric (Newton's third law: the mass-weighted accelerations cancel) *)
SymmetricWhenAllActive(c) == Na(c) = c.n => \A p \in Acts(c) : <<p[2], p[1]>> \in Acts(c)
(* hybrid splitting: the Kepler part (star <-> body), mode-0 pairs (weight L) and mode-1 pairs (weight 1-L) cover the
   full declarative set exactly once in weight *)
PartitionComplete(c) == c.ign = 0 /\ c.n >= 1 =>
    Merc0Loop(c) \cup {p \in Acts(c) : p[1] = 0 \/ p[2] = 0} = Acts(c)

VARIABLES c
Init == c \in {x \in Cfgs : Valid(x)}
Next == UNCHANGED c
Spec == Init /\ [][Next]_c
SetToSeq(S) == LET RECURSIVE F(_) F(T) == IF T = {} THEN <<>> ELSE LET x == CHOOSE x \in T : TRUE IN <<x>> \o F(T \ {x}) IN F(S)
Emit == PrintT(<<"A", ToJson([cfg |-> c, acts |-> SetToSeq(Acts(c)), merc0 |-> SetToSeq(Merc0Decl(c))])>>)
     /\ (c.ign = 0 /\ c.n >= 3 /\ c.n <= 5 /\ Na(c) >= 1 =>
           \A v \in 1..6 : LET K == KVariant(c, v) IN
              PrintT(<<"T", ToJson([cfg |-> c, v |-> v, K |-> SetToSeq(K), E |-> SetToSeq(EMin(c, K)),
                                    int |-> SetToSeq(TraceIntLoop(c, K)), kep |-> SetToSeq(TraceKepPairs(c, K, EMin(c, K))),
                                    kepfull |-> SetToSeq(TraceKepPairs(c, K, Idx(c)))])>>))
(* every valid configuration is an initial state, so the theorems are checked configuration by configuration *)
Theorems == BasicIsDeclarative(c) /\ CompIsDeclarative(c) /\ Merc0IsDeclarative(c) /\ SymmetricWhenAllActive(c) /\ PartitionComplete(c)
            /\ TracePartition(c) /\ TraceNoFlagsIsMerc0(c)
=============================================================================
