SPECIFICATION OSpec
CONSTRAINT Emit
INVARIANT MuSane
CHECK_DEADLOCK FALSE
