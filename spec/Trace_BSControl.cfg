SPECIFICATION TraceSpec
CONSTANTS
 SeqLen = 9
 GuardLow = TRUE
 CapHigh = TRUE
 AcceptAtFloor = TRUE
INVARIANT TargetInRange
INVARIANT KBound
INVARIANT NoStaleRead
INVARIANT ScaledInTable
PROPERTY AfterReject
PROPERTY FlagsFollow
PROPERTY NoRejectAtFloor
CONSTRAINT Report
CHECK_DEADLOCK FALSE
