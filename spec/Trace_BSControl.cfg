SPECIFICATION TraceSpec
CONSTANTS
 SeqLen = 9
 GuardLow = TRUE
 CapHigh = TRUE
INVARIANT TargetInRange
INVARIANT KBound
INVARIANT NoStaleRead
INVARIANT ScaledInTable
PROPERTY AfterReject
PROPERTY FlagsFollow
CONSTRAINT Report
CHECK_DEADLOCK FALSE
