-------------------------- MODULE Trace_ArchiveFile --------------------------
(* Conformance of the real archive reader/writer with ArchiveFile on byte-level crash images (C07).
   One event = one abstract crash image of one reference archive together with everything the real
   code was observed to do with the byte images of that class:
     cells, final   run-length encoded cell sequences (image; file after restart and completion)
     k              the save that died;  K the number of snapshots of the uninterrupted run
     lens           D cells per blob of the uninterrupted run
     n, err, sig    reader result on the image (sig # 0: the process was killed by a signal)
     exposedOK      every exposed snapshot has the digest of the uninterrupted run's snapshot
     rn, rOK        reader result and digests after restarting from the last exposed snapshot
   TLC evaluates the specification's Open / AppendSnap on the logged image and prints one verdict
   vector per event; an event is accepted iff every clause holds.                                 *)
EXTENDS ArchiveFile, Json, IOUtils, TLCExt

Events == ndJsonDeserialize(IOEnv.TRACE_FILE)
VARIABLES tid, verdict
tvars == <<vars, tid, verdict>>

RECURSIVE Rep(_, _)
Rep(c, n) == IF n = 0 THEN <<>> ELSE <<c>> \o Rep(c, n - 1)

RECURSIVE Expand(_, _)
Expand(rs, j) ==
  IF j > Len(rs) THEN <<>>
  ELSE LET r == rs[j] IN
       (CASE r[1] = "H" -> <<H>>
          [] r[1] = "D" -> Rep(D(r[2]), r[3])
          [] r[1] = "E" -> <<E>>
          [] r[1] = "T" -> <<T(r[2], r[3], r[4])>>
          [] OTHER -> <<X>>) \o Expand(rs, j + 1)

(* the restart: re-run snapshots b = n .. K-1 on top of the image (or from scratch when nothing
   is exposed), exactly as CrashRestart followed by Save steps                                   *)
RECURSIVE Finish(_, _, _, _)
Finish(f, b, K, ls) == IF b >= K THEN f
                       ELSE Finish(IF b = 0 THEN FirstWrite(ls[1]) ELSE AppendSnap(f, b, ls[b + 1]), b + 1, K, ls)

Verdict(e) ==
  LET img == Expand(e.cells, 1)
      fin == Expand(e.final, 1)
      o == IF Len(img) >= 1 + e.versionAt /\ \A j \in 1..(1 + e.versionAt) : img[j].k \in {"H", "D"}
           THEN [n |-> Index(img, 0, 1), err |-> Index(img, 0, 1) = 0] ELSE [n |-> 0, err |-> TRUE]
      pred == Finish(IF o.n = 0 THEN <<>> ELSE img, o.n, e.K, e.lens)
  IN << e.sig = 0,                                   \* 1 opening/continuing never kills the process
        o.n = e.n /\ o.err = (e.err = 1),            \* 2 reader exposes what the specification's reader exposes
        e.k <= e.n /\ e.n <= e.k + 1,                \* 3 exactly the completed snapshots (+ the data-complete one in flight)
        (e.err = 1) <=> (e.n = 0),                   \* 4 error iff nothing is exposed
        e.exposedOK,                                 \* 5 exposed snapshots identical to the uninterrupted run's
        pred = fin,                                  \* 6 writer (repair + append) follows the specification
        e.rn = e.K /\ e.rOK >>                       \* 7 restart converges to the uninterrupted archive

TraceInit == /\ Init /\ tid \in 1..Len(Events) /\ verdict = <<>>
TraceNext == /\ verdict = <<>>
             /\ verdict' = Verdict(Events[tid])
             /\ PrintT(<<"EV", tid, verdict'>>)
             /\ UNCHANGED <<vars, tid>>
TraceSpec == TraceInit /\ [][TraceNext]_tvars
=============================================================================
