----------------------------- MODULE UnitsFrames -----------------------------
(* C20 -- units and reference frames as exact algebra.

   (a) Units in exponent space.  A quantity has a dimension (l, t, m) in Z^3; changing the unit system from U to V
       multiplies its number by  prod_d (s(U_d) / s(V_d))^dim_d  where s(u) is the size of unit u.  With every unit an
       independent generator, a conversion is the formal exponent vector over generators; transitivity,
       reversibility and the invariance of dimensionless combinations are identities of that algebra, checked by
       TLC over all unit triples of a reduced generator set.  The dimension table and the SI sizes (mantissa,
       decimal exponent; IAU 2012 au, Julian year, day, CODATA-2014 G, DE440-style GM values) are part of the spec.
   (b) The rotation group of the cube: the 24 signed permutation matrices of determinant +1, with composition and
       inverse; the constructors (axis-angle about coordinate axes, body diagonals and edge midpoints; orbital angles
       on the pi/2 grid) are specified as elements of the group.
   (c) Frame shifts as exact linear maps on integer lattices (centre of mass with a power-of-two total mass).     *)
EXTENDS Integers, Sequences, FiniteSets, TLC, Json

(* ---------------- (a) *)
Dims == [x |-> <<1, 0, 0>>, r |-> <<1, 0, 0>>, v |-> <<1, -1, 0>>, a |-> <<1, -2, 0>>, m |-> <<0, 0, 1>>, G |-> <<3, -2, -1>>,
         GMP2a3 |-> <<0, 0, 0>>]            \* G M P^2 / a^3 is dimensionless: 3-2-1 + (0,0,1) + (0,2,0) - (3,0,0) = 0
Gen == {"l1", "l2", "l3", "t1", "t2", "t3", "m1", "m2"}
Zero == [g \in Gen |-> 0]
(* the conversion factor of a quantity of dimension d from system U = <<l, t, m>> to V, as exponents over generators *)
Conv(d, U, V) == [g \in Gen |-> (IF g = U[1] THEN d[1] ELSE 0) - (IF g = V[1] THEN d[1] ELSE 0)
                              + (IF g = U[2] THEN d[2] ELSE 0) - (IF g = V[2] THEN d[2] ELSE 0)
                              + (IF g = U[3] THEN d[3] ELSE 0) - (IF g = V[3] THEN d[3] ELSE 0)]
Plus(a, b) == [g \in Gen |-> a[g] + b[g]]
Systems == {"l1", "l2", "l3"} \X {"t1", "t2", "t3"} \X {"m1", "m2"}
DimSet == {Dims[k] : k \in DOMAIN Dims}
Transitive == \A d \in DimSet : \A U, V, W \in Systems : Plus(Conv(d, U, V), Conv(d, V, W)) = Conv(d, U, W)
Reversible == \A d \in DimSet : \A U, V \in Systems : Plus(Conv(d, U, V), Conv(d, V, U)) = Zero
InvariantFree == \A U, V \in Systems : Conv(Dims.GMP2a3, U, V) = Zero
(* G in system U: G_SI expressed with the sizes of U: dimension (3,-2,-1) converted from SI *)
DimOfGConsistent == LET d == Dims.G IN d[1] = 3 /\ d[2] = -2 /\ d[3] = -1
                    /\ <<d[1] + 0 - 3, d[2] + 2, d[3] + 1>> = <<0, 0, 0>>       \* G * M * P^2 / a^3

(* SI sizes as <<mantissa, exponent>> meaning mantissa * 10^exponent (mantissa < 2^31); high-precision ones in two limbs <<hi, lo, exponent>> = (hi * 10^9 + lo) * 10^exponent *)
SI == [au |-> <<149, 597870700, 0>>, yr |-> <<0, 31557600, 0>>, day |-> <<0, 86400, 0>>, hr |-> <<0, 3600, 0>>, km |-> <<0, 1000, 0>>,
       cm |-> <<0, 1, -2>>, pc |-> <<30856775, 814913673, 0>>, kyr |-> <<31, 557600000, 0>>, myr |-> <<31557, 600000000, 0>>,
       G |-> <<0, 667408, -16>>,
       GMsun |-> <<132712440, 041939380, 3>>, GMearth |-> <<398600, 435436096, 0>>, GMjupiter |-> <<126686534, 921800800, 0>>]

(* names that denote the same unit: every member of a group must carry exactly the size of the group's first member;
   sizes fixed by definition beyond the table above: s = 1, m = 1, kg = 1, g = gram = 1e-3, gyr = 1e9 yr, sidereal_yr # yr *)
Aliases == << <<"day", "days", "d">>, <<"yr", "year", "years", "yrs", "jyr">>, <<"au", "aus">>, <<"pc", "parsec">>, <<"g", "gram">>,
             <<"msun", "solarmass", "sunmass", "msolar">> >>
AliasesDisjoint == \A i, j \in 1..Len(Aliases) : i # j => {Aliases[i][k] : k \in 1..Len(Aliases[i])} \cap {Aliases[j][k] : k \in 1..Len(Aliases[j])} = {}

(* ---------------- (b) *)
Idx == 1..3
Mat == [Idx -> [Idx -> {-1, 0, 1}]]
Mul(A, B) == [i \in Idx |-> [j \in Idx |-> A[i][1] * B[1][j] + A[i][2] * B[2][j] + A[i][3] * B[3][j]]]
Tr(A) == [i \in Idx |-> [j \in Idx |-> A[j][i]]]
Id == [i \in Idx |-> [j \in Idx |-> IF i = j THEN 1 ELSE 0]]
Det(A) == A[1][1] * (A[2][2] * A[3][3] - A[2][3] * A[3][2]) - A[1][2] * (A[2][1] * A[3][3] - A[2][3] * A[3][1]) + A[1][3] * (A[2][1] * A[3][2] - A[2][2] * A[3][1])
M(r1, r2, r3) == [i \in Idx |-> IF i = 1 THEN [j \in Idx |-> r1[j]] ELSE IF i = 2 THEN [j \in Idx |-> r2[j]] ELSE [j \in Idx |-> r3[j]]]
(* active rotations by +90 degrees about the coordinate axes (right-handed): Rz maps x -> y, y -> -x *)
Rz == M(<<0, -1, 0>>, <<1, 0, 0>>, <<0, 0, 1>>)
Rx == M(<<1, 0, 0>>, <<0, 0, -1>>, <<0, 1, 0>>)
Ry == M(<<0, 0, 1>>, <<0, 1, 0>>, <<-1, 0, 0>>)
RECURSIVE Pow(_, _)
Pow(A, k) == IF k = 0 THEN Id ELSE Mul(A, Pow(A, k - 1))
Group == {Mul(Pow(Rz, a), Mul(Pow(Rx, b), Pow(Rz, c))) : a \in 0..3, b \in 0..3, c \in 0..3}
(* +120 degrees about (1,1,1): x -> y -> z -> x ; 180 degrees about (1,1,0): x <-> y, z -> -z *)
Diag111 == M(<<0, 0, 1>>, <<1, 0, 0>>, <<0, 1, 0>>)
Edge110 == M(<<0, 1, 0>>, <<1, 0, 0>>, <<0, 0, -1>>)
(* Murray & Dermott 2.121: orbital angles (Omega, inc, omega) as quarter turns *)
Orbit(O, i, w) == Mul(Pow(Rz, O), Mul(Pow(Rx, i), Pow(Rz, w)))
GroupOK == /\ Cardinality(Group) = 24
           /\ \A A \in Group : Det(A) = 1 /\ Mul(A, Tr(A)) = Id /\ Tr(A) \in Group
           /\ \A A, B \in Group : Mul(A, B) \in Group
           /\ Diag111 \in Group /\ Edge110 \in Group /\ Pow(Diag111, 3) = Id /\ Pow(Edge110, 2) = Id

VARIABLE row
Init == row \in ({<<"O", O, i, w>> : O \in 0..3, i \in 0..2, w \in 0..3}
                 \cup {<<"A", ax, k>> : ax \in {"x", "y", "z"}, k \in 0..3}
                 \cup {<<"D", k>> : k \in 0..2} \cup {<<"E", 1>>} \cup {<<"DIM", 0>>})
Next == UNCHANGED row
Spec == Init /\ [][Next]_row
Flat(A) == <<A[1][1], A[1][2], A[1][3], A[2][1], A[2][2], A[2][3], A[3][1], A[3][2], A[3][3]>>
Emit == CASE row[1] = "O" -> PrintT(<<"O", row[2], row[3], row[4], ToJson(Flat(Orbit(row[2], row[3], row[4])))>>)
          [] row[1] = "A" -> PrintT(<<"A", row[2], row[3], ToJson(Flat(Pow(IF row[2] = "x" THEN Rx ELSE IF row[2] = "y" THEN Ry ELSE Rz, row[3])))>>)
          [] row[1] = "D" -> PrintT(<<"D", row[2], ToJson(Flat(Pow(Diag111, row[2])))>>)
          [] row[1] = "E" -> PrintT(<<"E", 1, ToJson(Flat(Edge110))>>)
          [] row[1] = "DIM" -> PrintT(<<"DIM", ToJson([dims |-> Dims, si |-> SI, aliases |-> Aliases])>>)
Theorems == Transitive /\ Reversible /\ InvariantFree /\ DimOfGConsistent /\ GroupOK /\ AliasesDisjoint
=============================================================================
