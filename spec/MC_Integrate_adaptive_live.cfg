SPECIFICATION MCSpec
CONSTANTS
  Kind = "adaptive"
  T0sN = {10}
  Shift = 10
  DtMags = {1, 3}
  TMsN = {7, 10, 12, 14}
  MaxCalls = 1
  MaxEvents = 1
  AdaptDts = {1, 2, 4}
  MaxRej = 1
PROPERTY Terminates
CHECK_DEADLOCK FALSE
