------------------------------ MODULE Cadence ------------------------------
(* Automatic Simulationarchive snapshots (C06, cadence clause).  Transcribed from
   reb_simulationarchive_heartbeat / reb_simulation_save_to_file_interval / _step
   (src/simulationarchive.c) and the call sites in reb_simulation_integrate_raw (src/rebound.c):
   the archive heartbeat runs before every step and once more after the loop.
   Times are integer ticks (abstraction A1: dyadic dt, so t accumulates exactly).                *)
EXTENDS Integers, Sequences, TLC

CONSTANTS Dts,        \* step sizes in ticks (positive; direction is a separate variable)
          Intervals,  \* auto_interval values in ticks
          AutoSteps,  \* auto_step values
          MaxT, MaxRestarts, MaxInt

VARIABLES t, steps, dt, dir, mode, ival, astep, next, nextStep, snaps, restarts, attachAt, base, last
vars == <<t, steps, dt, dir, mode, ival, astep, next, nextStep, snaps, restarts, attachAt, base, last>>

Snap(tt, ss, nx, ns, auto) == [t |-> tt, steps |-> ss, next |-> nx, nextStep |-> ns, auto |-> auto, ival |-> ival, astep |-> astep, att |-> attachAt, base |-> base]
NAutos(sq) == Len(SelectSeq(sq, LAMBDA x : x.auto))

Init == /\ t = 0 /\ steps = 0 /\ dt \in Dts /\ dir \in {1, -1}
        /\ mode = "off" /\ ival = 0 /\ astep = 0 /\ next = 0 /\ nextStep = 0
        /\ snaps = <<>> /\ restarts = 0 /\ attachAt = 0 /\ base = 0 /\ last = <<"Init">>

(* state of the heartbeat machine as a record so that Integrate(n) can be composed *)
St == [t |-> t, steps |-> steps, next |-> next, nextStep |-> nextStep, snaps |-> snaps]

(* reb_simulationarchive_heartbeat: advance `next` FIRST, then write (the snapshot persists the
   advanced value -- this is what makes a restart continue the progression)                      *)
HB(s) ==
  IF mode = "interval" /\ dir * s.next <= dir * s.t
  THEN LET nx == s.next + dir * ival IN
       [s EXCEPT !.next = nx, !.snaps = Append(s.snaps, Snap(s.t, s.steps, nx, s.nextStep, TRUE))]
  ELSE IF mode = "step" /\ s.nextStep <= s.steps
  THEN LET ns == s.nextStep + astep IN
       [s EXCEPT !.nextStep = ns, !.snaps = Append(s.snaps, Snap(s.t, s.steps, s.next, ns, TRUE))]
  ELSE s

StepOnce(s) == [s EXCEPT !.t = s.t + dir * dt, !.steps = s.steps + 1]

RECURSIVE Loop(_, _)
Loop(s, n) == IF n = 0 THEN s ELSE Loop(StepOnce(HB(s)), n - 1)

(* sim.integrate(t + n*dt) with exact_finish_time = 0 on the tick lattice: n iterations of
   (archive heartbeat; step), then the final archive heartbeat                                    *)
Integrate(n) ==
  /\ n \in 1..MaxInt /\ t * dir + n * dt <= MaxT
  /\ (mode = "off" => ival = 0 /\ astep = 0)      \* after a restart the user re-attaches the archive first
  /\ LET s == HB(Loop(St, n)) IN
       /\ t' = s.t /\ steps' = s.steps /\ next' = s.next /\ nextStep' = s.nextStep /\ snaps' = s.snaps
  /\ UNCHANGED <<dt, dir, mode, ival, astep, restarts, attachAt, base>>
  /\ last' = <<"Integrate", n>>

AttachInterval(i) ==
  /\ mode \in {"off", "interval"} /\ astep = 0
  /\ (mode = "off" /\ ival # 0 => i = ival)        \* ... with the same cadence
  /\ mode' = "interval" /\ ival' = i
  /\ next' = IF ival # i THEN t ELSE next
  /\ attachAt' = IF ival # i THEN t ELSE attachAt
  /\ base' = IF ival # i THEN NAutos(snaps) ELSE base
  /\ UNCHANGED <<t, steps, dt, dir, astep, nextStep, snaps, restarts>>
  /\ last' = <<"AttachInterval", i>>

AttachStep(k) ==
  /\ mode \in {"off", "step"} /\ ival = 0
  /\ (mode = "off" /\ astep # 0 => k = astep)
  /\ mode' = "step" /\ astep' = k
  /\ nextStep' = IF astep # k THEN steps ELSE nextStep
  /\ attachAt' = IF astep # k THEN steps ELSE attachAt
  /\ base' = IF astep # k THEN NAutos(snaps) ELSE base
  /\ UNCHANGED <<t, steps, dt, dir, ival, next, snaps, restarts>>
  /\ last' = <<"AttachStep", k>>

Manual ==
  /\ Len(snaps) < 5
  /\ snaps' = Append(snaps, Snap(t, steps, next, nextStep, FALSE))
  /\ UNCHANGED <<t, steps, dt, dir, mode, ival, astep, next, nextStep, restarts, attachAt, base>>
  /\ last' = <<"Manual">>

(* the process dies; the user reloads the LAST snapshot.  The file name is not persisted, so
   automation is off until re-attached; interval/step and next/next_step are persisted.           *)
Restart ==
  /\ snaps # <<>> /\ restarts < MaxRestarts
  /\ LET s == snaps[Len(snaps)] IN
       /\ t' = s.t /\ steps' = s.steps /\ next' = s.next /\ nextStep' = s.nextStep
       /\ ival' = s.ival /\ astep' = s.astep
  /\ mode' = "off" /\ restarts' = restarts + 1
  /\ attachAt' = snaps[Len(snaps)].att /\ base' = snaps[Len(snaps)].base   \* ghosts: the cadence in force at that snapshot
  /\ UNCHANGED <<dt, dir, snaps>>
  /\ last' = <<"Restart">>

Next == \/ \E n \in 1..MaxInt : Integrate(n)
        \/ \E i \in Intervals : AttachInterval(i)
        \/ \E k \in AutoSteps : AttachStep(k)
        \/ Manual \/ Restart
Spec == Init /\ [][Next]_vars
Bound == TLCGet("level") <= 9 /\ Len(snaps) <= 5

-----------------------------------------------------------------------------
AllAutos == SelectSeq(snaps, LAMBDA s : s.auto)
Autos == SubSeq(AllAutos, base + 1, Len(AllAutos))   \* those since the cadence was (re)defined

(* step mode: automatic snapshots sit exactly on the progression attachAt + j*astep, each exactly
   once, also across restarts (re-attached with the same step)                                     *)
StepCadence == (astep # 0) =>
   \A j \in 1..Len(Autos) : Autos[j].steps = attachAt + (j - 1) * astep /\ Autos[j].nextStep = Autos[j].steps + astep

(* interval mode with the interval a multiple of dt: exactly on attachAt + j*interval *)
IntervalCadence == (ival # 0 /\ ival % dt = 0) =>
   \A j \in 1..Len(Autos) : Autos[j].t = attachAt + dir * (j - 1) * ival /\ Autos[j].next = Autos[j].t + dir * ival

(* general interval: one snapshot per crossing, at the first boundary at/after it, never two for
   the same due time                                                                              *)
IntervalNoDup == (ival # 0 /\ ival >= dt) =>
   \A j \in 1..Len(Autos) :
      /\ dir * Autos[j].t >= dir * (attachAt + dir * (j - 1) * ival)
      /\ dir * Autos[j].t <  dir * (attachAt + dir * (j - 1) * ival) + dt
=============================================================================
