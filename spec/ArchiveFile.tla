---------------------------- MODULE ArchiveFile ----------------------------
(* Simulationarchive file protocol under process death (C07).

   The file is a sequence of cells.  One cell is the unit a single fread/fwrite moves:
     [k |-> "H"]                              64-byte header (first blob only)
     [k |-> "D", b |-> snapshot]              one field record (header + payload) of blob b
     [k |-> "E"]                              END field
     [k |-> "T", idx, prev, next]             12-byte trailer; prev/next count the cells of the
                                              neighbouring blob (its D cells + E), as the byte offsets do
     [k |-> "X"]                              bytes that are not a complete cell (torn write, or stale
                                              bytes left behind by an overwrite); reading it fails
   Reader  = reb_read_simulationarchive_from_stream_with_messages (index builder)
   Writer  = reb_simulation_save_to_file (first write / append with corruption check and tail repair)
   Crash   = the process dies having written only a prefix of the bytes of one save.
   GARB is a trailer offset made of partially written bytes.                                      *)
EXTENDS Integers, Sequences, FiniteSets, TLC

CONSTANTS MaxSnap,     \* number of snapshots the uninterrupted run writes
          Lens,        \* possible numbers of D cells in a blob (function of the snapshot number)
          MaxCrashes,
          VersionAt    \* index (among the first blob's D cells) of the field carrying the archive version

GARB == 99

H == [k |-> "H"]
D(b) == [k |-> "D", b |-> b]
E == [k |-> "E"]
T(i, p, n) == [k |-> "T", idx |-> i, prev |-> p, next |-> n]
X == [k |-> "X"]

IsT(c) == c.k = "T"

-----------------------------------------------------------------------------
(* ---------- Reader: returns [n |-> number of snapshots exposed, err |-> BOOLEAN, old |-> BOOLEAN] *)

(* position after the END of the blob starting at cell position p (1-based), or 0 on read error.
   A blob is D* E (the first one is preceded by H).                                               *)
RECURSIVE ScanBlob(_, _)
ScanBlob(f, p) == IF p > Len(f) THEN 0
                  ELSE IF f[p].k = "E" THEN p + 1
                  ELSE IF f[p].k \in {"D", "H"} THEN ScanBlob(f, p + 1)
                  ELSE 0            \* X or a trailer where a field was expected

(* index builder: i = blob number (0-based), p = position of its first cell *)
RECURSIVE Index(_, _, _)
Index(f, i, p) ==
  LET q == ScanBlob(f, p) IN
  IF q = 0 THEN i                                   \* read error in blob i: expose i blobs
  ELSE LET haveT == q <= Len(f) /\ IsT(f[q])         \* trailer fully readable
           consumed == (q + 1) - p                  \* cells from blob start through the trailer
       IN IF i > 0 /\ ~(haveT /\ f[q].prev + 1 = consumed) THEN i     \* offset check fails
          ELSE IF ~haveT \/ f[q].next = 0 THEN i + 1
          ELSE Index(f, i + 1, q + 1)

(* the version field is read in a first pass over blob 0; if the file ends before it, the reader
   reports "old version" and gives up without building an index                                   *)
HasVersion(f) == Len(f) >= 1 + VersionAt /\ \A j \in 1..(1 + VersionAt) : f[j].k \in {"H", "D"}

Open(f) == IF ~HasVersion(f) THEN [n |-> 0, err |-> TRUE]
           ELSE LET n == Index(f, 0, 1) IN [n |-> n, err |-> n = 0]

-----------------------------------------------------------------------------
(* ---------- Writer *)

FirstWrite(len) == <<H>> \o [j \in 1..len |-> D(0)] \o <<E, T(0, 0, 0)>>

NewCells(old_T, b, len) ==
  \* the cells one append writes, starting ON the last valid trailer (which it patches)
  <<T(old_T.idx, old_T.prev, len + 1)>> \o [j \in 1..len |-> D(b)] \o <<E, T(old_T.idx + 1, len + 1, 0)>>

(* corruption check on the tail of the file (only called when the first blob and its trailer are
   readable): last cell must be a trailer with next = 0, and if the archive has more than one
   blob, it must be preceded by END and linked consistently with the previous trailer             *)
TailCorrupt(f, more) ==
  LET L == Len(f) IN
  IF ~IsT(f[L]) THEN TRUE
  ELSE LET t == f[L] IN
       \/ (more /\ t.prev <= 0) \/ t.next # 0
       \/ /\ more
          /\ \/ f[L - 1].k # "E"
             \/ LET q == L - 1 - t.prev IN      \* position of the previous trailer
                ~(q >= 1 /\ IsT(f[q]) /\ f[q].next = t.prev)

(* repair walk: follow END/trailer pairs forward from the first blob; returns the position just
   after the last valid trailer.  p = position just after an END field.                          *)
RECURSIVE Walk(_, _, _)
Walk(f, p, lastgood) ==
  IF p - 1 < 1 \/ p - 1 > Len(f) \/ f[p - 1].k # "E" THEN lastgood
  ELSE IF p > Len(f) \/ ~IsT(f[p]) THEN lastgood
  ELSE IF f[p].next > 0 THEN Walk(f, p + 1 + f[p].next, p + 1)
  ELSE p + 1

(* where the append starts (position of the trailer to patch), or 0 when the writer gives up *)
AppendAt(f) ==
  LET q == ScanBlob(f, 1) IN
  IF q = 0 \/ q > Len(f) \/ ~IsT(f[q]) THEN 0           \* "recovery attempt has failed"
  ELSE LET more == f[q].next > 0
           lb == IF TailCorrupt(f, more) THEN Walk(f, q, q + 1) ELSE Len(f) + 1
       IN lb - 1

(* overlay w on f starting at position p (no truncation) *)
Overlay(f, p, w) == [j \in 1..(IF p - 1 + Len(w) > Len(f) THEN p - 1 + Len(w) ELSE Len(f)) |->
                       IF j >= p /\ j < p + Len(w) THEN w[j - p + 1] ELSE f[j]]

(* a first snapshot whose trailer was cut off is readable; the writer completes it with an empty
   trailer before appending                                                                       *)
Repair0(f) == LET q == ScanBlob(f, 1) IN
              IF q # 0 /\ (q > Len(f) \/ ~IsT(f[q])) THEN Overlay(f, q, <<T(0, 0, 0)>>) ELSE f

AppendSnap(f, b, len) == LET g == Repair0(f)
                             p == AppendAt(g) IN
                         IF p = 0 THEN f ELSE Overlay(g, p, NewCells(g[p], b, len))

-----------------------------------------------------------------------------
(* ---------- Crash images: c complete cells of w were persisted, and (torn) part of the next.
   Stale cells that were only partly overwritten, and a partly written new cell at the end of the
   file, are X.  The patched trailer is special: its first 8 bytes do not change, so a torn write
   of it yields the old trailer, or one whose `next` is garbage.                                  *)
CrashImage(f, p, w, c, torn, garb) ==
  LET g == Overlay(f, p, SubSeq(w, 1, c)) IN
  IF ~torn \/ c >= Len(w) THEN g
  ELSE LET pos == p + c IN
       IF c = 0 /\ pos <= Len(f) /\ IsT(f[pos])
       THEN (IF garb THEN [g EXCEPT ![pos] = T(f[pos].idx, f[pos].prev, GARB)] ELSE g)
       ELSE IF pos <= Len(g) THEN [g EXCEPT ![pos] = X]
       ELSE Append(g, X)

-----------------------------------------------------------------------------
(* ---------- The system: an uninterrupted plan lens[0..MaxSnap-1]; the run writes snapshots in
   order, may crash during any write, and restarts from the last exposed snapshot.                *)
VARIABLES file, lens, done, crashes, opened, stuck
vars == <<file, lens, done, crashes, opened, stuck>>

Init == /\ file = <<>> /\ lens \in [0..(MaxSnap - 1) -> Lens] /\ done = 0 /\ crashes = 0
        /\ opened = [n |-> 0, err |-> TRUE] /\ stuck = FALSE

(* write snapshot number `done` completely *)
Save == /\ done < MaxSnap /\ ~stuck
        /\ LET g == IF done = 0 /\ file = <<>> THEN FirstWrite(lens[0]) ELSE AppendSnap(file, done, lens[done]) IN
             /\ file' = g
             /\ stuck' = (g = file)            \* the writer refused to append
             /\ done' = IF g = file THEN done ELSE done + 1
        /\ opened' = Open(file')
        /\ UNCHANGED <<lens, crashes>>

(* die during the write of snapshot `done`, then reopen and restart from the last exposed one *)
CrashRestart ==
  /\ done < MaxSnap /\ crashes < MaxCrashes /\ ~stuck
  /\ \E torn \in BOOLEAN, garb \in BOOLEAN :
       LET first == (done = 0 /\ file = <<>>)
           base == IF first THEN file ELSE Repair0(file)
           p == IF first THEN 1 ELSE AppendAt(base)
           w == IF first THEN FirstWrite(lens[0]) ELSE (IF p = 0 THEN <<>> ELSE NewCells(base[p], done, lens[done]))
       IN /\ p # 0
          /\ \E c \in 0..Len(w) :
               /\ (c = Len(w) => ~torn)
               /\ (garb => torn /\ c = 0 /\ ~first)
               /\ LET img == CrashImage(base, p, w, c, torn, garb) IN
                    /\ opened' = Open(img)
                    \* nothing to restart from: the user starts over with a fresh file
                    /\ file' = IF Open(img).n = 0 THEN <<>> ELSE img
  /\ done' = opened'.n                     \* restart from the last exposed snapshot
  /\ crashes' = crashes + 1
  /\ stuck' = FALSE
  /\ UNCHANGED lens

Next == Save \/ CrashRestart
Spec == Init /\ [][Next]_vars

-----------------------------------------------------------------------------
(* ---------- Properties *)

(* content of blob i in a file, as a sequence of D cells, or <<>> *)
RECURSIVE BlobStart(_, _, _)
BlobStart(f, i, p) == IF i = 0 THEN p
                      ELSE LET q == ScanBlob(f, p) IN IF q = 0 THEN 0 ELSE BlobStart(f, i - 1, q + 1)

BlobOK(f, i) == LET p == BlobStart(f, i, 1) IN
                /\ p # 0
                /\ LET q == ScanBlob(f, p) IN
                   /\ q # 0
                   /\ LET ds == SelectSeq(SubSeq(f, p, q - 2), LAMBDA c : c.k = "D") IN
                      Len(ds) = lens[i] /\ \A j \in 1..Len(ds) : ds[j].b = i

(* every exposed snapshot is the one the uninterrupted run writes at that index *)
ExposedIdentical == \A i \in 0..(opened.n - 1) : BlobOK(file, i)

(* an error is reported iff nothing is exposed *)
ErrorIffNothing == opened.err <=> opened.n = 0

(* completed saves are never lost: after Save or a restart, everything that was completed before
   is still exposed (action property)                                                              *)
NeverLoses == [][ done <= opened'.n /\ opened'.n <= done + 1 ]_vars

(* the writer never refuses to continue an archive whose first snapshot is exposed *)
NeverStuck == ~stuck

(* a full run ends with exactly MaxSnap snapshots *)
Converges == (done = MaxSnap) => opened.n = MaxSnap
=============================================================================
