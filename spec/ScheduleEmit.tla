---------------------------- MODULE ScheduleEmit ----------------------------
(* Lattice-oracle front end of Schedule: TLC evaluates and prints (i) every valid configuration,
   (ii) every inner word (correctors, EOS shell 1 and processors); the harness compares the
   implementation's executed inner words with them and draws its configurations from (i).       *)
EXTENDS Schedule, Json

VARIABLE it
EInit == /\ it \in ({<<"cfg", c>> : c \in AllCfgs} \cup {<<"inner", k>> : k \in InnerKinds})
         /\ cfg = 0 /\ isSync = TRUE /\ recalc = FALSE /\ word = <<>> /\ lastOps = <<>> /\ steps = 0 /\ depth = 0
ENext == UNCHANGED <<vars, it>>
ESpec == EInit /\ [][ENext]_<<vars, it>>
Emit == IF it[1] = "cfg" THEN PrintT(<<"CFG", ToJson(it[2])>>)
        ELSE PrintT(<<"IW", ToJson([kind |-> it[2], word |-> InnerWord(it[2])])>>)
Theorems == InnerNeutral /\ InnerEosBalanced
=============================================================================
