SPECIFICATION Spec
CONSTANTS
 SeqLen = 9
 GuardLow = TRUE
 CapHigh = TRUE
 AcceptAtFloor = TRUE
INVARIANT TypeOK
INVARIANT TargetInRange
INVARIANT KBound
INVARIANT NoStaleRead
INVARIANT ScaledInTable
PROPERTY AfterReject
PROPERTY FlagsFollow
PROPERTY NoRejectAtFloor
PROPERTY RejectHasSource
PROPERTY Progress
CONSTRAINT Bnd
CHECK_DEADLOCK FALSE
