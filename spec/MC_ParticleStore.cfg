SPECIFICATION Spec
CONSTANTS
  MaxN = 3
  MaxId = 4
  Hashes = {0, 1, 2}
  TreeMode = FALSE
  Hybrid = FALSE
  BaseAlloc = 2
  MaxDepth = 5
CONSTRAINT Depth
INVARIANT ExactlyExpected
INVARIANT OrderPreserved
INVARIANT NActiveRange
INVARIANT NActiveAsDocumented
INVARIANT LookupOK
INVARIANT AllocCovers
PROPERTY FailUnchanged
PROPERTY InvalidFails
CHECK_DEADLOCK FALSE
