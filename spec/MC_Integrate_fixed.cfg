SPECIFICATION MCSpec
CONSTANTS
  Kind = "fixed"
  T0sN = {8, 10, 11}
  Shift = 10
  DtMags = {1, 2, 3, 5, 7}
  TMsN = {4, 7, 8, 10, 11, 12, 14, 15, 19}
  MaxCalls = 2
  MaxEvents = 1
  AdaptDts = {1}
  MaxRej = 0
INVARIANT EndsAtTarget
INVARIANT Overshoot
INVARIANT RightDirection
INVARIANT DtRestored
INVARIANT DtKept
INVARIANT NoOp
INVARIANT StatusFirst
INVARIANT NoSpuriousExit
INVARIANT StepCountImplied
INVARIANT StepCountExact
PROPERTY MTimeMonotone
PROPERTY MNoStepAfterExit
PROPERTY Terminates
CHECK_DEADLOCK FALSE
