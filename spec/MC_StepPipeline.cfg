SPECIFICATION Spec
INVARIANT TypeOK
PROPERTY AllRan
PROPERTY NoForceAfterPost
CONSTRAINT Bnd
CHECK_DEADLOCK FALSE
