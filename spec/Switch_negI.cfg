SPECIFICATION Spec
CONSTANTS MaxLen = 3
 Fallback = TRUE
 ResetIgn = FALSE
 DropOde = TRUE
 Integrators = {"ias15", "whfast", "leapfrog", "mercurius", "janus", "bs", "saba", "eos", "trace"}
INVARIANT Clean
INVARIANT GravityOwned
INVARIANT OdeOwned
CHECK_DEADLOCK FALSE
