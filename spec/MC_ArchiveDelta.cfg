SPECIFICATION Spec
CONSTANTS
  NF = 4
  PtrFields = {2, 3}
  MaxSize = 2
  MaxV = 1
  MaxSnap = 2
INVARIANT LoadEqualsLive
INVARIANT DeltaMinimal
INVARIANT DeltaWellFormed
CHECK_DEADLOCK FALSE
