SPECIFICATION Spec
CONSTANTS
 Levels <- Lv
 MinLevel <- MinL
 NoMin <- NoMinV
 MaxAttempts = 12
PROPERTY FloorHolds
INVARIANT BoundedRejections
INVARIANT DecideMatches
PROPERTY SignKept
PROPERTY RejectShrinks
PROPERTY AcceptAdvances
PROPERTY GrowthBounded
PROPERTY NoRejectAtFloor
CONSTRAINT Bnd
CHECK_DEADLOCK FALSE
