------------------------- MODULE Trace_BoundaryTree -------------------------
(* Trace validation for BoundaryTree.  Events:
     drift   the harness moved every particle by half a step of free flight (x += v/2)
     bc      reb_boundary_check was called; logged: the particle array afterwards
     tu      reb_simulation_update_tree (+ gravity data) was called; logged: the particle array and the
             real tree walked through ctypes: leaves (root box, octant path, particle index), inner
             cells (root box, path, particle count, mass) and each particle's back-pointer
     step    one reb_simulation_step of a force-free LEAPFROG; logged as for tu
     mark    the user removed a particle (with a tree it is only flagged)
   Geometry of every logged cell (centre and width, times 4) is compared with CellOf by the harness
   event field `geo` (list of [rb, path, x4, y4, z4, w4]).                                         *)
EXTENDS BoundaryTree, Json, IOUtils, TLCExt

Traces == ndJsonDeserialize(IOEnv.TRACE_FILE)
Verbose == "VERBOSE" \in DOMAIN IOEnv /\ IOEnv.VERBOSE = "1"
VARIABLES tid, l, treeOK, geoOK
tvars == <<vars, tid, l, treeOK, geoOK>>
T == Traces[tid]
Ev == T.events

FromLog(q) == [id |-> q[1], x |-> q[2], y |-> q[3], z |-> q[4], vx |-> q[5], vy |-> q[6], vz |-> q[7], m |-> q[8], dead |-> q[9] = 1]
TraceInit == /\ tid \in 1..Len(Traces) /\ l = 1
             /\ parts = [i \in 1..Len(T.parts) |-> LET q == FromLog(T.parts[i]) IN
                            [id |-> q.id, x |-> q.x, y |-> q.y, z |-> q.z, vx |-> q.vx, vy |-> q.vy, vz |-> q.vz, m |-> q.m,
                             fx |-> q.x, fy |-> q.y, fz |-> q.z, nw |-> 0, vy0 |-> q.vy, dead |-> FALSE]]
             /\ t2 = 2 * T.t0 /\ pc = "drift1" /\ gone = {} /\ before = parts
             /\ treeOK = TRUE /\ geoOK = TRUE

Logged(e) == [i \in 1..Len(e.parts) |-> FromLog(e.parts[i])]
Same(a, lg) == Len(a) = Len(lg) /\ \A i \in 1..Len(a) :
                 IF lg[i].dead \/ a[i].dead THEN lg[i].dead /\ a[i].dead /\ a[i].id = lg[i].id      \* a flagged particle has y = NaN
                 ELSE Proj(a[i]) = lg[i]
(* the array after a tree update is SOME order of the expected particles *)
Reorder(a, lg) == [i \in 1..Len(lg) |-> CHOOSE p \in {a[j] : j \in 1..Len(a)} : p.id = lg[i].id]
PermOf(a, lg) == /\ Len(a) = Len(lg)
                 /\ {a[j].id : j \in 1..Len(a)} = {lg[i].id : i \in 1..Len(lg)}
                 /\ Same(Reorder(a, lg), lg)

Leaves(e) == {[rb |-> e.leaves[i][1], path |-> e.leaves[i][2], pt |-> e.leaves[i][3]] : i \in 1..Len(e.leaves)}
Inner(e) == {[rb |-> e.inner[i][1], path |-> e.inner[i][2], n |-> e.inner[i][3], m |-> e.inner[i][4]] : i \in 1..Len(e.inner)}
Back(e) == [i \in 1..Len(e.back) |-> <<e.back[i][1], e.back[i][2]>>]
GeoOK(e) == \A i \in 1..Len(e.geo) : LET g == e.geo[i] c == CellOf(g[1], g[2]) IN c.x = g[3] /\ c.y = g[4] /\ c.z = g[5] /\ c.w = g[6]
DistinctAfter(e) == \A i, j \in 1..Len(e.parts) : i # j => <<e.parts[i][2], e.parts[i][3], e.parts[i][4]>> # <<e.parts[j][2], e.parts[j][3], e.parts[j][4]>>
TreeChecks(e) == /\ treeOK' = (treeOK /\ (DistinctAfter(e) => TreeOK(parts', Leaves(e), Inner(e), Back(e))))
                 /\ geoOK' = (geoOK /\ GeoOK(e))

TDrift(e) == /\ parts' = [i \in 1..Len(parts) |-> DriftHalf(parts[i])]
             /\ t2' = t2 + 1 /\ UNCHANGED <<pc, gone, before, treeOK, geoOK>>
TBC(e) == /\ before' = parts
          /\ parts' = BoundaryCheck(parts, t2 \div 2)
          /\ Same(parts', Logged(e))
          /\ gone' = gone \cup ({parts[i].id : i \in 1..Len(parts)} \ {parts'[i].id : i \in 1..Len(parts')})
          /\ UNCHANGED <<t2, pc, treeOK, geoOK>>
TTU(e) == /\ PermOf(Survivors(parts), Logged(e))
          /\ parts' = Reorder(Survivors(parts), Logged(e))
          /\ TreeChecks(e)
          /\ UNCHANGED <<t2, pc, gone, before>>
TStep(e) == LET exp == StepFn(parts, t2 \div 2) IN
          /\ PermOf(exp, Logged(e))
          /\ parts' = Reorder(exp, Logged(e))
          /\ before' = parts /\ t2' = t2 + 2
          /\ gone' = gone \cup ({parts[i].id : i \in 1..Len(parts)} \ {exp[i].id : i \in 1..Len(exp)})
          /\ (IF UseTree THEN TreeChecks(e) ELSE UNCHANGED <<treeOK, geoOK>>)
          /\ UNCHANGED pc
TMark(e) == /\ parts' = [parts EXCEPT ![e.idx + 1].dead = TRUE]
            /\ UNCHANGED <<t2, pc, gone, before, treeOK, geoOK>>

TraceNext == /\ l <= Len(Ev)
             /\ LET e == Ev[l] IN
                  \/ e.a = "drift" /\ TDrift(e)
                  \/ e.a = "bc" /\ TBC(e)
                  \/ e.a = "tu" /\ TTU(e)
                  \/ e.a = "step" /\ TStep(e)
                  \/ e.a = "mark" /\ TMark(e)
             /\ l' = l + 1 /\ UNCHANGED tid
TraceSpec == TraceInit /\ [][TraceNext]_tvars

TreePartition == treeOK          \* every live particle in exactly one leaf whose cell contains it; counts, masses, back-pointers
CellGeometry == geoOK            \* every cell is where its path says it is
TInBox == BType # "open" /\ l > 1 /\ Ev[l - 1].a \in {"bc", "step"} => \A i \in Live : InBoxP(parts[i])
TOpenExact == BType = "open" /\ l > 1 /\ Ev[l - 1].a = "bc" /\ ~(UseTree /\ Sorted) =>
               /\ \A i \in Live : InBoxP(parts[i])
               /\ {parts[i].id : i \in Live} = {before[i].id : i \in {j \in 1..Len(before) : ~before[j].dead /\ InBoxP(before[j])}}
Report == /\ (l = Len(Ev) + 1 => PrintT(<<"ACC", tid>>))
          /\ (Verbose => PrintT(<<"AT", tid, l>>))
=============================================================================
