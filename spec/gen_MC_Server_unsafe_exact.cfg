SPECIFICATION Spec
CONSTANTS
  MaxSteps = 3
  MaxReq = 2
  Unsafe = TRUE
  Exact = TRUE
  SyncLocked = TRUE
  HeartbeatInside = TRUE
INVARIANT MutualExclusion
INVARIANT ServedNotTorn
INVARIANT ServedNotMidSync
PROPERTY ServeTransparent
PROPERTY RequestServed
PROPERTY Terminates
CHECK_DEADLOCK FALSE
