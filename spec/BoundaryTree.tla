---------------------------- MODULE BoundaryTree ----------------------------
(* C15 -- boundary conditions and the oct-tree on an integer lattice.

   Coordinates are integer ticks; particles sit on ODD ticks and move with velocities that are
   multiples of 4 ticks per step (so half steps keep them on odd ticks, never on a cell face).
   Cell geometry is carried times 4 (a cell of width 1 tick has a half-integer centre).

   reb_boundary_check (src/boundary.c) is transcribed loop by loop: the `while' wraps of the periodic
   and shear-periodic boxes, the time dependent azimuthal offset and velocity jump of the shearing
   sheet, and the open boundary's remove / re-check loop (swap-with-last without a tree, marking with
   a tree, order preserving when the energy offset is tracked).
   The tree is specified by its contract (TreeOK): which cell a path denotes (root-box index formula
   of reb_get_rootbox_for_particle, octant rule `p < centre', child centres), every live particle in
   exactly one leaf whose cell contains it, back-pointers, particle counts and masses of inner cells.
   CanonLeaves is the minimal tree; the model uses it, traces may show any tree satisfying TreeOK.  *)
EXTENDS Integers, Sequences, FiniteSets, TLC

CONSTANTS W,          \* root box size in ticks (a power of two, >= 8)
          NR,         \* <<N_root_x, N_root_y, N_root_z>>
          BType,      \* "periodic" | "shear" | "open"
          UseTree,    \* BOOLEAN
          Sorted,     \* open boundary with track_energy_offset: order-preserving removal
          S,          \* shear: 1.5 * OMEGA * Lx in ticks per step
          Pos, Vels, MaxN, MaxSteps

VARIABLES parts,      \* sequence of [id, x, y, z, vx, vy, vz, m, dead] + ghosts fx, fy, fz (free flight), nw (net radial wraps), vy0
          t2,         \* time in HALF steps
          pc, gone, before
vars == <<parts, t2, pc, gone, before>>

LX == W * NR[1]  LY == W * NR[2]  LZ == W * NR[3]
Abs(a) == IF a < 0 THEN -a ELSE a
Fmod(a, b) == IF a >= 0 THEN a % b ELSE -((-a) % b)          \* C fmod on integers

-----------------------------------------------------------------------------
(* reb_boundary_check *)
RECURSIVE WrapDown(_, _), WrapUp(_, _)
WrapDown(x, l) == IF 2 * x > l THEN WrapDown(x - l, l) ELSE x         \* while (x > l/2) x -= l
WrapUp(x, l) == IF 2 * x < -l THEN WrapUp(x + l, l) ELSE x            \* while (x < -l/2) x += l
Wrap(x, l) == WrapUp(WrapDown(x, l), l)

Periodic(p) == [p EXCEPT !.x = Wrap(p.x, LX), !.y = Wrap(p.y, LY), !.z = Wrap(p.z, LZ)]

(* shearing sheet at time tt (in steps; only called at integer times in this model) *)
OffP(tt) == -Fmod(-S * tt + LY \div 2, LY) - LY \div 2
OffM(tt) == -Fmod(S * tt - LY \div 2, LY) + LY \div 2
RECURSIVE ShearDown(_, _), ShearUp(_, _)
ShearDown(p, tt) == IF 2 * p.x > LX
                      THEN ShearDown([p EXCEPT !.x = p.x - LX, !.y = p.y + OffP(tt), !.vy = p.vy + S, !.fy = p.fy + OffP(tt), !.nw = p.nw + 1], tt)
                      ELSE p
ShearUp(p, tt) == IF 2 * p.x < -LX
                    THEN ShearUp([p EXCEPT !.x = p.x + LX, !.y = p.y + OffM(tt), !.vy = p.vy - S, !.fy = p.fy + OffM(tt), !.nw = p.nw - 1], tt)
                    ELSE p
Shear(p, tt) == LET q == ShearUp(ShearDown(p, tt), tt) IN [q EXCEPT !.y = Wrap(q.y, LY), !.z = Wrap(q.z, LZ)]

Outside(p) == ~p.dead /\ (2 * Abs(p.x) > LX \/ 2 * Abs(p.y) > LY \/ 2 * Abs(p.z) > LZ)
RemoveSwap(a, i) == IF i = Len(a) THEN SubSeq(a, 1, Len(a) - 1) ELSE [j \in 1..(Len(a) - 1) |-> IF j = i THEN a[Len(a)] ELSE a[j]]
RemoveSorted(a, i) == [j \in 1..(Len(a) - 1) |-> IF j < i THEN a[j] ELSE a[j + 1]]
RECURSIVE OpenLoop(_, _)
OpenLoop(a, i) ==
  IF i > Len(a) THEN a
  ELSE IF Outside(a[i])
         THEN IF Len(a) = 1 THEN <<>>                                                       \* the last particle is removed at once (N == 1 branch)
              ELSE IF UseTree /\ ~Sorted THEN OpenLoop([a EXCEPT ![i].dead = TRUE], i + 1)      \* flagged, removed by the tree update
              ELSE IF UseTree /\ Sorted THEN OpenLoop(a, i + 1)                             \* refused (keep_sorted with a tree)
              ELSE OpenLoop(IF Sorted THEN RemoveSorted(a, i) ELSE RemoveSwap(a, i), i)      \* re-check the same index
         ELSE OpenLoop(a, i + 1)

BoundaryCheck(a, tt) ==
  CASE BType = "periodic" -> [i \in 1..Len(a) |-> IF a[i].dead THEN a[i] ELSE Periodic(a[i])]
    [] BType = "shear" -> [i \in 1..Len(a) |-> IF a[i].dead THEN a[i] ELSE Shear(a[i], tt)]
    [] BType = "open" -> OpenLoop(a, 1)

-----------------------------------------------------------------------------
(* tree contract *)
RootIdx(p) == LET i == ((p.x + LX \div 2) \div W + NR[1]) % NR[1]
                  j == ((p.y + LY \div 2) \div W + NR[2]) % NR[2]
                  k == ((p.z + LZ \div 2) \div W + NR[3]) % NR[3] IN
              (k * NR[2] + j) * NR[1] + i
(* geometry times 4 *)
RootCell(rb) == LET i == rb % NR[1] j == (rb \div NR[1]) % NR[2] k == rb \div (NR[1] * NR[2]) IN
                [x |-> -2 * LX + 4 * W * i + 2 * W, y |-> -2 * LY + 4 * W * j + 2 * W, z |-> -2 * LZ + 4 * W * k + 2 * W, w |-> 4 * W]
Child(c, o) == LET h == c.w \div 4 IN       \* new half-half width; (o >> b) % 2 == 0 -> +
               [x |-> c.x + (IF o % 2 = 0 THEN h ELSE -h), y |-> c.y + (IF (o \div 2) % 2 = 0 THEN h ELSE -h),
                z |-> c.z + (IF (o \div 4) % 2 = 0 THEN h ELSE -h), w |-> c.w \div 2]
RECURSIVE CellOf(_, _)
CellOf(rb, path) == IF path = <<>> THEN RootCell(rb) ELSE Child(CellOf(rb, SubSeq(path, 1, Len(path) - 1)), path[Len(path)])
Octant(p, c) == (IF 4 * p.x < c.x THEN 1 ELSE 0) + (IF 4 * p.y < c.y THEN 2 ELSE 0) + (IF 4 * p.z < c.z THEN 4 ELSE 0)
Inside(p, c) == 2 * Abs(4 * p.x - c.x) <= c.w /\ 2 * Abs(4 * p.y - c.y) <= c.w /\ 2 * Abs(4 * p.z - c.z) <= c.w
RECURSIVE PathOf(_, _, _)
PathOf(p, c, d) == IF d = 0 THEN <<>> ELSE LET o == Octant(p, c) IN <<o>> \o PathOf(p, Child(c, o), d - 1)
IsPrefix(a, b) == Len(a) <= Len(b) /\ SubSeq(b, 1, Len(a)) = a

RECURSIVE MassSum(_, _)
MassSum(a, SS) == IF SS = {} THEN 0 ELSE LET l == CHOOSE l \in SS : TRUE IN a[l.pt + 1].m + MassSum(a, SS \ {l})
(* leaves: set of [rb, path, pt (0-based index)]; inner: set of [rb, path, n, m]; back: sequence (per particle) of <<rb, path>> *)
TreeOK(a, leaves, inner, back) ==
  LET live == {i \in 1..Len(a) : ~a[i].dead} IN
  /\ \A i \in live : Cardinality({l \in leaves : l.pt = i - 1}) = 1                       \* exactly one leaf per particle
  /\ \A l \in leaves : l.pt + 1 \in live
  /\ \A l \in leaves : LET p == a[l.pt + 1] IN
        /\ l.rb = RootIdx(p)                                                               \* in the right root box
        /\ Inside(p, CellOf(l.rb, l.path))                                                 \* the cell contains it
        /\ l.path = PathOf(p, RootCell(l.rb), Len(l.path))                                 \* and is the cell the octant rule leads to
        /\ back[l.pt + 1] = <<l.rb, l.path>>                                               \* back-pointer
  /\ \A l1, l2 \in leaves : l1 # l2 => ~(l1.rb = l2.rb /\ IsPrefix(l1.path, l2.path))      \* leaves are not nested
  /\ \A c \in inner : LET sub == {l \in leaves : l.rb = c.rb /\ IsPrefix(c.path, l.path) /\ l.path # c.path} IN
        /\ c.n = Cardinality(sub)                                                           \* particle count of the cell
        /\ (c.m >= 0 => c.m = MassSum(a, sub))                                              \* mass of the cell
  /\ \A l \in leaves : \A d \in 0..(Len(l.path) - 1) : \E c \in inner : c.rb = l.rb /\ c.path = SubSeq(l.path, 1, d)   \* every ancestor exists

(* the minimal tree *)
RECURSIVE Common(_, _)
Common(a, b) == IF a = <<>> \/ b = <<>> \/ a[1] # b[1] THEN 0 ELSE 1 + Common(Tail(a), Tail(b))
Deep == 6
FullPath(p) == PathOf(p, RootCell(RootIdx(p)), Deep)
Depth(a, i) == LET others == {j \in 1..Len(a) : j # i /\ ~a[j].dead /\ RootIdx(a[j]) = RootIdx(a[i])} IN
               IF others = {} THEN 0
               ELSE 1 + (LET cs == {Common(FullPath(a[i]), FullPath(a[j])) : j \in others} IN CHOOSE c \in cs : \A d \in cs : d <= c)
CanonLeaves(a) == {[rb |-> RootIdx(a[i]), path |-> SubSeq(FullPath(a[i]), 1, Depth(a, i)), pt |-> i - 1] : i \in {j \in 1..Len(a) : ~a[j].dead}}
CanonInner(a) == LET L == CanonLeaves(a) IN
  UNION {{[rb |-> l.rb, path |-> SubSeq(l.path, 1, d),
           n |-> Cardinality({k \in L : k.rb = l.rb /\ IsPrefix(SubSeq(l.path, 1, d), k.path)}), m |-> -1] : d \in 0..(Len(l.path) - 1)} : l \in L}
CanonBack(a) == [i \in 1..Len(a) |-> IF a[i].dead THEN <<-1, <<>>>> ELSE <<RootIdx(a[i]), SubSeq(FullPath(a[i]), 1, Depth(a, i))>>]

(* reb_simulation_update_tree: flagged particles and particles outside every root box disappear *)
Survivors(a) == SelectSeq(a, LAMBDA p : ~p.dead)

-----------------------------------------------------------------------------
Mk(id, x, y, z, vx, vy, vz) == [id |-> id, x |-> x, y |-> y, z |-> z, vx |-> vx, vy |-> vy, vz |-> vz, m |-> id,
                                fx |-> x, fy |-> y, fz |-> z, nw |-> 0, vy0 |-> vy, dead |-> FALSE]
Proj(p) == [id |-> p.id, x |-> p.x, y |-> p.y, z |-> p.z, vx |-> p.vx, vy |-> p.vy, vz |-> p.vz, m |-> p.m, dead |-> p.dead]
InBoxP(p) == 2 * Abs(p.x) <= LX /\ 2 * Abs(p.y) <= LY /\ 2 * Abs(p.z) <= LZ

Init == /\ \E n \in 1..MaxN : \E f \in [1..n -> (Pos \X Vels)] :
             /\ parts = [i \in 1..n |-> Mk(i, f[i][1][1], f[i][1][2], f[i][1][3], f[i][2][1], f[i][2][2], f[i][2][3])]
             /\ \A i \in 1..n : InBoxP(parts[i])
             /\ \A i, j \in 1..n : i < j => <<parts[i].x, parts[i].y, parts[i].z>> # <<parts[j].x, parts[j].y, parts[j].z>>
        /\ t2 = 0 /\ pc = "drift1" /\ gone = {} /\ before = parts

DriftHalf(p) == IF p.dead THEN p ELSE
                [p EXCEPT !.x = p.x + p.vx \div 2, !.y = p.y + p.vy \div 2, !.z = p.z + p.vz \div 2,
                          !.fx = p.fx + p.vx \div 2, !.fy = p.fy + p.vy \div 2, !.fz = p.fz + p.vz \div 2]
Drift == /\ pc \in {"drift1", "drift2"} /\ t2 < 2 * MaxSteps
         /\ parts' = [i \in 1..Len(parts) |-> DriftHalf(parts[i])]
         /\ t2' = t2 + 1
         /\ pc' = IF pc = "drift1" THEN (IF UseTree THEN "bc1" ELSE "drift2") ELSE "bc2"
         /\ UNCHANGED <<gone, before>>
(* the mid-step boundary check happens at a half-integer time: the shear offset is only exact at integer
   times, so the shearing sheet is modelled without a tree (no mid-step check)                          *)
BC == /\ pc \in {"bc1", "bc2"}
      /\ before' = parts
      /\ parts' = BoundaryCheck(parts, t2 \div 2)
      /\ gone' = gone \cup ({parts[i].id : i \in 1..Len(parts)} \ {parts'[i].id : i \in 1..Len(parts')})
                      \cup {parts'[i].id : i \in {j \in 1..Len(parts') : parts'[j].dead}}
      /\ pc' = IF UseTree THEN (IF pc = "bc1" THEN "tu1" ELSE "tu2") ELSE "drift1"
      /\ UNCHANGED t2
TU == /\ pc \in {"tu1", "tu2"}
      /\ parts' = Survivors(parts)
      /\ pc' = IF pc = "tu1" THEN "drift2" ELSE "drift1"
      /\ UNCHANGED <<t2, gone, before>>
(* one whole reb_simulation_step of a force-free leapfrog (used when only the end of the step is observable) *)
StepFn(a, tt) ==
  LET a1 == [i \in 1..Len(a) |-> DriftHalf(a[i])]
      a2 == IF UseTree THEN Survivors(BoundaryCheck(a1, tt)) ELSE a1
      a3 == [i \in 1..Len(a2) |-> DriftHalf(a2[i])]
      a4 == BoundaryCheck(a3, tt + 1) IN
  IF UseTree THEN Survivors(a4) ELSE a4
Next == Drift \/ BC \/ TU
Spec == Init /\ [][Next]_vars

-----------------------------------------------------------------------------
AfterBC == pc \in {"tu1", "tu2"} \/ (~UseTree /\ pc = "drift1" /\ t2 > 0)
Live == {i \in 1..Len(parts) : ~parts[i].dead}
(* periodic / shear: inside the box, nobody lost, moved by whole box lengths (+ the sheet's offsets) *)
InBox == AfterBC /\ BType # "open" => \A i \in Live : InBoxP(parts[i])
CountUnchanged == BType # "open" => Len(parts) = Len(before) /\ gone = {}
Congruent == \A i \in Live : LET p == parts[i] IN
               /\ (p.y - p.fy) % LY = 0 /\ (p.z - p.fz) % LZ = 0
               /\ IF BType = "shear" THEN p.x - p.fx = -p.nw * LX /\ p.vy = p.vy0 + S * p.nw     \* the sheet's velocity jump per radial wrap
                  ELSE (p.x - p.fx) % LX = 0 /\ p.vy = p.vy0
(* open: exactly the particles outside are removed *)
OpenExact == AfterBC /\ BType = "open" /\ ~(UseTree /\ Sorted) =>
               /\ \A i \in Live : InBoxP(parts[i])
               /\ {parts[i].id : i \in Live} = {before[i].id : i \in {j \in 1..Len(before) : ~before[j].dead /\ InBoxP(before[j])}}
NoDuplicates == \A i, j \in 1..Len(parts) : i # j => parts[i].id # parts[j].id
(* the minimal tree satisfies the tree contract whenever the tree is up to date *)
DistinctPos == \A i, j \in Live : i # j => <<parts[i].x, parts[i].y, parts[i].z>> # <<parts[j].x, parts[j].y, parts[j].z>>
TreeUpToDate == UseTree /\ pc \in {"drift2", "drift1"} /\ t2 > 0 /\ DistinctPos =>
                  TreeOK(parts, CanonLeaves(parts), CanonInner(parts), CanonBack(parts))
=============================================================================
