-------------------------- MODULE Trace_Collisions --------------------------
(* Trace validation for the collision resolve loop.  One trace = one call of
   reb_collision_search: the shuffled pending list and the particle identities (hooks col_found /
   col_pend / col_part), then for every resolver call the entry index, the indices handed to the
   resolver, its outcome, the identities the resolver saw (Python resolvers), and the pending list
   and particle array after the fix-ups (hook col_after).  Built-in resolvers add exact
   mass / momentum / mass-moment totals (integers on the lattice) or bounce diagnostics.        *)
EXTENDS Collisions, Json, IOUtils, TLCExt

Traces == ndJsonDeserialize(IOEnv.TRACE_FILE)
Verbose == "VERBOSE" \in DOMAIN IOEnv /\ IOEnv.VERBOSE = "1"

VARIABLES tid, l, consOK, bounceOK
tvars == <<vars, tid, l, consOK, bounceOK>>
T == Traces[tid]
Ev == T.events

ToPend(sq) == [j \in 1..Len(sq) |-> [p1 |-> sq[j][1], p2 |-> sq[j][2]]]

TraceInit == /\ tid \in 1..Len(Traces) /\ l = 1
             /\ arr = T.arr /\ arr0 = T.arr
             /\ pend = ToPend(T.pend)
             /\ ident = [j \in 1..Len(T.pend) |-> <<T.arr[T.pend[j][1] + 1], T.arr[T.pend[j][2] + 1]>>]
             /\ ks = T.ks /\ tree = T.tree
             /\ k = 1 /\ gone = {} /\ marked = {} /\ calls = <<>> /\ touched = {}
             /\ consOK = TRUE /\ bounceOK = TRUE

TResolve(e) ==
  /\ e.i + 1 \in 1..Len(pend)
  /\ pend[e.i + 1].p1 = e.p1 /\ pend[e.i + 1].p2 = e.p2
  /\ (e.id1 >= 0 => arr[e.p1 + 1] = e.id1 /\ arr[e.p2 + 1] = e.id2)       \* what the resolver saw
  /\ ResolveAt(e.i + 1, e.out)
  /\ \A j \in (e.i + 2)..Len(pend) : pend'[j] = [p1 |-> e.pend[j - e.i - 1][1], p2 |-> e.pend[j - e.i - 1][2]]
  /\ Len(e.pend) = Len(pend) - e.i - 1
  /\ arr' = e.arr
  /\ marked' = {e.nan[j] : j \in 1..Len(e.nan)}
  /\ consOK' = (consOK /\ (e.tot # <<>> => e.tot = T.tot0))
  /\ bounceOK' = (bounceOK /\ (e.bounce # <<>> => e.bounce[1] = 1 /\ e.bounce[2] <= -11 /\ e.bounce[3] <= -11))

(* the loop is over: whatever is left was skipped by the code, so it must be dead in the model *)
TEnd(e) == /\ \A j \in k..Len(pend) : ~Live(pend[j])
           /\ k' = Len(pend) + 1
           /\ UNCHANGED <<arr, pend, ident, ks, tree, gone, marked, calls, touched, arr0, consOK, bounceOK>>

TraceNext == /\ l <= Len(Ev)
             /\ LET e == Ev[l] IN (e.e = "resolve" /\ TResolve(e)) \/ (e.e = "end" /\ TEnd(e))
             /\ l' = l + 1 /\ UNCHANGED tid
TraceSpec == TraceInit /\ [][TraceNext]_tvars

MassMomentumCOM == consOK        \* merging conserves total mass, momentum and mass moment exactly (lattice)
BounceConservesAndSeparates == bounceOK
Report == /\ (l = Len(Ev) + 1 => PrintT(<<"ACC", tid>>))
          /\ (Verbose => PrintT(<<"AT", tid, l>>))
=============================================================================
