SPECIFICATION ESpec
CONSTRAINT Emit
INVARIANT Theorems
CHECK_DEADLOCK FALSE
