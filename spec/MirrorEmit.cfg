SPECIFICATION ESpec
CONSTANTS
  Size = 4
  Members = {"a"}
CONSTRAINT Emit
INVARIANT OptionsOneToOne
CHECK_DEADLOCK FALSE
