SPECIFICATION Spec
CONSTANTS MaxLen = 3
 Fallback = TRUE
 ResetIgn = TRUE
 DropOde = FALSE
 Integrators = {"ias15", "whfast", "leapfrog", "mercurius", "janus", "bs", "saba", "eos", "trace"}
INVARIANT Clean
INVARIANT GravityOwned
CHECK_DEADLOCK FALSE
