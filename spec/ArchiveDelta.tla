---------------------------- MODULE ArchiveDelta ----------------------------
(* Simulationarchive delta encoding (C06): the live state as a map of persisted fields, the first
   snapshot as a full stream, every later snapshot as Diff(first, current) transcribed from
   reb_binary_diff (src/binarydiff.c, output_option 0) with its cursor logic, and loading as
   Overlay transcribed from reb_input_fields (src/input.c).

   A stream is a sequence of field records [id, size, v]: `size` is the payload size (0 only for the
   "field vanished" marker inside a delta), `v` identifies the payload bytes.  Streams never contain
   the END field; cursor position Len(s)+1 stands for "at END".                                    *)
EXTENDS Naturals, Sequences, FiniteSets, TLC

CONSTANTS NF,          \* fields are 1..NF, written in this (descriptor) order
          PtrFields,   \* subset of 1..NF: pointer-kind fields, present iff size > 0
          MaxSize,     \* payload sizes 1..MaxSize
          MaxV,        \* payload contents 0..MaxV
          MaxSnap

Fields == 1..NF
Absent == [size |-> 0, v |-> 0]
ValsOf(f) == IF f \in PtrFields
             THEN {Absent} \cup [size : 1..MaxSize, v : 0..MaxV]
             ELSE [size : {1}, v : 0..MaxV]

VARIABLES live, first, deltas, ghosts
vars == <<live, first, deltas, ghosts>>

-----------------------------------------------------------------------------
(* reb_simulation_save_to_stream: present fields in descriptor order *)
RECURSIVE StreamFrom(_, _)
StreamFrom(l, f) == IF f > NF THEN <<>>
                    ELSE IF l[f].size = 0 THEN StreamFrom(l, f + 1)
                    ELSE <<[id |-> f, size |-> l[f].size, v |-> l[f].v]>> \o StreamFrom(l, f + 1)
Stream(l) == StreamFrom(l, 1)

(* position of the first record with this id, or 0 *)
Find(s, id) == IF \E j \in 1..Len(s) : s[j].id = id
               THEN CHOOSE j \in 1..Len(s) : s[j].id = id /\ \A q \in 1..(j-1) : s[q].id # id
               ELSE 0

(* First loop of reb_binary_diff: walk s1; i2 is the cursor in s2 (pos2).  A cursor beyond the END
   field wraps to the start; a type mismatch triggers a search from the start; a field of s1 that is
   not in s2 is written as a header with size 0 ("vanished") and the cursor is reset.              *)
RECURSIVE DiffLoop1(_, _, _, _)
DiffLoop1(s1, s2, i1, i2) ==
  IF i1 > Len(s1) THEN <<>>
  ELSE LET f1 == s1[i1]
           c2 == IF i2 > Len(s2) + 1 THEN 1 ELSE i2          \* wrap past END
           same == c2 <= Len(s2) /\ s2[c2].id = f1.id
           j == IF same THEN c2 ELSE Find(s2, f1.id)
       IN IF j = 0
          THEN <<[id |-> f1.id, size |-> 0, v |-> 0]>> \o DiffLoop1(s1, s2, i1 + 1, 1)
          ELSE LET f2 == s2[j]
                   differ == f1.size # f2.size \/ f1.v # f2.v
               IN (IF differ THEN <<f2>> ELSE <<>>) \o DiffLoop1(s1, s2, i1 + 1, j + 1)

(* Second loop: fields present in s2 but not in s1 are appended in s2's order *)
DiffLoop2(s1, s2) == SelectSeq(s2, LAMBDA f : Find(s1, f.id) = 0)

Diff(s1, s2) == DiffLoop1(s1, s2, 1, 1) \o DiffLoop2(s1, s2)

(* reb_input_fields applied to a stream on top of a state: a size-0 pointer field frees the array *)
RECURSIVE Overlay(_, _, _)
Overlay(l, d, k) == IF k > Len(d) THEN l
                    ELSE Overlay([l EXCEPT ![d[k].id] = [size |-> d[k].size, v |-> IF d[k].size = 0 THEN 0 ELSE d[k].v]], d, k + 1)

Empty == [f \in Fields |-> Absent]
LoadFirst == Overlay(Empty, first, 1)
Load(k) == IF k = 0 THEN LoadFirst ELSE Overlay(LoadFirst, deltas[k], 1)

-----------------------------------------------------------------------------
AllVals == UNION {ValsOf(f) : f \in Fields}
Init == /\ live \in {l \in [Fields -> AllVals] : \A f \in Fields : l[f] \in ValsOf(f)}
        /\ first = <<>> /\ deltas = <<>> /\ ghosts = <<>>

Mutate(f, val) == /\ val \in ValsOf(f) /\ val # live[f]
                  /\ live' = [live EXCEPT ![f] = val]
                  /\ UNCHANGED <<first, deltas, ghosts>>

Snapshot == /\ Len(ghosts) < MaxSnap
            /\ IF ghosts = <<>>
               THEN first' = Stream(live) /\ UNCHANGED deltas
               ELSE deltas' = Append(deltas, Diff(first, Stream(live))) /\ UNCHANGED first
            /\ ghosts' = Append(ghosts, live)
            /\ UNCHANGED live

Next == Snapshot \/ \E f \in Fields : \E val \in ValsOf(f) : Mutate(f, val)
Spec == Init /\ [][Next]_vars

-----------------------------------------------------------------------------
(* C06: loading snapshot k returns exactly the state the simulation had when it was written *)
LoadEqualsLive == \A k \in 1..Len(ghosts) : Load(k - 1) = ghosts[k]

(* a delta mentions a field iff it differs from the first snapshot (changed, vanished or new) *)
DeltaMinimal == \A k \in 2..Len(ghosts) :
                  {deltas[k-1][q].id : q \in 1..Len(deltas[k-1])} = {f \in Fields : ghosts[k][f] # ghosts[1][f]}

(* every header's size is the size of the payload that follows (vanished fields: 0 and no payload) *)
DeltaWellFormed == \A k \in 1..Len(deltas) : \A q \in 1..Len(deltas[k]) :
                     deltas[k][q].size = ghosts[k+1][deltas[k][q].id].size
=============================================================================
