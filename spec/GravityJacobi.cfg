SPECIFICATION Spec
CONSTRAINT Emit
INVARIANT TermCount
CHECK_DEADLOCK FALSE
