-------------------------- MODULE Trace_StepControl --------------------------
(* Trace validation of the IAS15 step-size controller.  One trace = the attempts of one integrate() call, recorded through
   the hooks ias_beg / ias_raw / ias_rej / ias_acc.  The harness evaluates, with the same binary64 operations as the code,
   the three comparisons the controller makes; every attempt must then be the one StepControl!Decide prescribes, keep the
   sign of the step, advance the time by exactly the attempted step when accepted, and leave time and particles untouched
   when rejected.  A run with epsilon = 0 is the fixed-step scheme: every attempt is accepted with the step unchanged.   *)
EXTENDS StepControl, Json, IOUtils, TLCExt, Sequences

Traces == ndJsonDeserialize(IOEnv.TRACE_FILE)
Verbose == "VERBOSE" \in DOMAIN IOEnv /\ IOEnv.VERBOSE = "1"

TLv == 0..1
TNoMin == -1000

VARIABLES tid, l
tvars == <<vars, tid, l>>
T == Traces[tid]
Ev == T.events

TraceInit == /\ tid \in 1..Len(Traces) /\ l = 1
             /\ lev = 0 /\ sgn = 1 /\ tsteps = 0 /\ last = NoMin /\ attempts = 0 /\ hist = <<>> /\ pc = "try"

Ok(e) ==
  IF e.fixed
  THEN e.kind = "accept" /\ e.final = "d" /\ e.adv /\ e.lastok
  ELSE LET d == Decide(e.bm, e.lq, e.g4) IN
       /\ e.kind = d[1] /\ e.final = d[2] /\ e.sign
       /\ (e.kind = "reject" => ~e.adv /\ e.restored)
       /\ (e.kind = "accept" => e.adv /\ e.lastok)
       /\ (e.atfloor => e.kind = "accept")              \* NoRejectAtFloor

TraceNext == /\ l <= Len(Ev) /\ Ok(Ev[l]) /\ l' = l + 1 /\ UNCHANGED <<tid, vars>>
TraceSpec == TraceInit /\ [][TraceNext]_tvars
Report == /\ (l = Len(Ev) + 1 => PrintT(<<"ACC", tid>>))
          /\ (Verbose => PrintT(<<"AT", tid, l>>))
=============================================================================
