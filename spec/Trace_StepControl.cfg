SPECIFICATION TraceSpec
CONSTANTS
 Levels <- TLv
 MinLevel <- TNoMin
 NoMin <- TNoMin
 MaxAttempts = 1
CONSTRAINT Report
CHECK_DEADLOCK FALSE
