SPECIFICATION Spec
CONSTRAINT Bound
INVARIANT Balanced
INVARIANT UnsafeEqualsSafe
INVARIANT CorrectorBracket
INVARIANT NoSyncBeforeFirstStep
INVARIANT Palindromic
PROPERTY SyncIdempotent
PROPERTY ObserveInert
PROPERTY KeepTransparent
CHECK_DEADLOCK FALSE
