------------------------------- MODULE Stream -------------------------------
(* Serialisation, copies and comparison of simulations (C05, C17).

   A simulation object holds a *term*: the exact history that produced its persisted state,
   hash-consed in `terms`.  Copy / save+load reproduce the term (that is the property); Step and
   Edit build new terms.  Two objects with the same term must be bit-identical and compare equal;
   an object whose term is Edit(other's term) must compare different unless the edited field is a
   wall-clock field; an operation on one object never changes the term -- hence the bits -- of
   another.  The model is deliberately small: its job is to generate every interleaving of
   operations on a source and its copy/restored snapshot and to fix, independently of the code,
   which equalities must hold after each of them.                                                 *)
EXTENDS Naturals, Sequences, FiniteSets, TLC

CONSTANTS Objs,        \* object names, e.g. {"A", "B", "C"}
          First,       \* the object that exists initially
          Fields,      \* editable persisted fields (model values or strings)
          WallFields,  \* subset of Fields: wall-clock timing, ignored by comparison
          Routes,      \* ways to reproduce an object: "copy", "stream", "file", "pickle", "archive"
          MaxTerms, MaxDepth

VARIABLES cur, terms, last, res
vars == <<cur, terms, last, res>>

None == 0
Term(op, a, f) == [op |-> op, a |-> a, f |-> f]

Init == /\ terms = <<Term("init", 0, "")>>
        /\ cur = [o \in Objs |-> IF o = First THEN 1 ELSE None]
        /\ last = <<"Init">> /\ res = TRUE

(* hash-consing: index of an existing identical term, or a new one *)
Intern(t) == IF \E i \in 1..Len(terms) : terms[i] = t
             THEN [idx |-> CHOOSE i \in 1..Len(terms) : terms[i] = t, seq |-> terms]
             ELSE [idx |-> Len(terms) + 1, seq |-> Append(terms, t)]

Step(o) == /\ cur[o] # None /\ Len(terms) < MaxTerms
           /\ LET r == Intern(Term("step", cur[o], "")) IN
                cur' = [cur EXCEPT ![o] = r.idx] /\ terms' = r.seq
           /\ last' = <<"Step", o>> /\ UNCHANGED res

(* an edit always writes a value the field never had before (fresh), so the result is a new state;
   the edit counter is part of the term to keep edits of the same field distinct                 *)
Edit(o, f) == /\ cur[o] # None /\ Len(terms) < MaxTerms
              /\ terms' = Append(terms, Term("edit", cur[o], f))
              /\ cur' = [cur EXCEPT ![o] = Len(terms) + 1]
              /\ last' = <<"Edit", o, f>> /\ UNCHANGED res

(* copy, or save through any route and load: the target holds the same term as the source *)
Reproduce(a, b, route) == /\ a # b /\ cur[a] # None
                          /\ cur' = [cur EXCEPT ![b] = cur[a]]
                          /\ last' = <<"Reproduce", a, b, route>> /\ UNCHANGED <<terms, res>>

(* does the comparison have to report a difference?  Defined only where the statement decides it:
   equal terms -> equal;  one term is a chain of edits on top of the other -> different unless all
   the edited fields are wall-clock fields.  Otherwise the model leaves the answer open ("any").   *)
RECURSIVE EditChain(_, _)
EditChain(hi, lo) == IF hi = lo THEN {} \* reached: the set of edited fields is returned by caller
                     ELSE IF hi = None \/ terms[hi].op # "edit" THEN {"__no__"}
                     ELSE {terms[hi].f} \cup EditChain(terms[hi].a, lo)

Expected(a, b) ==
  IF cur[a] = cur[b] THEN "equal"
  ELSE LET ab == EditChain(cur[a], cur[b])
           ba == EditChain(cur[b], cur[a])
           fs == IF "__no__" \notin ab THEN ab ELSE IF "__no__" \notin ba THEN ba ELSE {"__no__"}
       IN IF "__no__" \in fs THEN "any"
          ELSE IF fs \subseteq WallFields THEN "equal" ELSE "different"

Compare(a, b) == /\ a # b /\ cur[a] # None /\ cur[b] # None
                 /\ last' = <<"Compare", a, b, Expected(a, b)>>
                 /\ UNCHANGED <<cur, terms, res>>

Next == \/ \E o \in Objs : Step(o)
        \/ \E o \in Objs, f \in Fields : Edit(o, f)
        \/ \E a, b \in Objs, r \in Routes : Reproduce(a, b, r)
        \/ \E a, b \in Objs : Compare(a, b)
Spec == Init /\ [][Next]_vars
Bound == TLCGet("level") <= MaxDepth

-----------------------------------------------------------------------------
(* Independence: an action that names object o as its (only) target leaves every other object's
   term unchanged.                                                                                *)
Independent == [][ \A o \in Objs : (last'[1] \in {"Step", "Edit"} /\ last'[2] # o) => cur'[o] = cur[o] ]_vars
ReproduceExact == [][ last'[1] = "Reproduce" => cur'[last'[3]] = cur[last'[2]] /\ cur'[last'[2]] = cur[last'[2]] ]_vars
(* a simulation always equals its own copy / restored snapshot *)
SelfEqual == \A a, b \in Objs : (cur[a] = cur[b] /\ cur[a] # None) => Expected(a, b) = "equal"
=============================================================================
