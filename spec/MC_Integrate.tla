---------------------------- MODULE MC_Integrate ----------------------------
(* Model-checking instance of Integrate on the tick lattice: arithmetic is integer arithmetic.   *)
EXTENDS Integrate

CONSTANTS T0sN, DtMags, TMsN, Shift, MaxCalls, MaxEvents, AdaptDts, MaxRej

\* the cfg file cannot hold negative numbers: times are shifted, step sizes get both signs
T0s == {x - Shift : x \in T0sN}
TMs == {x - Shift : x \in TMsN}
Dts == DtMags \cup {-x : x \in DtMags}

VARIABLES rej, nev
mvars == <<vars, rej, nev>>

Abs(x) == IF x < 0 THEN -x ELSE x

MCInit == /\ \E tt \in T0s, dd \in Dts : InitWith(tt, dd)
          /\ rej = 0 /\ nev = 0

Ar == [neg |-> -dt, sum |-> t + dt, sum2 |-> t + dt, rem |-> tmax - t, near |-> FALSE, err |-> FALSE]

MCBegin == /\ calls < MaxCalls
           /\ \E tm \in TMs, ex \in {0, 1} : Begin(tm, FALSE, ex, Ar)
           /\ UNCHANGED <<rej, nev>>

MCHeartbeat ==
  \/ Heartbeat(0, FALSE) /\ UNCHANGED <<rej, nev>>
  \/ /\ nev < MaxEvents
     /\ \/ \E ev \in ExitEvents : (ev = COLLISION => steps > 0) /\ Heartbeat(ev, FALSE)
        \/ Heartbeat(0, TRUE)
     /\ nev' = nev + 1 /\ UNCHANGED rej

MCCheck == CheckExit(Ar) /\ UNCHANGED <<rej, nev>>

MCStep ==
  IF Kind = "fixed" THEN Step(t + dt, dt, dt, Ar) /\ UNCHANGED <<rej, nev>>
  ELSE LET s == Dir(dt) IN
       \/ \E d \in 1..Abs(dt), nd \in AdaptDts : Step(t + s * d, s * nd, s * d, Ar) /\ rej' = 0 /\ UNCHANGED nev
       \/ /\ rej < MaxRej /\ Abs(dt) > 1          \* rejected step: time unchanged, smaller dt
          /\ \E nd \in 1..(Abs(dt) - 1) : Step(t, s * nd, 0, Ar)
          /\ rej' = rej + 1 /\ UNCHANGED nev

MCEnd == End /\ UNCHANGED <<rej, nev>>

MCNext == MCBegin \/ MCHeartbeat \/ MCCheck \/ MCStep \/ MCEnd
MCSpec == MCInit /\ [][MCNext]_mvars /\ WF_mvars(MCHeartbeat \/ MCCheck \/ MCStep \/ MCEnd)

(* fixed step, no exact finishing: the trajectory sits on the grid t0 + n dt and the number of
   steps is the one implied by the step size, whatever the partition into calls                  *)
StepCountImplied ==
  Kind = "fixed" /\ Done /\ status = SUCCESS /\ exact = 0 =>
     /\ t = t0 + steps * dtBegin
     /\ \A k \in 0..(steps - 1) : Gt(tmax, t0 + k * dtBegin, D)
StepCountExact ==
  Kind = "fixed" /\ Done /\ status = SUCCESS /\ exact = 1 /\ tmax # t0 =>
     /\ t = tmax
     /\ \A k \in 0..(steps - 1) : Gt(tmax, t0 + k * dtBegin, D)
     /\ Ge(t0 + steps * dtBegin, tmax, D)
(* splitting (no exact finishing anywhere, one direction): total steps so far are those of a
   single call to the furthest target                                                             *)
Terminates == (pc \notin {"idle", "done"}) ~> (pc = "done")
MTimeMonotone == [][pc = "step" => Ge(t', t, D)]_mvars
MNoStepAfterExit == [][pc = "step" /\ pc' = "hb" => status < 0]_mvars
=============================================================================
