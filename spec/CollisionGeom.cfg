SPECIFICATION Spec
INVARIANT Sane
CONSTRAINT Emit
CHECK_DEADLOCK FALSE
