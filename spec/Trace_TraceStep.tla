--------------------------- MODULE Trace_TraceStep ---------------------------
(* Trace validation of TRACE steps.  One trace = one call of reb_integrator_trace_part2 observed through the hooks
   tr_begin / tr_pre / tr_int / tr_jump / tr_wh / tr_bs / tr_com / tr_full / tr_post / tr_reject / tr_end, together with what
   the two switching functions answered before and after the attempted step (recorded by the harness callbacks that wrap or
   replace them).  Every logged encounter state (C, K, E) must be the one TraceStep computes from those answers, every
   executed word the one it prescribes, and the working-state checksum after a rejection the one the step began with.    *)
EXTENDS TraceStep, Json, IOUtils, TLCExt

Traces == ndJsonDeserialize(IOEnv.TRACE_FILE)
Verbose == "VERBOSE" \in DOMAIN IOEnv /\ IOEnv.VERBOSE = "1"

VARIABLES tid, l, restoreOK, bsOK
tvars == <<vars, tid, l, restoreOK, bsOK>>
T == Traces[tid]
Ev == T.events
PSet(sq) == {<<sq[k][1], sq[k][2]>> : k \in 1..Len(sq)}
ISet(sq) == {sq[k] : k \in 1..Len(sq)}

TraceInit == /\ tid \in 1..Len(Traces) /\ l = 1
             /\ pc = "pre" /\ PreP = PSet(T.PreP) /\ PostP = PSet(T.PostP) /\ PreC = T.PreC /\ PostC = T.PostC /\ Coll = FALSE
             /\ C = FALSE /\ K = {} /\ E = {0} /\ attempt = 0 /\ words = <<>> /\ C1 = FALSE /\ K1 = {} /\ rejected = FALSE
             /\ restoreOK = TRUE /\ bsOK = TRUE

TPre(e) == PreCheck /\ C' = e.C /\ K' = PSet(e.K) /\ E' = ISet(e.E) /\ UNCHANGED <<restoreOK, bsOK>>
(* the Bulirsch-Stoer part ran over exactly the encounter list of the model *)
(* ... and counted exactly the active members of the list (the star included) as active *)
TWord(e) == Attempt /\ Word = e.w
            /\ bsOK' = (bsOK /\ (e.bs # <<>> => ISet(e.bs) = E /\ e.bsna = Cardinality({k \in E : k < NA})))
            /\ UNCHANGED restoreOK
(* the encounter list after the post-check is only used when the step is redone: it is compared in that case.
   Traces are validated with MapFromPost = TRUE, the transition the pinned code takes (known finding
   C01-trace-redo-drops-pair): every event must still match, and the traces on which that transition leaves a flagged pair
   outside the encounter list of an attempt are reported one by one (UNCOV) instead of stopping at the first. *)
TPost(e) == PostCheck /\ C' = e.C /\ K' = PSet(e.K) /\ (e.new => E' = ISet(e.E)) /\ rejected' = e.new /\ UNCHANGED <<restoreOK, bsOK>>
TReject(e) == pc = "attempt" /\ attempt = 2 /\ restoreOK' = (restoreOK /\ e.sum = T.sum0) /\ UNCHANGED <<vars, bsOK>>
TEnd(e) == pc = "done" /\ UNCHANGED <<vars, restoreOK, bsOK>>

TraceNext == /\ l <= Len(Ev)
             /\ LET e == Ev[l] IN \/ (e.e = "pre" /\ TPre(e)) \/ (e.e = "word" /\ TWord(e)) \/ (e.e = "post" /\ TPost(e))
                                  \/ (e.e = "reject" /\ TReject(e)) \/ (e.e = "end" /\ TEnd(e))
             /\ l' = l + 1 /\ UNCHANGED tid
TraceSpec == TraceInit /\ [][TraceNext]_tvars

RestoreExact == restoreOK
BsOverEncounterList == bsOK
Report == /\ (l = Len(Ev) + 1 => PrintT(<<"ACC", tid>>))
          /\ (l = Len(Ev) + 1 /\ ~Covered => PrintT(<<"UNCOV", tid>>))
          /\ (Verbose => PrintT(<<"AT", tid, l>>))
=============================================================================
