"""C02 -- every force routine computes the specified pairwise Newtonian sum.

 E1/E4  Gravity.tla: the declarative interaction set Acts (from the statement) and the loop-shaped sets
     transcribed from src/gravity.c (BASIC, COMPENSATED, MERCURIUS mode 0 / 1, TRACE interaction / Kepler mode for
     every set of flagged pairs); TLC proves them equal
     for every configuration with N <= 6 (N_active in -1..N, testparticle_type, gravity_ignore_terms),
     symmetry when all particles are active, and the completeness of the hybrid partition; it prints
     Acts for all 210 configurations.
 Probe  for each configuration the implementation's term matrix is extracted by unit-mass probing
     (all masses zero except m_j = 1, particles on an integer lattice with distinct separations):
     a_i must be exactly zero when (i,j) is not in Acts and equal to the softened Newtonian kernel
     (summed over the 27 images for periodic non-cubic boxes) to 1e-12 when it is -- for BASIC,
     COMPENSATED, TREE at opening angle 0; MERCURIUS with a switching function returning the critical
     radius it was handed (per-body dcrit = (k+1)/16): mode 0 weight = max(dcrit_i, dcrit_j), mode 1
     (encounter map not the identity) weight = 1 - the same, star term with full weight; TRACE with four
     patterns of flagged pairs per configuration (none, all, two mixed): interaction mode = the unflagged planet pairs,
     Kepler mode over the minimal and the full encounter list = star term + flagged pairs between members.
     All active: the mass-weighted accelerations cancel (1e-12).
 Jacobi GravityJacobi.tla: the JACOBI routine as the gradient of the Wisdom-Holman interaction Hamiltonian; exact rational
     term lists for 80 configurations on the line (2,3,6) s_k (N 2..5, four mass sets incl. zero masses, five site orders),
     summed exactly and compared (1e-13); the specified force is checked to conserve momentum exactly; sampled: WHFast with
     the JACOBI routine and with BASIC + explicit Jacobi term agree to 1e-11 over 60 steps.
"""
import json
import os
import re
import shutil

import common
from common import MachineryError

LEVEL = "model_checking"
HERE = os.path.dirname(os.path.abspath(__file__))


def run(tier, rep):
    common.build()
    sc = common.scratch("c02")
    quick = tier == "quick"
    res = common.run_tlc("Gravity", "Gravity", workers=1, coverage=False, timeout=1800)
    if res.violation:
        rep.violation("model:Gravity:" + res.violation, "Gravity: a loop-shaped set differs from the declarative interaction set (%s)" % res.violation, {"tlc": res.out[-1500:]})
        return
    if not res.ok:
        raise MachineryError("Gravity did not complete: %s" % res.out[-1500:])
    rows = sorted(set(m.group(1).replace('\\"', '"') for m in re.finditer(r'^<<"A", "(.*)">>$', res.out, re.M)))
    if len(rows) < 200:
        raise MachineryError("Gravity printed only %d configurations" % len(rows))
    trows = sorted(set(m.group(1).replace('\\"', '"') for m in re.finditer(r'^<<"T", "(.*)">>$', res.out, re.M)))
    if len(trows) < 100:
        raise MachineryError("Gravity printed only %d TRACE rows" % len(trows))
    nconf = len(rows)
    gj = common.run_tlc("GravityJacobi", "GravityJacobi", workers=1, coverage=False, timeout=900)
    if gj.violation or not gj.ok:
        raise MachineryError("GravityJacobi did not complete cleanly: %s %s" % (gj.violation, gj.out[-800:]))
    jrows = sorted(set(m.group(1).replace('\\"', '"') for m in re.finditer(r'^<<"J", "(.*)">>$', gj.out, re.M)))
    if len(jrows) < 60:
        raise MachineryError("GravityJacobi printed only %d rows" % len(jrows))
    rep.add(states=gj.distinct, transitions=gj.states)
    rows = rows + trows + jrows
    rep.add(states=res.distinct, transitions=res.states)
    tf = os.path.join(sc, "table.ndjson")
    open(tf, "w").write("\n".join(rows) + "\n")
    out = os.path.join(sc, "out.json")
    r = common.run_worker(os.path.join(HERE, "w_c02.py"), [tf, out, "3" if quick else "1", str(common.seed())], timeout=3000)
    if r.returncode != 0:
        if r.returncode < 0:
            rep.violation("crash", "real code crashed (signal %d) in a force routine" % -r.returncode, {"stderr": r.stderr[-1500:]})
            return
        raise MachineryError("worker failed: %s" % r.stderr[-2500:])
    o = json.load(open(out))
    rep.add(evaluations=o["probes"], traces_validated_against_impl=o["cfgs"], distinct_nontrivial=o["cfgs"],
            rule="configurations (N, N_active, testparticle_type, gravity_ignore_terms) of the TLC table; each probed with one unit-mass source at a time per routine",
            exhaustive=not quick)
    rep.cov.update({"configurations_probed": o["cfgs"], "of_configurations": nconf, "trace_rows_probed": o.get("trace_rows", 0), "of_trace_rows": len(trows), "jacobi_rows": o.get("jacobi_rows", 0), "jacobi_equivalence_worst": o.get("jacobi_equivalence_worst"), "tree_angle_errors": o.get("tree_angle_errors"), "tree_reference_worst": o.get("tree_reference_worst"), "unit_mass_probes": o["probes"]})
    for s in o["samples"]:
        rep.sample({"kind": "configuration", **s})
    for v in o["violations"]:
        c = v["cfg"]
        key = "%s:n%d:na%d:t%d:i%d:%s" % (v["routine"], c["n"], c["na"], c["type"], c["ign"], "box" if v.get("box") else v.get("clause", "term")[:12])
        if "source" in v:
            desc = "%s, N=%d N_active=%d testparticle_type=%d gravity_ignore_terms=%d%s%s: source %d -> target %d (%s the specified set): acceleration %s, specified %s" % (
                v["routine"], c["n"], c["na"], c["type"], c["ign"], (" softening %s" % v["softening"]) if v.get("softening") else "",
                (" periodic box %s with ghost ring" % (v["box"],)) if v.get("box") else "", v["source"], v["target"],
                "in" if v.get("in_specified_set", True) else "not in", v["got"], v["want"])
            if v.get("clause"):
                desc = "%s, N=%d: %s: got %s, reference %s" % (v["routine"], c["n"], v["clause"], v["got"], v["want"])
        else:
            desc = "%s, N=%d: %s: %s (scale %s)" % (v["routine"], c["n"], v["clause"], v["sum"], v["scale"])
        rep.violation(key, desc, v)
    encounter_rows(rep, sc, quick)
    rep.assumptions += ["forces are linear in the source masses (unit-mass probing); the JACOBI routine (not linear in the masses) is compared with exact term lists on a rational lattice instead",
                        "tree gravity is decided only at opening angle 0 (all particles active, nothing ignored); the finite-opening-angle clause is sampled on one random cluster per run against the rigorous per-cell monopole bound and for shrinking with theta",
                        ]
    shutil.rmtree(sc, ignore_errors=True)


def encounter_rows(rep, sc, quick):
    """Encounter.tla: which particles MERCURIUS hands to its IAS15 sub-integration (the set the mode-1 force routine sums over)"""
    res = common.run_tlc("Encounter", "Encounter", workers=1, coverage=False, timeout=900)
    if res.violation:
        rep.violation("model:Encounter:" + res.violation, "Encounter violates %s" % res.violation, {"tlc": res.trace[-4:]})
        return
    if not res.ok:
        raise MachineryError("Encounter did not complete: %s" % res.out[-1500:])
    rows = sorted(set(m.group(1).replace('\\"', '"') for m in re.finditer(r'^<<"E", "(.*)">>$', res.out, re.M)))
    if len(rows) < 500:
        raise MachineryError("Encounter printed only %d rows" % len(rows))
    rep.add(states=res.distinct, transitions=res.states)
    tf = os.path.join(sc, "enc_rows.ndjson")
    open(tf, "w").write("\n".join(rows) + "\n")
    out = os.path.join(sc, "enc_out.json")
    r = common.run_worker(os.path.join(HERE, "w_encounter.py"), [tf, out, "1", str(common.seed())], timeout=3000)
    if r.returncode != 0:
        if r.returncode < 0:
            rep.violation("crash:encounter", "real code crashed (signal %d) in a MERCURIUS step of the encounter lattice" % -r.returncode, {"stderr": r.stderr[-1500:]})
            return
        raise MachineryError("w_encounter failed: %s" % r.stderr[-2500:])
    o = json.load(open(out))
    if o["rows"] < 500:
        raise MachineryError("only %d encounter rows executed" % o["rows"])
    rep.add(evaluations=o["rows"], traces_validated_against_impl=o["rows"])
    rep.cov["encounter_rows"] = {"executed": o["rows"], "of": o["of"], "flybys": o.get("flybys")}
    for v in o["violations"][:6]:
        rw = v["row"]
        rep.violation("encounter:%s:tt%d:%s" % (v["clause"], rw["tt"], "sep%d" % rw["sep"]),
                      "MERCURIUS encounter bookkeeping differs from Encounter (N=%d N_active=%d testparticle_type=%d clusters %s at %d%% of the critical radius, variant %s): %s"
                      % (rw["n"], rw["na"], rw["tt"], rw["cl"], rw["sep"], json.dumps(v["variant"]),
                         ("got %s, specified %s" % (json.dumps(v["got"]), json.dumps(v["want"]))) if "got" in v else v.get("what")), v)


def replay(path):
    print(json.dumps(json.load(open(path)), indent=1)[:4000])
    return 0
