import ctypes
import json
import pickle
import sys
import warnings

import rebound
import project as P
import layout as L

paths = json.load(open(sys.argv[1]))
names = [d["name"] for d in P.descriptors()]
cand = [(p, k) for p, k in paths if not any(p == n or p.startswith(n + ".") for n in names)]
res = {"without_descriptor": len(cand), "tested": []}
skip = ("N_", "alloc", "walltime", "mode")
lay = L.member_layout([p for p, _ in cand])
for p, kind in cand:
    last = p.split(".")[-1]
    if (last.startswith("N_") or "alloc" in last or "walltime" in last or last == "mode" or last.startswith("encounter")):
        continue
    sim = rebound.Simulation()
    sim.add(m=1.0)
    sim.add(m=1e-3, a=1.0)
    obj = sim
    try:
        for q in p.split(".")[:-1]:
            obj = getattr(obj, q)
        getattr(obj, last)          # public attribute?
    except Exception:
        continue
    lo = lay.get(p)
    if not lo:
        continue
    if p.startswith("ri_"):
        integ = p.split(".")[0][3:]
        try:
            sim.integrator = integ
        except Exception:
            pass
    addr = ctypes.addressof(sim) + lo[0]
    old = ctypes.string_at(addr, lo[1])
    new = bytes([old[0] ^ 1]) + old[1:] if kind == "enum" or lo[1] == 4 else bytes([old[0] ^ 1]) + old[1:]
    ctypes.memmove(addr, new, lo[1])
    for route in ("copy", "pickle"):
        with warnings.catch_warnings():
            warnings.simplefilter("ignore")
            c = sim.copy() if route == "copy" else pickle.loads(pickle.dumps(sim))
        got = ctypes.string_at(ctypes.addressof(c) + lo[0], lo[1])
        res["tested"].append({"path": p, "route": route, "set": new.hex(), "got": got.hex(), "survives": got == new})
json.dump(res, open(sys.argv[2], "w"))
