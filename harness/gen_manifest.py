"""Regenerate MANIFEST.json from the table below (kept in one place so it is always valid)."""
import json, os, subprocess
V = os.path.dirname(os.path.dirname(os.path.abspath(__file__)))

CHECKS = {
 "C14": dict(
   category="model_checking", design_ref="DESIGN.md 4/C14",
   technique="TLA+ spec ParticleStore checked by TLC; state-graph replay into C and Python APIs; trace validation of random histories",
   text="TLC exhaustively checks the ParticleStore design (add/remove x4 paths/hash lookup table/N_active) against a reference list model for MaxN=3, 3 hashes incl. 0 and duplicates, depth 5 (quick) / 6-7 (thorough), with and without tree and hybrid integrator. The dumped state graph is then walked against the real library: for every (state, action) pair reachable by the implementation, through the C API and through the Python particles container, the projected implementation state (particles, N_active, return value, error flag, lookup table) must be a spec successor. Seeded random histories of 250-1200 calls with up to 300 particles (crossing the 128/256 growth boundaries) are validated by TLC against Trace_ParticleStore with all invariants evaluated on every state.",
   note="Ids ride in the particle mass; N_active is not modelled together with a tree; qsort order among equal hashes abstracted (any matching entry may be found); memory-safety clause only as far as ASan/UBSan sees the thorough tier's histories."),
 "C08": dict(
   category="model_checking", design_ref="DESIGN.md 4/C08",
   technique="TLA+ spec Integrate (integrate loop + reb_check_exit + exit conditions) checked by TLC incl. liveness; model paths replayed into C and Python front ends; hook traces of every integrator validated against Trace_Integrate",
   text="TLC checks Integrate exhaustively on a tick lattice for fixed-step and adaptive kinds (both directions, steps larger than the interval, targets before/after/equal, exact finishing on/off, two consecutive calls, an exit condition or loss of all particles at any boundary, rejected adaptive steps): ends at target / overshoot < one step / time monotone / right direction / dt restored / no-op / step count implied by dt / status names the first boundary / no step after exit, and termination under weak fairness. Binding: every root-to-leaf path of a dumped fixed-step model (quick ~2500 sampled, thorough all) is executed on nine fixed-step integrators through the C API and sim.integrate (exception class per status) and t, dt, status and step count after each call must equal the model's; hook traces (int_begin/check_exit/step/int_end) of ~14 scenarios x 20 integrator configurations (dyadic and non-dyadic steps, split partitions with digest comparison, injected user-stop/escape/encounter/no-particles events evaluated by the harness on the same state, pericentre passages with step-size floor) are validated by TLC against Trace_Integrate with every contract invariant evaluated in every state.",
   note="Doubles are abstracted to ranks (order and equality exact); t+dt, tmax-t, -dt and the 1e-12 test are evaluated by the harness in binary64 from logged operands. Collisions as exit condition are inferred from the logged status (no independent oracle here; C13 covers detection). Split invariance is checked for default safe_mode, one direction, no exit event."),
 "C09": dict(
   category="model_checking", design_ref="DESIGN.md 4/C09",
   technique="TLA+ spec Schedule (operator words of WHFast/SABA/EOS/MERCURIUS/JANUS/LEAPFROG/SEI + synchronisation flag machine) checked by TLC; inner words emitted by TLC and compared with executed ones; hook traces of call sequences validated against Trace_Schedule",
   text="TLC checks Schedule exhaustively for all 285 valid option combinations (WHFast coordinates x kernels x correctors x corrector2 x safe_mode x keep_unsynchronized x variational, 18 SABA types, 9 EOS splittings, MERCURIUS, JANUS orders, LEAPFROG, SEI) and every call sequence over step / synchronize / observe / set-recalculate up to depth 6: every unit of drift is matched by a unit of kick and centre-of-mass motion (Balanced), completing the deferred half step gives after merging exactly the safe-mode word (UnsafeEqualsSafe), correctors and processors bracket each synchronisation window exactly once, safe words of uncorrected schemes are palindromes, synchronising a synchronised state and observing execute nothing, keep_unsynchronized leaves the word untouched; correctors are drift/kick neutral and EOS inner schemes balanced. Binding: for configurations drawn from TLC's enumeration (quick ~65, thorough all) random call sequences and three-run bitwise traces are executed on real simulations; the words recorded by sub-step hooks (coefficients at 1e-8 dt), is_synchronized, and SHA-256 ids of internal coordinates and particles are validated by TLC against Trace_Schedule (word equality per call; keep-unsynchronised transparency; sync twice = once; observers inert; state after k steps independent of outputs requested in between); ~3000 executed inner words (5 corrector orders, corrector2, EOS shell-1 schemes x n, processors, SABA correctors) are compared with TLC's tables.",
   note="Coefficient tables were transcribed once from the pinned sources and are validated algebraically by TLC; 'same trajectory up to rounding / truncation' is a sampled A5 clause (40 steps, one system); WHFast512 and TRACE are not hooked; modifying particles while unsynchronised is outside the contract."),
 "C13": dict(
   category="model_checking", design_ref="DESIGN.md 4/C13",
   technique="TLA+ spec Collisions (resolve loop with index fix-ups, all list orders and resolver answers) checked by TLC; CollisionGeom lattice oracle for detection; hook traces of real searches validated against Trace_Collisions",
   text="TLC checks the resolve loop of reb_collision_search (pending list, removal sorted / swap-with-last / deferred in a tree, index fix-ups) for every overlap graph with <=2-3 edges on <=4-5 particles, every orientation set the direct / line / tree searches can produce, every permutation of the list and every resolver answer 0..3, plus the built-in merge policy: pending entries keep naming the identities they were found with, no collision between survivors is dropped, the array holds exactly the survivors (order kept when requested), nobody is resolved after removal, nobody merges twice per step. Detection: TLC classifies 20088 two-sphere integer configurations in periodic boxes (cubic with ghost ring in x,y; non-cubic root-box layouts with ghost ring in x,y,z) as Required / Boundary for the point and the line criterion; every configuration (quick: every 7th of the cubic family + all non-cubic) is run through direct, tree, line and linetree searches: Required => reported => Required or Boundary. Binding of the loop: 400 (quick) / 4000 (thorough) real reb_collision_search calls on clusters (chains, triangles, stars, squares, nested index pairs, disjoint pairs, bystanders) x 4 search modes x keep_sorted x random shuffle seeds with Python resolvers answering randomly, the built-in merge resolver on a 1/8 lattice (exact mass, momentum, mass-moment totals) and the hard-sphere resolver (momentum/energy 1e-11, last pair separating) are recorded through hooks (list after shuffle, each resolver call, list and particle identities after each fix-up) and validated by TLC against Trace_Collisions with all invariants.",
   note="Touching spheres and zero approach speed are don't-care; keep_sorted removal with a tree is refused by the library with an error and is not exercised with the merge resolver; merging across a periodic image is not exercised; hard-sphere energy/momentum is a sampled A5 clause."),
 "C15": dict(
   category="model_checking", design_ref="DESIGN.md 4/C15",
   technique="TLA+ spec BoundaryTree (reb_boundary_check transcribed; tree contract TreeOK with cell geometry from paths) checked by TLC on integer lattices; real boundary-check / tree-update / step calls validated against Trace_BoundaryTree with the real tree walked through ctypes",
   text="TLC checks BoundaryTree on integer lattices (particles on odd ticks, velocities multiples of 4 ticks up to 2.75 box lengths per step; root-box layouts 1x1x1, 2x1x1, 1x1x2; periodic, shear-periodic and open boundaries; with and without a tree; order-preserving removal when the energy offset is tracked): after every boundary check all particles are in the box, none is lost, coordinates differ from free flight by whole box lengths and the sheet's velocity jump equals S per radial wrap, the open boundary removes exactly the particles outside (incl. the remove-and-recheck loop and the flag-then-update path), no duplicates, and the minimal tree satisfies the tree contract. Binding: for 16 (quick) / 18 (thorough) configurations x 30 / 250 random lattice set-ups (1-12 particles, 2-6 steps, flagged user removals) every real call of reb_boundary_check, reb_simulation_update_tree + update_tree_gravity_data (one spec action each) and whole reb_simulation_step calls of a force-free LEAPFROG are recorded with the particle array and the real tree (leaves, inner counts and masses, back-pointers, cell geometry, walked read-only through ctypes); TLC validates each trace against Trace_BoundaryTree: the array is exactly the specified one (any order after a tree update), every live particle is in exactly one leaf, in the right root box, in the cell the octant rule leads to, which contains it; cell centre/width equal CellOf(path); counts and masses of inner cells equal the sums; library error messages and crashes are violations.",
   note="Exactly coincident particles are excluded (the tree cannot hold them; the library reports an error and is then memory-unsafe -- observation recorded in DESIGN.md); the shearing sheet is exercised without a tree; cell centre of mass is an A5 clause (1e-9); tree-based gravity/collision 'see every particle once' follows from TreePartition together with C13's tree detection and C02's zero-opening-angle probe."),
 "C06": dict(
   category="model_checking", design_ref="DESIGN.md 4/C06",
   technique="TLA+ specs ArchiveDelta (delta encoder/loader) and Cadence (auto-snapshot protocol) checked by TLC; real archive histories validated against Trace_ArchiveDelta; TLC-simulated Cadence behaviours replayed into the library",
   text="TLC checks exhaustively that Overlay(first, Diff(first,cur)) = cur for every pair of states of a 4-field model (scalar and pointer kinds; changed, grown, shrunk, vanished, new fields) with Diff and Overlay transcribed from reb_binary_diff / reb_input_fields, and that the auto-snapshot protocol (advance next, then write; re-attach keeps next; restart from last snapshot) yields exactly the prescribed progression. Binding: seeded random histories of real operations (steps, add/remove, remove-all, integrator switch/reset, option changes, variations, N_active) interleaved with appends; after every append the file is parsed into field records and snapshots are reloaded; TLC validates every history against Trace_ArchiveDelta (delta on disk = Diff(first,cur) in descriptor order, header sizes match payloads, reader count/time, reload = state when written, all invariants). 150-1500 TLC-generated Cadence behaviours are replayed on real simulations comparing t, steps, next, next_step and every stored snapshot after each action.",
   note="Payload equality is by SHA-256 of the bytes with pointer members masked; histories are seeded random, not exhaustive; walltime-based cadence is not modelled; collisions changing N are exercised only as add/remove."),
 "C07": dict(
   category="fault_enumeration", design_ref="DESIGN.md 4/C07",
   technique="TLA+ spec ArchiveFile (reader, writer+repair, crash images) checked by TLC; every byte-level crash image of real archives observed in forked children and validated by TLC against Trace_ArchiveFile",
   text="TLC explores every crash point (each cell boundary, inside each cell, the in-place trailer patch with partially written offset) of every save, up to 2-3 crash/restart cycles, and checks that exposed snapshots are the uninterrupted run's, an error is reported iff nothing is exposed, completed snapshots are never lost, the writer never refuses to continue, and a restarted run converges. Binding at byte granularity: for reference archives of 2 (quick) / 8 (thorough) integrators the C driver builds the image for byte counts of every write (thorough: every byte), and in a forked child opens it, reloads all exposed snapshots, restarts from the last one and runs to the end; each image is projected to cells and TLC evaluates the specification's reader and writer on it: 7 clauses (no signal, reader result = spec reader, exactly the completed snapshots, error iff none, exposed identical, file after restart = spec writer's prediction, convergence). The same images are opened through rebound.Simulationarchive / Simulation(file) in forked interpreters.",
   note="Assumes prefix persistence (one buffered stream, increasing offsets); snapshot identity by 64-bit digest of t/N/steps/dt/particles; restarts are deterministic re-runs; power-loss reordering is out of scope."),
 "C17": dict(
   category="model_checking", design_ref="DESIGN.md 4/C17",
   technique="TLA+ spec Stream (term algebra of copy/restore/step/edit/compare) checked by TLC; TLC-generated behaviours executed on real simulations and validated against Trace_Stream; exhaustive single-field perturbation audit of the descriptor table against the header's offsetof",
   text="TLC checks the Stream model (copy and every restore route reproduce the term, operations on one object never change another, expected comparison result) exhaustively for 2 objects and generates 120 (quick) / 1500 (thorough) behaviours of depth 10 over Step/Edit/Reproduce(copy|pickle|file|archive)/Compare on 3 objects; each is executed on real simulations starting from one of 23 reachable states (every integrator mid-run incl. unsynchronised ones, variational 1st/2nd order, MEGNO, tree+collisions, merged collision, test particles, rejected BS step, display settings) and TLC validates the logged digests and comparison answers (C diff and Python ==) against Trace_Stream: equal terms => bit-identical persisted content and 'equal'; untouched object keeps its bits; an edit of a non-walltime field => 'different'. Exhaustive audit: every scalar entry of reb_binary_field_descriptor_list (read from the built library) is perturbed on a copy through the offset computed from src/rebound.h by generated offsetof programs; required: descriptor offset = header offset, comparison reports it iff it is not a walltime field, exactly that stream field changes, and the value survives save/load.",
   note="Callbacks are re-attached by the harness after copy/restore (function pointers are documented as not persisted); save_messages (forced to 1 by the Python constructor) and array-count fields are excluded from the bit-flip audit; digest = SHA-256 with pointer members masked."),
 "C05": dict(
   category="model_checking", design_ref="DESIGN.md 4/C05",
   technique="TLA+ Lattice (valid option combinations, enumerated by TLC) + Stream/Trace_Stream term algebra; every lattice point executed on the real library and validated by TLC; descriptor-table and non-persisted-member audits against the header",
   text="TLC enumerates the 1988 valid option combinations of Lattice.tla (whfast coordinates x kernels x correctors x corrector2 x safe_mode x keep_unsynchronized, 18 SABA types, 9x9 EOS splittings, IAS15 adaptive modes, JANUS orders, TRACE pericentre modes, MERCURIUS, BS, LEAPFROG, SEI; gravity basic/compensated; test-particle types; variational order 0/1/2) with the validity rules transcribed from the integrators' init checks. Every point (thorough: x 4 restore routes = 7952 experiments; quick: a seeded sample of ~250) is built as a real simulation, advanced to a seeded save point (0/1/4 steps, incl. unsynchronised states and a preceding particle removal), restored via pickle / binary file / archive index / archive getSimulation, re-saved, and original and restored are stepped 17 times in lock step; TLC validates the Stream-shaped trace against Trace_Stream: after every action objects with the same term have bit-identical persisted content (SHA-256 over all fields, pointers masked) and compare equal. Audits: descriptor offsets vs header offsetof + per-field round trip (shared with C17); every scalar member of reb_simulation without a descriptor that is a documented public option must survive copy/pickle.",
   note="Callbacks re-attached by the harness; for getSimulation on unsynchronised WHFast/SABA states 'bit-for-bit' is checked on the synchronised trajectory (the route changes keep_unsynchronized by design) and EOS/MERCURIUS unsynchronised states are restored through the archive index instead; particles are only removed at save points where the integrator keeps them synchronised; one fixed few-body system per test-particle class."),
}

NOT_YET = {
 "C03": "Kepler-step accuracy over continuous (e, a, phase, dt): one pure numeric function with real-valued case thresholds; a TLA+ model would be a numeric test in disguise (DESIGN.md 5). Its discrete parts (Kepler mass parameter, sub-step schedule) are covered under C01/C09.",
 "C16": "Variational particles vs finite differences: ~70 derivative formulas and three force loops, no discrete structure beyond the var_config record, which is exercised as state by C05/C06/C17 (DESIGN.md 5).",
}

def main():
    props = [json.loads(l) for l in open(os.path.join(V, "properties.jsonl"))]
    checks = []
    na = []
    for p in props:
        pid = p["id"]
        if pid in CHECKS:
            c = CHECKS[pid]
            checks.append({
              "property_id": pid,
              "quick_cmd": "./check %s --tier quick" % pid,
              "thorough_cmd": "./check %s --tier thorough" % pid,
              "evidence_file": "/verif/evidence/%s.json" % pid,
              "replay_cmd_template": "./check %s --replay {path}" % pid,
              "engine": "tlc+conformance",
              "level_claimed": {"category": c["category"], "text": c["text"], "design_ref": c["design_ref"]},
              "level_note": c["note"],
              "technique": c["technique"]})
        else:
            na.append({"property_id": pid, "reason": NOT_YET.get(pid, "not claimed yet: the specification module and conformance harness for this property are not built in the committed tree (work in progress, see DESIGN.md 8)")})
    hooks_commits = []
    try:
        out = subprocess.run(["git", "-C", "/repo", "log", "--format=%h %s"], capture_output=True, text=True).stdout
        hooks_commits = [l.split()[0] for l in out.splitlines() if l.split(" ", 1)[1].startswith("verif-hook:")]
    except Exception:
        pass
    m = {
     "version": 1,
     "setup_cmd": "cd /verif && /venv/bin/python harness/setup.py",
     "hooks": {
       "guard": "REBOUND_VERIF",
       "enable": "runtime environment variable REBOUND_VERIF=1 (trace file in REBOUND_VERIF_TRACE); checks rebuild /repo/src into /verif/build/<variant>-<hash>/ and set the variable themselves",
       "baseline_off_cmd": "cd /repo && env -u REBOUND_VERIF -u REBOUND_VERIF_TRACE /verif/harness/rebuild_inplace.sh && /venv/bin/python -m pytest -ra -q -p no:cacheprovider --timeout=900 --continue-on-collection-errors",
       "source_commits": hooks_commits,
       "add_only": True},
     "engines": [
       {"name": "tlc-exhaustive", "path": "harness/common.py", "serves_properties": sorted(CHECKS), "kind_free_text": "TLC model checking of spec/*.tla with small constants"},
       {"name": "spec-to-code replay", "path": "harness/w_*.py", "serves_properties": sorted(CHECKS), "kind_free_text": "TLC state graph / simulated behaviours replayed into the real library with state comparison after each action"},
       {"name": "code-to-spec trace validation", "path": "spec/Trace_*.tla", "serves_properties": sorted(CHECKS), "kind_free_text": "traces recorded from the real library validated by TLC against the specification"}],
     "checks": checks,
     "not_applicable": na,
     "notes": "Single entry point ./check <ID> --tier quick|thorough. Exit 0 held / 1 violation (VIOLATION line) / 2 machinery failure. known_findings.json lists recorded defects and fixed ones."
    }
    json.dump(m, open(os.path.join(V, "MANIFEST.json"), "w"), indent=1)
    print("checks:", [c["property_id"] for c in checks], "na:", len(na))

if __name__ == "__main__":
    main()
