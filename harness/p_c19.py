"""C19 -- concurrent simulations do not interfere; served snapshots are consistent.

 E1  TLC checks Server (integrate loop x server thread, mutex, need_copy handshake, the step and the
     synchronisations as two visible actions each) for every interleaving of <= 3 steps and <= 2
     requests: MutualExclusion, ServedNotTorn, ServedNotMidSync, ServeTransparent, every request is
     eventually served, the run terminates.  The design in which the synchronisations of
     reb_check_exit / after the loop are NOT protected (SyncLocked = FALSE, the code before the fix) is
     kept as a negative model: TLC must find the mid-synchronisation serve there.
 E3  real runs: a simulation integrates with the server started while a client fires /simulation
     requests at seeded random times, and with REBOUND_VERIF_YIELD widening the windows inside the
     synchronisations; hook events (emitted under the mutex) and the harness' verdict on every body
     received (restored, compared with the reference run's boundary state, continued to the end and
     compared bit for bit) are validated by TLC against Trace_Server; the served run's final bits must
     equal the unserved run's.
 E3b independent simulations: every integrator type (and create / copy / save / free) in parallel
     threads vs one after another -- Python threads through ctypes and a C/pthread driver; thorough
     adds the same driver under ThreadSanitizer (any report not about the global SIGINT flag fails).
"""
import json
import os
import re
import shutil
import subprocess

import common
from common import MachineryError

LEVEL = "model_checking"
HERE = os.path.dirname(os.path.abspath(__file__))


def model(rep, tag, unsafe, exact, locked, expect=None, hbin="TRUE"):
    name = "gen_MC_Server_%s" % tag
    with open(os.path.join(common.SPEC, name + ".cfg"), "w") as fh:
        fh.write("SPECIFICATION Spec\nCONSTANTS\n  MaxSteps = 3\n  MaxReq = 2\n  Unsafe = %s\n  Exact = %s\n  SyncLocked = %s\n  HeartbeatInside = %s\n" % (unsafe, exact, locked, hbin))
        fh.write("INVARIANT MutualExclusion\nINVARIANT ServedNotTorn\nINVARIANT ServedNotMidSync\nPROPERTY ServeTransparent\nPROPERTY RequestServed\nPROPERTY Terminates\nCHECK_DEADLOCK FALSE\n")
    try:
        res = common.run_tlc("Server", name, timeout=900)
    finally:
        os.remove(os.path.join(common.SPEC, name + ".cfg"))
    if expect:
        if res.violation != expect:
            raise MachineryError("negative model %s: expected TLC to find %s, got %s" % (tag, expect, res.violation))
        rep.cov.setdefault("negative_models", []).append("%s: TLC finds %s as expected (unprotected synchronisation)" % (tag, expect))
        return
    if res.violation:
        rep.violation("model:%s:%s" % (tag, res.violation), "Server design violates %s (%s)" % (res.violation, tag), {"tlc_trace": res.trace[-10:]})
        return
    common.tlc_must_pass(res, "Server/" + tag)
    rep.add(states=res.distinct, transitions=res.states)


def validate(tracefile, tag, verbose=False):
    name = "gen_Trace_Server_%s" % tag
    with open(os.path.join(common.SPEC, name + ".cfg"), "w") as fh:
        fh.write("SPECIFICATION TraceSpec\nCONSTANTS\n  MaxSteps = 1000000\n  MaxReq = 1000000\n  Unsafe = TRUE\n  Exact = TRUE\n  SyncLocked = TRUE\n  HeartbeatInside = TRUE\n")
        fh.write("CONSTRAINT Report\nINVARIANT ServedIsBoundaryAndContinuable\nINVARIANT TServedNotMidSync\nCHECK_DEADLOCK FALSE\n")
    env = {"TRACE_FILE": tracefile}
    if verbose:
        env["VERBOSE"] = "1"
    try:
        res = common.run_tlc("Trace_Server", name, workers=1, env=env, coverage=False, timeout=3000)
    finally:
        os.remove(os.path.join(common.SPEC, name + ".cfg"))
    acc = set(int(m) for m in re.findall(r'<<"ACC", (\d+)>>', res.out))
    return acc, res


def check_traces(rep, tracefile, sc, label):
    lines = open(tracefile).read().splitlines()
    n = len(lines)
    if n == 0:
        return 0
    for ln in lines:
        tr_ = json.loads(ln)
        for sv in tr_.get("bodies_without_serve_event", []):
            if not (sv.get("boundary") and sv.get("cont")):
                rep.violation("served:orphan:%s" % tr_["cfg"].get("integrator"), "a served body that no serve event accounts for is not a step-boundary state / does not continue bit for bit: %s (%s)"
                              % (json.dumps(sv), tr_["cfg"]), {"cfg": tr_["cfg"], "body": sv})
    acc, res = validate(tracefile, "all")
    if res.violation:
        st = "\n".join(res.trace[-1:])
        m = re.search(r"/\\ tid = (\d+)", st)
        tid = int(m.group(1)) if m else 0
        ml = re.search(r"/\\ l = (\d+)", st)
        ll = int(ml.group(1)) if ml else 0
        tr = json.loads(lines[tid - 1]) if tid else {}
        bad = [s for s in tr.get("served", []) if not s.get("cont") or not s.get("boundary")]
        rep.violation("trace:%s:%s:%s" % (label, tr.get("cfg", {}).get("integrator"), res.violation),
                      "clause %s violated: %s, exact_finish_time=%s, yield=%r: a served snapshot is not a step-boundary state / cannot be continued bit for bit (event #%d %s; offending bodies %s)"
                      % (res.violation, tr.get("cfg"), tr.get("exact"), tr.get("yield"), ll - 1, json.dumps(tr.get("events", [{}])[ll - 2] if ll >= 2 else {}), bad[:3]),
                      {"clause": res.violation, "cfg": tr.get("cfg"), "yield": tr.get("yield"), "events_tail": tr.get("events", [])[max(0, ll - 8):ll], "bad_bodies": bad[:5]})
        return n
    if not res.ok:
        raise MachineryError("trace validation did not complete: %s" % res.out[-2000:])
    for tid in range(1, n + 1):
        if tid in acc:
            continue
        f = os.path.join(sc, "one.ndjson")
        open(f, "w").write(lines[tid - 1] + "\n")
        a1, r1 = validate(f, "one", verbose=True)
        at = [int(m) for m in re.findall(r'<<"AT", 1, (\d+)>>', r1.out)]
        k = max(at) if at else 1
        tr = json.loads(lines[tid - 1])
        e = tr["events"][k - 1] if k - 1 < len(tr["events"]) else None
        rep.violation("trace:%s:%s:%s" % (label, tr["cfg"]["integrator"], e["e"] if e else "?"),
                      "the recorded schedule is not a behaviour of Server: %s exact_finish_time=%s yield=%r: event #%d %s happens while the mutex is held by the other thread / out of protocol (previous events %s)"
                      % (tr["cfg"], tr["exact"], tr["yield"], k, json.dumps(e), [x["e"] for x in tr["events"][max(0, k - 6):k - 1]]),
                      {"cfg": tr["cfg"], "yield": tr["yield"], "unmatched_event": e, "events_before": tr["events"][max(0, k - 10):k - 1]})
        if len(rep.violations) >= 5:
            break
    rep.add(states=res.distinct, transitions=res.states)
    return n


def run(tier, rep):
    common.build()
    sc = common.scratch("c19")
    quick = tier == "quick"
    for tag, u, e in (("safe_exact", "FALSE", "TRUE"), ("unsafe_exact", "TRUE", "TRUE"), ("unsafe_overshoot", "TRUE", "FALSE")):
        model(rep, tag, u, e, "TRUE")
    model(rep, "neg_unprotected_sync", "TRUE", "TRUE", "FALSE", expect="ServedNotMidSync")
    model(rep, "neg_heartbeat_outside", "FALSE", "TRUE", "TRUE", expect="ServedNotTorn", hbin="FALSE")
    if rep.violations:
        return
    # ---- E3 served snapshots
    tot = 0
    nserved = 0
    runs = [("", 15 if quick else 60, 1)]      # 15 configurations (w_c19.CFGS), each at least once
    runs += [("wh_sync_mid:25000", 4 if quick else 16, 2), ("fin_sync:25000", 2 if quick else 8, 3), ("ce_sync:25000", 2 if quick else 8, 4)]
    for ys, nr, off in runs:
        wd = os.path.join(sc, "srv%d" % off)
        os.makedirs(wd, exist_ok=True)
        tf = os.path.join(wd, "traces.ndjson")
        env = {common.GUARD: "1", "REBOUND_VERIF_TRACE": os.path.join(wd, "hook.txt")}
        if ys:
            env["REBOUND_VERIF_YIELD"] = ys
        r = common.run_worker(os.path.join(HERE, "w_c19.py"), ["server", tf, str(common.seed() * 10 + off), str(nr), wd], env=env, timeout=3000)
        if r.returncode != 0:
            if r.returncode < 0:
                rep.violation("crash:server:%s" % ys, "real code crashed (signal %d) while serving requests during integration (yield %r)" % (-r.returncode, ys), {"stderr": r.stderr[-1500:]})
                continue
            raise MachineryError("server worker failed (%s): %s" % (ys, r.stderr[-2500:]))
        if not os.path.exists(os.path.join(wd, "hook.txt")) or not os.path.getsize(os.path.join(wd, "hook.txt")):
            raise MachineryError("no hook output (hook layer not compiled in?)")
        for ln in open(tf):
            tr = json.loads(ln)
            nserved += tr["nserved"]
            if not tr["transparent"]:
                rep.violation("transparent:%s" % tr["cfg"]["integrator"], "serving requests changed the trajectory: %s exact=%s yield=%r final bits differ from the unserved run" % (tr["cfg"], tr["exact"], ys), tr)
        tot += check_traces(rep, tf, sc, ys.split(":")[0] or "plain")
        if not ys:
            tr = json.loads(open(tf).readline())
            rep.sample({"kind": "code->spec schedule", "cfg": tr["cfg"], "events_head": [(e["e"], e["k"]) for e in tr["events"][:12]], "bodies": tr["nserved"]})
    rep.add(traces_validated_against_impl=tot, evaluations=nserved)
    rep.cov["served_bodies_checked"] = nserved
    # ---- E3b independent simulations
    out = os.path.join(sc, "threads.json")
    r = common.run_worker(os.path.join(HERE, "w_c19.py"), ["threads", out, str(common.seed()), "3" if quick else "15"], timeout=3000)
    if r.returncode != 0:
        if r.returncode < 0:
            rep.violation("crash:threads", "real code crashed (signal %d) running independent simulations in parallel threads" % -r.returncode, {"stderr": r.stderr[-1500:]})
        else:
            raise MachineryError("threads worker failed: %s" % r.stderr[-2500:])
    else:
        o = json.load(open(out))
        rep.cov["python_threads"] = {"rounds": o["rounds"], "items": o["items"], "mismatches": len(o["mismatches"])}
        for mm in o["mismatches"][:3]:
            rep.violation("threads:py:%s" % mm["cfg"]["integrator"], "a simulation (%s) run concurrently with others in Python threads differs bitwise from the same run alone" % mm["cfg"], mm)
    exe = common.build_cdriver("c19drv", "o3")
    p = subprocess.run([exe, "6" if quick else "40", str(common.seed())], capture_output=True, text=True, timeout=3000)
    if p.returncode < 0:
        rep.violation("crash:cthreads", "C thread driver crashed (signal %d)" % -p.returncode, {"stderr": p.stderr[-1500:]})
    else:
        mm = re.findall(r"MISMATCH kind=(\d+) round=(\d+)", p.stdout)
        m = re.search(r"DONE items=(\d+) mismatches=(\d+)", p.stdout)
        if not m:
            raise MachineryError("c19drv produced no summary: %s" % (p.stdout + p.stderr)[-800:])
        rep.cov["c_threads"] = {"items": int(m.group(1)), "mismatches": int(m.group(2))}
        rep.add(evaluations=int(m.group(1)))
        for kind, rd in mm[:3]:
            rep.violation("threads:c:kind%s" % kind, "simulation kind %s (see harness/cdrv/c19drv.c) run concurrently with others in pthreads differs bitwise from the same run alone" % kind, {"kind": kind, "round": rd})
    if not quick:
        exe = common.build_cdriver("c19drv", "tsan")
        p = subprocess.run([exe, "2", str(common.seed())], capture_output=True, text=True, timeout=3000,
                           env=dict(os.environ, TSAN_OPTIONS="halt_on_error=0 report_signal_unsafe=0 exitcode=0"))
        blocks = re.split(r"(?=WARNING: ThreadSanitizer)", p.stderr)
        real = [b for b in blocks if b.startswith("WARNING: ThreadSanitizer") and "reb_sigint" not in b and "reb_verif_" not in b]
        rep.cov["tsan"] = {"reports": len([b for b in blocks if b.startswith("WARNING")]), "ignored_global_sigint_flag": len(blocks) - 1 - len(real), "other": len(real)}
        for b in real[:2]:
            loc = re.search(r"Location is (.*)", b)
            rep.violation("tsan:%s" % (loc.group(1)[:60] if loc else "race"), "ThreadSanitizer: independent simulations in different threads touch shared memory: %s" % (loc.group(1) if loc else b[:300]), {"report": b[:3000]})
    rep.add(distinct_nontrivial=tot, rule="one trace per served integration (12 integrator configurations x exact_finish_time, plus runs with yields inside the synchronisations); "
            "non-trivial = at least one request served while the integration was running", exhaustive=False)
    rep.assumptions += ["thread schedules of independent simulations are sampled, not enumerated", "request arrival times are seeded random plus yield-forced windows",
                        "the global SIGINT flag reb_sigint is shared by design and ignored in TSan reports",
                        "a body served right after check_exit's synchronisation (synchronised form of the boundary state) counts as a boundary state when its continuation is bit-identical"]
    shutil.rmtree(sc, ignore_errors=True)


def replay(path):
    print(json.dumps(json.load(open(path)), indent=1)[:4000])
    return 0
