"""C18 worker: Python view (ctypes introspection), executed write/read matrix, option round trips.

 usage: w_c18.py <cview.json> <options.json> <enumvals.json> <out.ndjson>
   cview.json   {C struct name: {"size": n, "members": [[name, off, size, kind], ...]}}   (from generated C programs)
   options.json [ {owner, attr, pairs:[[name, symbol],...]} ]                               (from Mirror.tla via TLC)
   enumvals.json {symbol: int}                                                               (from a generated C program)
"""
import ctypes
import inspect
import json
import struct
import sys
import warnings

import rebound
from rebound import clibrebound

warnings.simplefilter("ignore")

CLASS2C = {"Simulation": "reb_simulation", "Particle": "reb_particle", "Orbit": "reb_orbit", "Rotation": "reb_rotation",
           "Vec3d": "reb_vec3d", "Vec3dBasic": "reb_vec3d", "Vec6d": "reb_vec6d", "CollisionS": "reb_collision", "timeval": "reb_timeval",
           "ServerData": "reb_server_data", "Simulationarchive": "reb_simulationarchive", "Variation": "reb_variational_configuration",
           "BinaryFieldDescriptor": "reb_binary_field_descriptor", "HashPointerPair": "reb_hash_pointer_pair", "ODE": "reb_ode",
           "ParticleInt": "reb_particle_int", "reb_dp7": "reb_dp7", "dp7": "reb_dp7", "DisplaySettings": "reb_display_settings",
           "Mat4df": "reb_mat4df", "Vec3df": "reb_vec3df", "Vec4df": "reb_vec4df", "Orbit_Basic": "reb_orbit"}


def classes():
    seen = {}
    mods = [m for n, m in sys.modules.items() if n == "rebound" or n.startswith("rebound.")]
    for m in mods:
        for n, obj in inspect.getmembers(m, inspect.isclass):
            if issubclass(obj, ctypes.Structure) and obj is not ctypes.Structure and hasattr(obj, "_fields_"):
                seen[obj.__name__] = obj
    return seen


def cname(cls):
    n = cls.__name__
    if n in CLASS2C:
        return CLASS2C[n]
    if n.startswith("Integrator"):
        return "reb_integrator_" + n[len("Integrator"):].lower()
    return None


def pykind(t):
    if isinstance(t, type):
        if issubclass(t, (ctypes.c_double, ctypes.c_float, ctypes.c_longdouble)):
            return "float"
        if issubclass(t, (ctypes.c_int, ctypes.c_long, ctypes.c_longlong, ctypes.c_short, ctypes.c_byte, ctypes.c_int32, ctypes.c_int64, ctypes.c_ssize_t)):
            return "int"
        if issubclass(t, (ctypes.c_uint, ctypes.c_ulong, ctypes.c_ulonglong, ctypes.c_ushort, ctypes.c_ubyte, ctypes.c_uint32, ctypes.c_uint64, ctypes.c_size_t, ctypes.c_char, ctypes.c_bool)):
            return "int"
        if issubclass(t, ctypes.Structure):
            return "struct"
        if issubclass(t, ctypes.Array):
            return "array"
        if issubclass(t, (ctypes._Pointer, ctypes.c_void_p, ctypes.c_char_p, ctypes._CFuncPtr)):
            return "ptr"
    return "ptr" if "CFunctionType" in repr(t) or "LP_" in repr(t) else "other"


def rw(cls, pyname, off, size, ckind):
    """cross write/read with two bit patterns; ints and floats only"""
    if ckind not in ("int", "uint", "float") or size not in (4, 8):
        return "skip"
    buf = ctypes.create_string_buffer(ctypes.sizeof(cls))
    try:
        obj = cls.from_buffer(buf)         # a zeroed block: no constructor, no library state behind it
    except Exception:  # noqa: BLE001
        return "skip"
    base = ctypes.addressof(obj)
    KEEP.append((obj, buf))
    fmt = {("float", 8): "d", ("float", 4): "f", ("int", 4): "i", ("int", 8): "q", ("uint", 4): "I", ("uint", 8): "Q"}[(ckind, size)]
    pats = [1.5, -2.25] if ckind == "float" else [0x5A5A5A, 0x333331]
    for v in pats:
        # Python -> C
        try:
            setattr(obj, pyname, v)
        except Exception:  # noqa: BLE001
            ctypes.memset(base, 0, ctypes.sizeof(cls))
            return "py-write-failed"
        got = struct.unpack(fmt, ctypes.string_at(base + off, size))[0]
        if got != v:
            ctypes.memset(base, 0, ctypes.sizeof(cls))
            return "py->c mismatch (wrote %r, C member holds %r)" % (v, got)
        # C -> Python
        w = v * 2 if ckind != "float" else v * 2
        ctypes.memmove(base + off, struct.pack(fmt, w), size)
        back = getattr(obj, pyname)
        if hasattr(back, "value"):
            back = back.value
        if back != w:
            ctypes.memset(base, 0, ctypes.sizeof(cls))
            return "c->py mismatch (C member set to %r, Python reads %r)" % (w, back)
    ctypes.memset(base, 0, ctypes.sizeof(cls))
    return "ok"


KEEP = []


def main():
    cview = json.load(open(sys.argv[1]))
    options = json.load(open(sys.argv[2]))
    enumvals = json.load(open(sys.argv[3]))
    out = open(sys.argv[4], "w")
    unmapped = []
    for name, cls in sorted(classes().items()):
        cn = cname(cls)
        if cn is None or cn not in cview:
            unmapped.append(name)
            continue
        cm = {m[0]: m for m in cview[cn]["members"]}
        pairs, unmatched, renamed, signs = [], [], [], []
        for fld in cls._fields_:
            pyname, t = fld[0], fld[1]
            d = getattr(cls, pyname)
            key = pyname.lstrip("_")
            if key not in cm and pyname in cm:
                key = pyname
            if key not in cm:
                # renamed on the Python side: accept iff its bytes are exactly tiled by consecutive C members
                lo, hi = d.offset, d.offset + d.size
                tiles = sorted([m for m in cview[cn]["members"] if lo <= m[1] and m[1] + m[2] <= hi], key=lambda m: m[1])
                pos = lo
                for m in tiles:
                    if m[1] != pos:
                        break
                    pos = m[1] + m[2]
                if tiles and pos == hi:
                    renamed.append([pyname, [m[0] for m in tiles]])
                else:
                    unmatched.append(pyname)
                continue
            c = list(cm[key])
            ckind_rw = c[3]
            # signedness: compared separately from the layout (reported under its own key per field)
            pysigned = None
            try:
                if issubclass(t, ctypes._SimpleCData) and t._type_ in "bhilqBHILQ?":
                    pysigned = t._type_ in "bhilq"
            except TypeError:
                pass
            csigned = True if c[3] == "int" else False if c[3] == "uint" else None
            if pysigned is not None and csigned is not None and pysigned != csigned and not pyname.startswith("_"):
                signs.append([name, pyname, "signed" if pysigned else "unsigned", "signed" if csigned else "unsigned"])
            if c[3] == "uint":
                c[3] = "int"
            p = [pyname, d.offset, d.size, pykind(t)]
            pairs.append({"c": c, "p": p, "rw": rw(cls, pyname, c[1], c[2], ckind_rw if pykind(t) != "int" or ckind_rw != "uint" else "int")})
        out.write(json.dumps({"kind": "struct", "py": name, "cstruct": cn, "pairs": pairs, "unmatched": unmatched, "renamed": renamed, "signs": signs,
                              "csize": cview[cn]["size"], "psize": ctypes.sizeof(cls)}) + "\n")
    # options
    sim = rebound.Simulation()
    for o in options:
        owner = sim if o["owner"] == "sim" else getattr(sim, o["owner"])
        ocls = type(owner)
        cn = cname(ocls)
        cm = {m[0]: m for m in cview[cn]["members"]}
        cmem = cm[o["attr"]]
        rows = []
        for nm, sym in o["pairs"]:
            row = {"name": nm, "symbol": sym}
            try:
                setattr(owner, o["attr"], nm)
            except Exception as e:  # noqa: BLE001
                row.update({"stored": -1, "expected": -2, "readback": "error: %s" % str(e)[:80]})
                rows.append(row)
                continue
            raw = ctypes.string_at(ctypes.addressof(owner) + cmem[1], cmem[2])
            if cmem[3] == "ptr":
                stored = struct.unpack("Q", raw)[0]
                expected = ctypes.cast(getattr(clibrebound, sym), ctypes.c_void_p).value
                row.update({"stored": stored % (1 << 30), "expected": expected % (1 << 30), "readback": "n/a"})
            else:
                stored = struct.unpack("i" if cmem[2] == 4 else "q", raw)[0]
                try:
                    rb = getattr(owner, o["attr"])
                except Exception as e:  # noqa: BLE001
                    rb = "error: %s" % str(e)[:80]
                row.update({"stored": stored, "expected": enumvals.get(sym, -12345), "readback": rb if isinstance(rb, str) else repr(rb)})
            rows.append(row)
            # the same option selected by its integer value: the same member must end up holding it, and no other byte of the structure may change
            if cmem[3] != "ptr" and sym in enumvals:
                try:
                    other = [r_[0] for r_ in o["pairs"] if r_[0] != nm]
                    if other:
                        setattr(owner, o["attr"], other[0])
                    before = ctypes.string_at(ctypes.addressof(owner), ctypes.sizeof(ocls))
                    setattr(owner, o["attr"], int(enumvals[sym]))
                    after = ctypes.string_at(ctypes.addressof(owner), ctypes.sizeof(ocls))
                    changed = [k for k in range(len(before)) if before[k] != after[k]]
                    outside = [k for k in changed if not (cmem[1] <= k < cmem[1] + cmem[2])]
                    st2 = struct.unpack("i" if cmem[2] == 4 else "q", after[cmem[1]:cmem[1] + cmem[2]])[0]
                    rb2 = getattr(owner, o["attr"])
                    if outside or st2 != enumvals[sym] or rb2 != nm:
                        rows.append({"name": nm + " (by value %d)" % enumvals[sym], "symbol": sym, "stored": st2 if not outside else -3, "expected": enumvals[sym],
                                     "readback": ("bytes outside the member changed at offsets %s" % outside[:4]) if outside else repr(rb2)})
                    else:
                        rows.append({"name": nm, "symbol": sym, "stored": st2, "expected": enumvals[sym], "readback": nm})
                except Exception as e:  # noqa: BLE001
                    rows.append({"name": nm + " (by value)", "symbol": sym, "stored": -1, "expected": -2, "readback": "error: %s" % str(e)[:80]})
        out.write(json.dumps({"kind": "options", "owner": o["owner"], "attr": o["attr"], "rows": rows}) + "\n")
    # integrator shortcut names select a scheme together with its options: what they leave behind does not depend on what was selected before
    names = ["wh", "whc", "whckl", "whckm", "whckc", "saba(10,6,4)", "sabacl4", "saba1", "whfast", "saba", "ias15"]
    short = [n for n in names if n not in ("whfast", "saba", "ias15")]

    def snap(sm):
        return {"integrator": sm.integrator, "whfast.corrector": int(sm.ri_whfast.corrector), "whfast.kernel": sm.ri_whfast.kernel, "saba.type": sm.ri_saba.type}
    rows = []
    for b in short:
        fresh = rebound.Simulation()
        fresh.integrator = b
        want = snap(fresh)
        keys = ["integrator", "whfast.corrector", "whfast.kernel"] if b.startswith("wh") else ["integrator", "saba.type"]
        for a in names:
            if a == b:
                continue
            sm = rebound.Simulation()
            try:
                sm.integrator = a
                sm.integrator = b
                got = snap(sm)
            except Exception as e:  # noqa: BLE001
                got = {"error": str(e)[:80]}
            rows.append({"first": a, "then": b, "got": {k: got.get(k) for k in keys}, "want": {k: want[k] for k in keys}})
    json.dump({"kind": "shortcuts", "rows": rows}, open(sys.argv[4] + ".shortcuts", "w"))
    out.close()
    print(json.dumps({"unmapped_classes": unmapped}))


if __name__ == "__main__":
    main()
