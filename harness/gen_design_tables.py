"""Rewrite the seeded-change table of DESIGN.md (section 9.4) from /verif/seeded/*/meta.json."""
import glob
import json
import os
import re

V = os.path.dirname(os.path.dirname(os.path.abspath(__file__)))
rows = []
for d in sorted(glob.glob(os.path.join(V, "seeded", "*"))):
    m = json.load(open(os.path.join(d, "meta.json")))
    notes = open(os.path.join(d, "notes.md")).read() if os.path.exists(os.path.join(d, "notes.md")) else ""
    title = notes.splitlines()[0] if notes else ""
    title = re.sub(r"^#\s*C\d\d\s*/?\s*m\d\s*[-—–]+\s*", "", title).replace("|", "/")
    files = re.findall(r"^\+\+\+ b/(\S+)", open(os.path.join(d, "patch.diff")).read(), re.M)
    how = (m.get("how") or "").replace("|", "/")
    rows.append("| %s | %s (`%s`) | %s |" % (m["id"], title, ",".join(files), how))
p = os.path.join(V, "DESIGN.md")
s = open(p).read()
a = s.index("| id | change (file) | detected by |")
b = s.index("\n\n", a)
s = s[:a] + "| id | change (file) | detected by |\n|---|---|---|\n" + "\n".join(rows) + s[b:]
open(p, "w").write(s)
print(len(rows), "rows")
