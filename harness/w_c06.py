"""C06 worker: seeded random histories of user operations interleaved with snapshot appends on real
simulations; after every append the archive file is parsed into field records and snapshots are
reloaded through the library.  One NDJSON line per history for Trace_ArchiveDelta.

 usage: w_c06.py <out.ndjson> <seed> <nhist> <nsnap> <reload all|some> <dir>
"""
import ctypes
import json
import os
import random
import sys
import warnings
from ctypes import byref

import rebound
from rebound import clibrebound
import project as P

INTEGRATORS = ["whfast", "ias15", "leapfrog", "mercurius", "janus", "bs", "saba", "eos", "sei", "trace", "whfast"]


def new_sim(rng):
    sim = rebound.Simulation()
    sim.add(m=1.0)
    for k in range(rng.randrange(1, 4)):
        sim.add(m=10 ** rng.uniform(-6, -3), a=1.0 + 0.7 * k + rng.random() * 0.2, e=rng.random() * 0.1, inc=rng.random() * 0.05,
                f=rng.random() * 6)
    sim.move_to_com()
    sim.integrator = rng.choice(INTEGRATORS)
    sim.dt = 0.01 * (1 + rng.random())
    sim.t = rng.choice([0.0, 1.5, -2.25, 100.0])      # the first snapshot need not be at t = 0
    if sim.integrator in ("ias15", "bs", "leapfrog", "whfast") and rng.random() < 0.3:
        sim.add_variation()                             # variational configurations already in the first snapshot
    note(["new_sim", sim.integrator, sim.N])
    return sim


PROG = None
T_FIRST = [None]


def note(x):
    if PROG:
        PROG.write(json.dumps(x) + "\n")
        PROG.flush()


def do_op(sim, rng, log):
    n0 = len(log)
    _do_op(sim, rng, log)
    note(log[n0:])


def _do_op(sim, rng, log):
    r = rng.random()
    with warnings.catch_warnings():
        warnings.simplefilter("ignore")
        try:
            if sim.N_var > 0 and sim.N > 0 and rng.random() < 0.15:
                # a variational coordinate beyond 1e100 is rescaled at the end of the next step: the configuration's accumulator changes
                idx = sim.var_config[0].index
                sim.particles[idx].x = 3e100 * (1.0 + rng.random())
                sim.steps(1)
                log.append(["var_rescale", sim.var_config[0]._lrescale])
            elif r < 0.30 and sim.N > 0:   # stepping an empty simulation is outside this property
                k = rng.randrange(1, 6)
                note(["about-to-step", k, sim.integrator, sim.N])
                sim.steps(k)
                log.append(["steps", k])
            elif r < 0.42 and sim.N_var == 0:   # real particles are added before variational ones (documented order)
                sim.add(m=10 ** rng.uniform(-7, -4), a=3.0 + rng.random() * 4 + sim.N, e=rng.random() * 0.05, f=rng.random() * 6, primary=sim.particles[0] if sim.N > 0 else None) if sim.N > 0 else sim.add(m=1.0)
                log.append(["add"])
            elif r < 0.52 and sim.N > 1 and sim.N_var == 0:
                i = rng.randrange(1, sim.N)
                sim.remove(i)
                log.append(["remove", i])
            elif r < 0.56 and sim.N_var == 0:
                del sim.particles
                log.append(["remove_all"])
                if rng.random() < 0.7:
                    sim.add(m=1.0)
                    sim.add(m=1e-4, a=1.3)
                    log.append(["readd"])
            elif r < 0.70:
                # (with variational particles only integrators whose gravity routine implements the variational
                #  equations are in contract: MERCURIUS / TRACE gravity terminates the process otherwise)
                wh_ok = sim.ri_whfast.coordinates == "jacobi"      # WHFast supports variational particles in Jacobi coordinates only
                name = rng.choice(INTEGRATORS if sim.N_var == 0 else (["whfast"] if wh_ok else []) + ["ias15", "bs", "leapfrog"])
                sim.integrator = name
                log.append(["integrator", name])
            elif r < 0.78:
                sim.reset_integrator() if hasattr(sim, "reset_integrator") else clibrebound.reb_simulation_reset_integrator(byref(sim))
                log.append(["reset_integrator"])
            elif r < 0.86:
                which = rng.randrange(5)
                if which == 0:
                    sim.dt *= rng.choice([0.5, 2.0, 1.25])
                elif which == 1:
                    sim.ri_whfast.safe_mode = rng.randrange(2)
                elif which == 2 and sim.N_var == 0:
                    sim.ri_whfast.coordinates = rng.choice(["jacobi", "democraticheliocentric", "whds", "barycentric"])
                elif which == 3:
                    sim.ri_ias15.epsilon = rng.choice([1e-9, 1e-8, 0.0])
                else:
                    sim.ri_mercurius.safe_mode = rng.randrange(2)
                log.append(["option", which])
            elif r < 0.90 and sim.N >= 2 and sim.N_var == 0 and sim.integrator in ("ias15", "whfast", "bs") and (sim.integrator != "whfast" or sim.ri_whfast.coordinates == "jacobi"):
                sim.add_variation()
                log.append(["add_variation"])
            elif r < 0.93:
                sim.N_active = rng.choice([-1, max(1, sim.N - 1)]) if sim.N_var == 0 else sim.N_active
                log.append(["n_active", sim.N_active])
            elif r < 0.96 and T_FIRST[0] is not None:
                sim.t = T_FIRST[0]              # the clock set back to exactly the time of the first snapshot (e.g. after integrating there and back)
                log.append(["time_of_first"])
            else:
                sim.t += 0.0
                log.append(["noop"])
        except (RuntimeError, ValueError, AttributeError) as e:
            log.append(["op_error", str(e)[:80]])


_CNT = None


def counts(sim):
    """element counts of all persisted arrays as they stand in memory (the stream does not show the count of an empty array)"""
    global _CNT
    if _CNT is None:
        seen = {}
        for d in P.descriptors():
            if d["offset_N"] and d["offset_N"] not in seen:
                seen[d["offset_N"]] = d["name"]
        _CNT = sorted(seen.items())
    base = ctypes.addressof(sim)
    return [[nm, ctypes.c_uint.from_address(base + off).value] for off, nm in _CNT]


def recs(fields, intern):
    return P.field_records(fields, intern)


def history(rng, fn, nsnap, reload_all):
    intern = P.Interner()
    sim = new_sim(rng)
    if os.path.exists(fn):
        os.remove(fn)
    events = []
    ghosts = []
    oplog = []
    tlist = []
    clist = []
    T_FIRST[0] = None
    for k in range(nsnap):
        # (operations also before the first snapshot: the first snapshot should already hold integrator arrays that can
        #  later shrink, grow or disappear)
        if k > 0 or rng.random() < 0.7:
            if k == 0 and sim.N > 0:
                sim.steps(rng.randrange(1, 4))
                oplog.append(["steps-before-first"])
            for _ in range(rng.randrange(0, 4)):
                do_op(sim, rng, oplog)
        with warnings.catch_warnings():
            warnings.simplefilter("ignore")
            live = P.stream_bytes(sim)
            lf, _, ok = P.parse_fields(live, P.HEADER)
            t_live = sim.t
            try:
                note(["save", k])
                sim.save_to_file(fn)
            except RuntimeError as e:
                events.append({"k": k, "save_error": str(e)[:100]})
                break
        ghosts.append(recs(lf, intern))
        tlist.append(t_live)
        if k == 0:
            T_FIRST[0] = t_live
        clist.append(counts(sim))
        buf = open(fn, "rb").read()
        blobs = P.parse_archive(buf)
        ev = {"k": k, "ops": oplog, "cur": ghosts[k], "nblobs_file": len([b for b in blobs if b["complete"] and b["trailer"] is not None]),
              "wellformed": all(b["complete"] and b["trailer"] is not None for b in blobs) and blobs[-1]["end"] == len(buf)}
        oplog = []
        ev["first"] = recs(blobs[0]["fields"], intern)
        ev["delta"] = recs(blobs[k]["fields"], intern) if k > 0 and k < len(blobs) else []
        ev["trailers"] = [list(b["trailer"]) if b["trailer"] else None for b in blobs]
        ev["blobsizes"] = [b["end"] - b["offset"] for b in blobs]
        # reader view
        loaded = []
        with warnings.catch_warnings():
            warnings.simplefilter("ignore")
            try:
                sa = rebound.Simulationarchive(fn)
                ev["nblobs"] = len(sa)
                # count, the time of the loaded snapshot, and the archive's index of per-snapshot times
                ev["t_ok"] = (len(sa) == k + 1 and sa[k].t == t_live and all(sa.t[j] == tlist[j] for j in range(len(sa)))
                              and sa.tmin == tlist[0] and sa.tmax == tlist[-1])       # (tmin / tmax are the first / last snapshot's times)
                which = range(k + 1) if reload_all else sorted({k, rng.randrange(k + 1)})
                for j in which:
                    s2 = sa[j]
                    if counts(s2) != clist[j]:
                        ev["t_ok"] = False
                        ev["count_mismatch"] = [[a, b] for a, b in zip(counts(s2), clist[j]) if a != b][:4]
                    lf2, _, _ = P.parse_fields(P.stream_bytes(s2), P.HEADER)
                    loaded.append([j, recs(lf2, intern)])
                del sa
            except Exception as e:
                ev["open_error"] = "%s: %s" % (type(e).__name__, str(e)[:100])
        ev["loaded"] = loaded
        ev["ghosts"] = [[j, ghosts[j]] for j, _ in loaded]
        events.append(ev)
    if os.path.exists(fn):
        os.remove(fn)
    return events


def long_archive(out, d):
    """one archive with more snapshots than the reader's initial index (1024 entries): manual appends followed by step-count snapshots"""
    fn = os.path.join(d, "long_%d.bin" % os.getpid())
    if os.path.exists(fn):
        os.remove(fn)
    sim = rebound.Simulation()
    sim.add(m=1.0)
    sim.add(m=1e-3, a=1.0, e=0.1)
    sim.integrator = "whfast"
    sim.dt = 0.01
    sim.t = 3.0
    ts = []
    for k in range(700):
        sim.save_to_file(fn)
        ts.append(sim.t)
        sim.steps(1 + k % 3)
    sim.save_to_file(fn, step=2)         # automatic snapshots every 2 steps from here on (the first one right away)
    first_auto = sim.t
    sim.integrate(sim.t + 2 * 450 * sim.dt - sim.dt / 2, exact_finish_time=0)      # 900 steps; snapshots are taken from integrate()'s loop
    ts += [first_auto + 0.0] * 0
    res = {"written_manual": 700}
    with warnings.catch_warnings():
        warnings.simplefilter("ignore")
        sa = rebound.Simulationarchive(fn)
        n = len(sa)
        res["n"] = n
        res["expected_n"] = 700 + 451
        idx = [sa.t[k] for k in range(n)]
        res["manual_times_ok"] = idx[:700] == ts
        res["monotone"] = all(idx[k] < idx[k + 1] for k in range(n - 1))
        res["tmax_is_last_state"] = (sa.tmax == sim.t) and (n > 0 and sa[-1].t == sim.t)
        res["default_load_is_last"] = rebound.Simulation(fn).t == sim.t
        probe = [0, 699, 700, 1022, 1023, 1024, 1025, n - 1]
        res["loaded_times_ok"] = all(0 <= k < n and sa[k].t == idx[k] for k in probe)
        res["sample"] = {"n": n, "t_last_live": sim.t, "t_last_index": idx[-1] if idx else None}
        del sa
    os.remove(fn)
    json.dump(res, open(out, "w"))


if __name__ == "__main__":
    if sys.argv[1] == "long":
        long_archive(sys.argv[2], sys.argv[3])
        sys.exit(0)
    out, seed, nhist, nsnap, mode, d = sys.argv[1], int(sys.argv[2]), int(sys.argv[3]), int(sys.argv[4]), sys.argv[5], sys.argv[6]
    rng = random.Random(seed)
    PROG = open(out + ".progress", "w")
    with open(out, "w") as fh:
        fh.write(json.dumps({"meta": {"NF": P.rank_of_type()["NF"], "ptr": P.pointer_ranks()}, "events": []}) + "\n")
        for h in range(nhist):
            note(["history", h])
            ev = history(rng, os.path.join(d, "h%d_%d.bin" % (os.getpid(), h)), nsnap, mode == "all")
            fh.write(json.dumps({"events": ev}) + "\n")
