"""C01 worker.  usage: w_c01.py <table.ndjson> <out.json> <seed> <tier>   (hooks on: REBOUND_VERIF_TRACE)"""
import ctypes
import json
import math
import os
import random
import sys
import warnings

TRACE = os.environ.get("REBOUND_VERIF_TRACE")
import rebound  # noqa: E402

warnings.simplefilter("ignore")


def hook_since(off, addr):
    out = []
    with open(TRACE) as fh:
        fh.seek(off)
        for line in fh.read().splitlines():
            p = line.split()
            if len(p) >= 3 and int(p[2], 16) == addr:
                out.append((p[0], [float(x) for x in p[3:]]))
    return out


def viol(res, kind, **kw):
    if len(res["violations"]) < 40:
        res["violations"].append(dict(kind=kind, **kw))


def mu_rows(res, rows):
    for d in rows:
        sim = rebound.Simulation()
        sim.G = 1.0
        m = d["m"]
        sim.add(m=float(m[0]))
        for i in range(1, 4):
            sim.add(m=float(m[i]), a=1.0 + 0.9 * i, e=0.05, f=0.7 * i, primary=sim.particles[0])
        if d["na"] < 4:
            sim.N_active = d["na"]
        sim.testparticle_hidewarnings = 1
        if d["coord"] == "mercurius":
            sim.integrator = "mercurius"
        else:
            sim.integrator = "whfast"
            sim.ri_whfast.coordinates = d["coord"]
        sim.dt = 0.01
        off = os.path.getsize(TRACE) if os.path.exists(TRACE) else 0
        sim.step()
        ev = [a for n, a in hook_since(off, ctypes.addressof(sim)) if n == "ksolve"]
        res["mu_rows"] += 1
        seen = {}
        for i, M, dt in ev:
            seen.setdefault(int(i), set()).add(M)
        for i in (1, 2, 3):
            want = float(d["mu"][i - 1])
            if seen.get(i) != {want}:
                viol(res, "kepler-mass", coord=d["coord"], masses=m, N_active=d["na"], body=i, used=sorted(seen.get(i, [])), specified=want)
                break
        if not ev:
            viol(res, "no-hook-events", coord=d["coord"])


def valid_rows(res, rows):
    for d in rows:
        sim = rebound.Simulation()
        sim.add(m=1.0)
        sim.add(m=1e-3, a=1.0)
        sim.add(m=1e-3, a=1.8)
        sim.integrator = "whfast"
        sim.ri_whfast.coordinates = d["coord"]
        sim.ri_whfast.kernel = d["kernel"]
        sim.ri_whfast.corrector = d["corr"]
        sim.dt = 0.01
        err = None
        try:
            sim.step()
        except Exception as e:  # noqa: BLE001
            err = str(e)[:100]
        res["valid_rows"] += 1
        if d["valid"] and err:
            viol(res, "valid-combination-refused", cfg=d, error=err)
        if not d["valid"] and not err:
            viol(res, "invalid-combination-accepted", cfg=d)


# ---------------- independent references
def kepler_state(mu, a, e, inc, Omega, omega, M):
    E = M
    for _ in range(60):
        E -= (E - e * math.sin(E) - M) / (1 - e * math.cos(E))
    x, y = a * (math.cos(E) - e), a * math.sqrt(1 - e * e) * math.sin(E)
    n = math.sqrt(mu / a ** 3)
    vx, vy = -a * n * math.sin(E) / (1 - e * math.cos(E)), a * n * math.sqrt(1 - e * e) * math.cos(E) / (1 - e * math.cos(E))
    cO, sO, co, so, ci, si = math.cos(Omega), math.sin(Omega), math.cos(omega), math.sin(omega), math.cos(inc), math.sin(inc)

    def rot(px, py):
        return (px * (cO * co - sO * so * ci) - py * (cO * so + sO * co * ci), px * (sO * co + cO * so * ci) - py * (sO * so - cO * co * ci), px * (so * si) + py * (co * si))
    return rot(x, y) + rot(vx, vy)


def rk4_nbody(state, masses, T, h):
    try:
        import numpy as np
    except ImportError:
        return rk4_nbody_py(state, masses, T, h)
    n = len(masses)
    m = np.array(masses, dtype=float)
    y = np.array(state, dtype=float).reshape(n, 6)
    steps = int(round(abs(T) / h))
    h = T / steps
    iu = np.triu_indices(n, 1)

    def deriv(y):
        x = y[:, :3]
        d = x[None, :, :] - x[:, None, :]          # d[i, j] = x_j - x_i
        r2 = (d * d).sum(axis=2)
        np.fill_diagonal(r2, 1.0)
        w = m[None, :] / (r2 * np.sqrt(r2))
        np.fill_diagonal(w, 0.0)
        out = np.empty_like(y)
        out[:, :3] = y[:, 3:]
        out[:, 3:] = (w[:, :, None] * d).sum(axis=1)
        return out
    for _ in range(steps):
        k1 = deriv(y)
        k2 = deriv(y + 0.5 * h * k1)
        k3 = deriv(y + 0.5 * h * k2)
        k4 = deriv(y + h * k3)
        y = y + h / 6 * (k1 + 2 * k2 + 2 * k3 + k4)
    return [float(v) for v in y.reshape(-1)]


def rk4_nbody_py(state, masses, T, h):
    n = len(masses)

    def acc(s):
        a = [0.0] * (3 * n)
        for i in range(n):
            for j in range(i + 1, n):
                dx, dy, dz = s[6 * j] - s[6 * i], s[6 * j + 1] - s[6 * i + 1], s[6 * j + 2] - s[6 * i + 2]
                r3 = (dx * dx + dy * dy + dz * dz) ** 1.5
                fi, fj = masses[j] / r3, masses[i] / r3
                a[3 * i] += fi * dx; a[3 * i + 1] += fi * dy; a[3 * i + 2] += fi * dz
                a[3 * j] -= fj * dx; a[3 * j + 1] -= fj * dy; a[3 * j + 2] -= fj * dz
        return a

    def deriv(s):
        a = acc(s)
        d = [0.0] * (6 * n)
        for i in range(n):
            d[6 * i:6 * i + 3] = s[6 * i + 3:6 * i + 6]
            d[6 * i + 3:6 * i + 6] = a[3 * i:3 * i + 3]
        return d
    steps = int(round(abs(T) / h))
    h = T / steps
    s = list(state)
    for _ in range(steps):
        k1 = deriv(s)
        k2 = deriv([x + 0.5 * h * k for x, k in zip(s, k1)])
        k3 = deriv([x + 0.5 * h * k for x, k in zip(s, k2)])
        k4 = deriv([x + h * k for x, k in zip(s, k3)])
        s = [x + h / 6 * (a + 2 * b + 2 * c + d) for x, a, b, c, d in zip(s, k1, k2, k3, k4)]
    return s


def set_opts(sim, name, opts):
    sim.integrator = name
    ri = getattr(sim, "ri_" + name, None)
    for k, v in opts.items():
        setattr(ri, k, v)


def two_body(res, tier):
    """star + planet: every Wisdom-Holman scheme in Jacobi or WHDS coordinates is exact here, so the state after many steps equals the analytic orbit to rounding;
    the others converge to it at their advertised order."""
    G, m0, m1 = 1.0, 1.0, 3e-3
    el = dict(a=1.2, e=0.3, inc=0.4, Omega=0.7, omega=1.1)
    M0 = 0.3
    n = math.sqrt(G * (m0 + m1) / el["a"] ** 3)
    # (democratic heliocentric, barycentric, MERCURIUS and TRACE use the mass parameter m0 and a jump term: not exact for two bodies,
    #  they are measured in order_runs instead)
    exact_cfgs = [("whfast", {"coordinates": c}) for c in ("jacobi", "whds")] + \
                 [("whfast", {"kernel": "lazy"}), ("whfast", {"kernel": "modifiedkick"}), ("whfast", {"kernel": "composition"}),
                  ("whfast", {"corrector": 11, "safe_mode": 0}), ("whfast", {"corrector": 17, "corrector2": 1, "safe_mode": 0}),
                  ("saba", {}), ("saba", {"type": "cl4"}), ("saba", {"type": "10,6,4"})]
    for sgn in (1, -1):
        T = sgn * 7.3
        rel = kepler_state(G * (m0 + m1), el["a"], el["e"], el["inc"], el["Omega"], el["omega"], M0 + n * T)
        for name, opts in exact_cfgs:
            sim = rebound.Simulation()
            sim.add(m=m0)
            sim.add(m=m1, M=M0, **el)
            set_opts(sim, name, opts)
            sim.dt = sgn * 0.0365
            sim.steps(200)
            sim.synchronize()
            p, s = sim.particles[1], sim.particles[0]
            got = (p.x - s.x, p.y - s.y, p.z - s.z, p.vx - s.vx, p.vy - s.vy, p.vz - s.vz)
            err = max(abs(a - b) for a, b in zip(got, rel))
            res["two_body"] += 1
            res["observed"]["2body %s %s dir%+d" % (name, opts, sgn)] = err
            if not err <= 1e-10:
                viol(res, "two-body-exactness", integrator=name, opts=opts, direction=sgn, error=err)


def tolerance_sweep(res):
    """adaptive schemes against the analytic two-body orbit over several eccentric orbits (the step-size controller is at work the whole
    time): the error is within the class of the tolerance and never grows when the tolerance is tightened"""
    G, m0, m1 = 1.0, 1.0, 3e-3
    el = dict(a=1.0, e=0.7, inc=0.4, Omega=0.7, omega=1.1)
    M0 = 0.3
    n = math.sqrt(G * (m0 + m1) / el["a"] ** 3)
    sweeps = [("ias15", {"adaptive_mode": am}, "epsilon", ((1e-5, 1e-4), (1e-7, 1e-6), (1e-9, 1e-9), (1e-11, 1e-9), (1e-13, 1e-9)) if am >= 2 else ((1e-5, 1e-3), (1e-7, 1e-5), (1e-9, 1e-8), (1e-10, 1e-8)))
              for am in (2, 3, 0, 1)] + [("bs", {}, "eps", ((1e-5, 1e-2), (1e-8, 1e-5), (1e-11, 1e-8)))]
    for sgn in (1, -1):
        T = sgn * 3.3 * 2 * math.pi / n
        rel = kepler_state(G * (m0 + m1), el["a"], el["e"], el["inc"], el["Omega"], el["omega"], M0 + n * T)
        for name, opts, key, levels in sweeps:
            errs = []
            for tol, cls in levels:
                sim = rebound.Simulation()
                sim.add(m=m0)
                sim.add(m=m1, M=M0, **el)
                o = dict(opts)
                if key == "epsilon":
                    o["epsilon"] = tol
                else:
                    o["eps_rel"] = o["eps_abs"] = tol
                set_opts(sim, name, o)
                sim.dt = sgn * 0.01
                sim.integrate(T)
                p, st = sim.particles[1], sim.particles[0]
                got = (p.x - st.x, p.y - st.y, p.z - st.z, p.vx - st.vx, p.vy - st.vy, p.vz - st.vz)
                errs.append(max(abs(a - b) for a, b in zip(got, rel)))
                res["order_runs"] += 1
            res["observed"]["tolerance sweep %s %s dir%+d" % (name, opts, sgn)] = errs
            for k, (tol, cls) in enumerate(levels):
                if not errs[k] <= cls:
                    viol(res, "adaptive-accuracy", integrator=name, opts=opts, direction=sgn, tolerance=tol, error=errs[k], accuracy_class=cls, sweep=errs)
                    break
                if k and not errs[k] <= max(3.0 * errs[k - 1], 1e-10):
                    viol(res, "adaptive-accuracy", integrator=name, opts=opts, direction=sgn, tolerance=tol, error=errs[k], error_at_looser_tolerance=errs[k - 1], sweep=errs)
                    break


def measure(res, cfgs, masses, s0, refs, T, tag, dirs, accbound=5e-4, setup=None, frame=None):
    """error at three step sizes against the reference; observed order >= advertised - 0.7 above the rounding floor"""
    nb = len(masses)
    floor = 3e-11

    def raw(name, opts, sgn, n, G=1.0):
        sim = rebound.Simulation()
        sim.G = G
        for i, m in enumerate(masses):
            sim.add(m=m / G, x=s0[6 * i], y=s0[6 * i + 1], z=s0[6 * i + 2], vx=s0[6 * i + 3], vy=s0[6 * i + 4], vz=s0[6 * i + 5])
        if setup:
            setup(sim)
        if frame:           # the same system seen from a displaced, uniformly moving frame
            for p in sim.particles:
                p.x += frame[0][0]
                p.y += frame[0][1]
                p.z += frame[0][2]
                p.vx += frame[1][0]
                p.vy += frame[1][1]
                p.vz += frame[1][2]
        set_opts(sim, name, opts)
        sim.dt = sgn * T / n
        sim.steps(n)
        sim.synchronize()
        got = []
        for p in sim.particles:
            if frame:
                got += [p.x - frame[0][0] - frame[1][0] * sim.t, p.y - frame[0][1] - frame[1][1] * sim.t, p.z - frame[0][2] - frame[1][2] * sim.t]
            else:
                got += [p.x, p.y, p.z]
        return got

    def one(name, opts, sgn, n):
        got = raw(name, opts, sgn, n)
        ref = [refs[sgn][6 * i + k] for i in range(nb) for k in range(3)]
        return max(abs(a - b) for a, b in zip(got, ref))

    def gscale(name, opts, sgn, n):
        """the same system in units with G = 4 and all masses / 4: every product G m is the same binary64 number"""
        a, b = raw(name, opts, sgn, n), raw(name, opts, sgn, n, G=4.0)
        return max(abs(x - y) for x, y in zip(a, b))
    for sgn in dirs:
        for name, opts, want, n0 in cfgs:
            try:
                errs = [one(name, opts, sgn, n) for n in (n0, 2 * n0, 4 * n0)]
            except Exception as ex:  # noqa: BLE001
                viol(res, "run-failed", integrator=name, opts=opts, error=str(ex)[:100])
                continue
            res["order_runs"] += 1
            orders = [math.log2(errs[k] / errs[k + 1]) if errs[k + 1] > 0 else 99.0 for k in range(2)]
            lab = "%s%s %s dir%+d" % (tag, name, {k: v for k, v in opts.items() if not k.startswith("scale")}, sgn)
            gd = gscale(name, opts, sgn, n0)
            res["gscale_max"] = max(res.get("gscale_max", 0.0), gd)
            if gd > GSCALE_TOL:
                viol(res, "G-scaling", integrator=name, opts=opts, direction=sgn, difference=gd, system=tag,
                     clause="the trajectory depends on G and the masses only through the products G m (units with G = 4, masses / 4)")
            if len(res["observed"]) < 400:
                res["observed"]["order " + lab] = [round(o, 2) for o in orders] + [errs[-1]]
            measurable = [o for o, e in zip(orders, errs[1:]) if e > floor]
            if measurable and max(measurable) < want - 0.4:
                # possibly pre-asymptotic (two error terms of different order cancelling at the coarse end): refine further; a real
                # loss of order persists, so the verdict is taken from the two finest slopes that are still above the rounding floor
                n = 4 * n0
                while len(errs) < 6 and errs[-1] > floor:
                    n *= 2
                    errs.append(one(name, opts, sgn, n))
                    orders.append(math.log2(errs[-2] / errs[-1]) if errs[-1] > 0 else 99.0)
                fine = [o for o, e in zip(orders, errs[1:]) if e > floor][-2:]
                if fine and max(fine) < want - 0.7:
                    viol(res, "convergence-order", integrator=name, opts=opts, direction=sgn, advertised=want, observed=orders, errors=errs, system=tag)
            if not errs[2] <= accbound:
                viol(res, "accuracy", integrator=name, opts=opts, direction=sgn, error=errs[2], system=tag)


GSCALE_TOL = 0.0
def corrector_relation(res, masses, s0, refs, T, combos, orders):
    """a symplectic corrector removes error terms: at the same step size the corrected run may not be worse than the uncorrected one"""
    nb = len(masses)
    ref = [refs[1][6 * i + k] for i in range(nb) for k in range(3)]

    def err(coord, kernel, corr, c2):
        sim = rebound.Simulation()
        for i, m in enumerate(masses):
            sim.add(m=m, x=s0[6 * i], y=s0[6 * i + 1], z=s0[6 * i + 2], vx=s0[6 * i + 3], vy=s0[6 * i + 4], vz=s0[6 * i + 5])
        set_opts(sim, "whfast", {"coordinates": coord, "kernel": kernel, "corrector": corr, "corrector2": c2, "safe_mode": 0})
        sim.dt = T / 64
        sim.steps(64)
        sim.synchronize()
        got = [c for p in sim.particles for c in (p.x, p.y, p.z)]
        return max(abs(a - b) for a, b in zip(got, ref))
    for coord, kernel in combos:
        base = err(coord, kernel, 0, 0)
        for corr in orders:
            for c2 in ((0, 1) if coord == "jacobi" else (0,)):
                e = err(coord, kernel, corr, c2)
                res["order_runs"] += 1
                res["observed"]["corrector %s/%s order %d%s vs none" % (coord, kernel, corr, "+c2" if c2 else "")] = [e, base]
                if not e <= 0.1 * base + 1e-12:          # (observed: 0.011 at worst, barycentric; 2e-4 and below in Jacobi coordinates)
                    viol(res, "corrector-hurts", integrator="whfast", opts={"coordinates": coord, "kernel": kernel, "corrector": corr, "corrector2": c2}, direction=1,
                         error_with_corrector=e, error_without=base)


N0 = {2: 16, 4: 16, 6: 8, 8: 2}


def lattice_cfgs(adv, valid):
    """the documented option lattice: every valid WHFast combination (Order.tla VALID rows), 18 SABA types, 9 x 9 EOS splittings"""
    out = []
    for v in valid:
        if v["valid"]:
            for sm in (1, 0):
                o = {"coordinates": v["coord"], "kernel": v["kernel"], "corrector": v["corr"], "safe_mode": sm}
                out.append(("whfast", o, adv["whfast"], 16))
                if v["corr"]:
                    out.append(("whfast", dict(o, corrector2=1), adv["whfast"], 16))
    for t in SABA_TYPES:
        for sm in (1, 0):
            out.append(("saba", {"type": t, "safe_mode": sm}, adv["saba"], 16))
    eo = {t: adv["eostype_" + t] for t in EOS_TYPES}
    for t0 in EOS_TYPES:
        for t1 in EOS_TYPES:
            o = min(eo[t0], eo[t1])
            for sm in (1, 0):
                out.append(("eos", {"phi0": t0, "phi1": t1, "safe_mode": sm}, o, 32 if o == 2 else N0[o]))
    return out


SABA_TYPES = ["1", "2", "3", "4", "cm1", "cm2", "cm3", "cm4", "cl1", "cl2", "cl3", "cl4", "10,4", "8,6,4", "10,6,4", "h8,4,4", "h8,6,4", "h10,6,4"]
EOS_TYPES = ["lf", "lf4", "lf6", "lf8", "lf4_2", "lf8_6_4", "plf7_6_4", "pmlf4", "pmlf6"]


def random_system(rng, n):
    sim = rebound.Simulation()
    sim.add(m=1.0)
    a = 1.0
    masses = [1.0]
    for k in range(n - 1):
        m = 10 ** rng.uniform(-5, -3)
        masses.append(m)
        sim.add(m=m, a=a, e=rng.uniform(0, 0.12), inc=rng.uniform(0, 0.1), Omega=rng.uniform(0, 6), omega=rng.uniform(0, 6), f=rng.uniform(0, 6))
        a *= rng.uniform(1.5, 1.9)
    sim.move_to_com()
    return masses, state_of(sim)


def order_runs(res, adv, tier, valid=(), seed=0):
    """few-body convergence against an RK4 reference that does not use REBOUND"""
    masses, s0 = three_body()
    T = 1.6
    refs = {1: rk4_nbody(s0, masses, T, 2.5e-4), -1: rk4_nbody(s0, masses, -T, 2.5e-4)}
    A = adv
    cfgs = [("leapfrog", {}, A["leapfrog"], 64), ("whfast", {}, A["whfast"], 16), ("whfast", {"coordinates": "democraticheliocentric"}, A["whfast"], 16),
            ("whfast", {"coordinates": "whds"}, A["whfast"], 16), ("whfast", {"coordinates": "barycentric"}, A["whfast"], 16),
            ("whfast", {"kernel": "modifiedkick"}, A["whfast"], 16), ("whfast", {"kernel": "composition"}, A["whfast"], 16), ("whfast", {"kernel": "lazy"}, A["whfast"], 16),
            ("saba", {"type": "1"}, A["saba"], 16), ("saba", {"type": "2"}, A["saba"], 16), ("saba", {"type": "4"}, A["saba"], 16), ("saba", {"type": "cl2"}, A["saba"], 16),
            ("saba", {"type": "10,6,4"}, A["saba"], 16), ("mercurius", {}, A["mercurius"], 16), ("trace", {}, A["trace"], 16),
            ("eos", {"phi0": "lf", "phi1": "lf"}, A["eos_lf"], 32), ("eos", {"phi0": "lf4", "phi1": "lf4"}, A["eos_lf4"], 16), ("eos", {"phi0": "lf6", "phi1": "lf6"}, A["eos_lf6"], 8),
            ("eos", {"phi0": "pmlf4", "phi1": "pmlf4"}, A["eos_pmlf4"], 16), ("eos", {"phi0": "pmlf6", "phi1": "pmlf6"}, A["eos_pmlf6"], 8),
            ("janus", {"order": 2, "scale_pos": 1e-17, "scale_vel": 1e-17}, A["janus2"], 64), ("janus", {"order": 4, "scale_pos": 1e-17, "scale_vel": 1e-17}, A["janus4"], 32)]
    # the same schemes with the synchronisation left to the end (safe_mode 0: first/last sub-steps of neighbouring steps combined)
    cfgs += [(n, dict(o, safe_mode=0), k, n0) for n, o, k, n0 in cfgs if n in ("whfast", "saba", "eos", "mercurius")]
    cfgs += [("eos", {"phi0": "lf8", "phi1": "lf8", "safe_mode": sm}, A["eos_lf8"], 2) for sm in (1, 0)] + \
            [("eos", {"phi0": "lf4_2", "phi1": "lf4", "safe_mode": sm}, A["eos_lf4_2"], 16) for sm in (1, 0)] + \
            [("eos", {"phi0": "plf7_6_4", "phi1": "lf8", "n": 4, "safe_mode": sm}, A["eos_plf764"], 2) for sm in (1, 0)] + \
            [("eos", {"phi0": "lf8_6_4", "phi1": "lf8", "n": 4, "safe_mode": sm}, A["eos_lf864"], 2) for sm in (1, 0)]
    FRAME = ((3.0, -1.5, 0.75), (0.21, -0.34, 0.13))
    if tier == "quick":
        measure(res, cfgs, masses, s0, refs, T, "", (1,))
        measure(res, [c for c in cfgs if c[0] in ("whfast", "eos")], masses, s0, refs, T, "", (-1,))
        measure(res, cfgs[::2], masses, s0, refs, T, "moving frame ", (1,), frame=FRAME)

        def tp1q(sim):
            sim.N_active = 2
            sim.testparticle_type = 1
        measure(res, [c for c in cfgs if c[0] in ("eos", "mercurius", "trace") or (c[0] == "whfast" and "kernel" not in c[1])], masses, s0, refs, T, "testparticle type 1 ", (1,), setup=tp1q)
        corrector_relation(res, masses, s0, refs, T, (("jacobi", "default"), ("barycentric", "default"), ("jacobi", "lazy")), (11, 17))
    else:
        measure(res, cfgs, masses, s0, refs, T, "", (1, -1))
        lat = lattice_cfgs(adv, valid)
        corrector_relation(res, masses, s0, refs, T, [(v["coord"], v["kernel"]) for v in valid if v["valid"] and v["corr"] == 3], (3, 5, 7, 11, 17))
        measure(res, cfgs, masses, s0, refs, T, "moving frame ", (1, -1), frame=FRAME)
        measure(res, lat[1::2], masses, s0, refs, T, "moving frame lattice ", (1,), frame=FRAME)
        measure(res, lat, masses, s0, refs, T, "lattice ", (1,))
        measure(res, lat[::3], masses, s0, refs, T, "lattice ", (-1,))
        # test particles: type 0 (massless third body, N_active = 2) and type 1 (a light third body that acts on the active ones)
        def tp0(sim):
            sim.N_active = 2

        def tp1(sim):
            sim.N_active = 2
            sim.testparticle_type = 1
        m0 = [masses[0], masses[1], 0.0]
        rf0 = {1: rk4_nbody(s0, m0, T, 2.5e-4), -1: rk4_nbody(s0, m0, -T, 2.5e-4)}
        tpc = [c for c in cfgs if not (c[0] == "whfast" and c[1].get("kernel", "default") != "default")] + [c for c in lat if c[0] == "whfast" and c[1]["kernel"] == "default"][::2]
        measure(res, tpc, m0, s0, rf0, T, "testparticle type 0 ", (1, -1), setup=tp0)
        measure(res, tpc, masses, s0, refs, T, "testparticle type 1 ", (1,), setup=tp1)
        # further systems: 3 to 5 bodies, random masses and elements in the well-separated regime
        rng = random.Random(seed * 31 + 7)
        fixed = [c for c in cfgs if c[0] != "janus"]
        for k in range(10):
            nb = 3 + k % 4
            ms, st = random_system(rng, nb)
            rf = {1: rk4_nbody(st, ms, T, 2e-4), -1: rk4_nbody(st, ms, -T, 2e-4)}
            measure(res, fixed + lat, ms, st, rf, T, "random%d(N=%d) " % (k, nb), (1,), accbound=5e-3)
            measure(res, fixed + lat[k % 3::3], ms, st, rf, T, "random%d(N=%d) " % (k, nb), (-1,), accbound=5e-3)
    # adaptive schemes: accuracy and its response to the tolerance
    for sgn in (1, -1):
        for name, tight, loose, tighter in [("ias15", {"epsilon": 1e-9, "adaptive_mode": am}, {"epsilon": 1e-5, "adaptive_mode": am}, ({"epsilon": 1e-12, "adaptive_mode": am} if am >= 2 else None)) for am in (2, 0, 1, 3)] + \
                [("ias15", {"epsilon": 0.0}, {"epsilon": 0.0}, None), ("ias15", {"epsilon": 1e-9, "min_dt": 0.02}, {"epsilon": 1e-5, "min_dt": 0.02}, {"epsilon": 1e-13, "min_dt": 0.02}),
                 ("bs", {"eps_rel": 1e-11, "eps_abs": 1e-11}, {"eps_rel": 1e-6, "eps_abs": 1e-6}, None)]:      # (a BS tolerance below ~1e-12 cannot be met in binary64)
            errs = []
            for opts in (loose, tight) + ((tighter,) if tighter else ()):
                sim = rebound.Simulation()
                for i, m in enumerate(masses):
                    sim.add(m=m, x=s0[6 * i], y=s0[6 * i + 1], z=s0[6 * i + 2], vx=s0[6 * i + 3], vy=s0[6 * i + 4], vz=s0[6 * i + 5])
                set_opts(sim, name, opts)
                sim.dt = sgn * 0.05
                sim.integrate(sgn * T)
                got = []
                for p in sim.particles:
                    got += [p.x, p.y, p.z]
                ref = [refs[sgn][6 * i + k] for i in range(3) for k in range(3)]
                errs.append(max(abs(a - b) for a, b in zip(got, ref)))
            res["order_runs"] += 1
            res["observed"]["adaptive %s %s dir%+d" % (name, {k: v for k, v in tight.items() if k != "epsilon"}, sgn)] = errs
            if not errs[1] <= 1e-9 or not errs[1] <= errs[0] + 1e-12:
                viol(res, "adaptive-accuracy", integrator=name, direction=sgn, loose=errs[0], tight=errs[1])
            # tightening the tolerance further never makes the result worse than the class of the tight run
            if len(errs) > 2 and not errs[2] <= max(errs[1], 1e-10):
                viol(res, "adaptive-accuracy", integrator=name, direction=sgn, opts=tighter, tight=errs[1], tighter=errs[2])


def ode_runs(res, tier):
    """a user ODE (harmonic oscillator, exact solution cos t) advanced together with the N-body system"""
    for name, opts in (("ias15", {}), ("bs", {}), ("whfast", {}), ("trace", {}), ("leapfrog", {})):
        for sgn in (1, -1):
            sim = rebound.Simulation()
            sim.add(m=1.0)
            sim.add(m=1e-3, a=1.0, e=0.3)
            sim.add(m=1e-3, a=2.3, e=0.1, f=1.0)
            set_opts(sim, name, opts)
            sim.dt = sgn * 0.013
            sim.ri_bs.eps_rel = 1e-10
            sim.ri_bs.eps_abs = 1e-10
            ode = sim.create_ode(length=6, needs_nbody=False)
            W = 37.0

            def deriv(ode_p, yDot, y, t):
                yDot[0] = y[1]
                yDot[1] = -y[0]
                yDot[2] = math.cos(1.3 * t)           # explicit time dependence: the callback's clock is the ODE's own time
                yDot[3] = 1.0                         # a clock: the ODE system is advanced exactly as far as the N-body system
                yDot[4] = W * y[5]                    # a fast oscillator: several Bulirsch-Stoer sub-steps per N-body step
                yDot[5] = -W * y[4]
            ode.derivatives = deriv
            ode.y[0], ode.y[1], ode.y[2], ode.y[3], ode.y[4], ode.y[5] = 1.0, 0.0, 0.0, 0.0, 1.0, 0.0
            if name in ("whfast", "leapfrog"):
                sim.dt = sgn * 0.21                   # (the N-body accuracy is not the subject here)
            T = sgn * 9.7
            try:
                sim.integrate(T)
            except Exception as e:  # noqa: BLE001
                viol(res, "ode-run-failed", integrator=name, error=str(e)[:100])
                continue
            err = max(abs(ode.y[0] - math.cos(sim.t)), abs(ode.y[1] + math.sin(sim.t)), abs(ode.y[2] - math.sin(1.3 * sim.t) / 1.3),
                      abs(ode.y[3] - sim.t), abs(ode.y[4] - math.cos(W * sim.t)) / 20.0, abs(ode.y[5] + math.sin(W * sim.t)) / 20.0)
            res["ode_runs"] += 1
            res["observed"]["ode %s dir%+d" % (name, sgn)] = err
            if not err <= 1e-7:
                viol(res, "ode-coupling", integrator=name, direction=sgn, error=err, t=sim.t,
                     components=[ode.y[0] - math.cos(sim.t), ode.y[1] + math.sin(sim.t), ode.y[2] - math.sin(1.3 * sim.t) / 1.3, ode.y[3] - sim.t,
                                 ode.y[4] - math.cos(W * sim.t), ode.y[5] + math.sin(W * sim.t)])


def state_of(sim):
    s = []
    for p in sim.particles:
        s += [p.x, p.y, p.z, p.vx, p.vy, p.vz]
    return s


def encounter_runs(res, tier):
    """the hybrid integrators inside their switching regime, both directions of time, against the harness RK4:
       (a) every TRACE pericentre mode with the pericentre flag forced on, single large steps through a pericentre passage;
       (b) a planet-planet close encounter (inside the switching radius) with TRACE and MERCURIUS."""
    def peri_sys():
        sim = rebound.Simulation()
        sim.add(m=1.0)
        sim.add(m=1e-3, a=1.0, e=0.9, f=-1.0)
        sim.add(m=1e-3, a=3.0, e=0.1, f=1.0)
        sim.move_to_com()
        return sim
    always = lambda r, j: 1  # noqa: E731
    for sgn in (1, -1):
        for dt in (0.3, 1.0):
            base = peri_sys()
            ref = rk4_nbody(state_of(base), [1.0, 1e-3, 1e-3], sgn * dt, 1e-4)
            for mode, tol in (("FULL_BS", 1e-7), ("FULL_IAS15", 1e-7), ("PARTIAL_BS", 3e-3)):
                sim = peri_sys()
                sim.integrator = "trace"
                sim.ri_trace.peri_mode = mode
                sim.ri_trace.S_peri = always
                sim.dt = sgn * dt
                sim.steps(1)
                got = state_of(sim)
                e = max(abs(got[6 * i + k] - ref[6 * i + k]) for i in range(3) for k in range(3))
                res["encounter_runs"] += 1
                res["observed"]["trace forced pericentre %s dt=%+g" % (mode, sgn * dt)] = e
                if not (e <= tol and sim.t == sgn * dt):
                    viol(res, "trace-pericentre-step", integrator="trace", opts={"peri_mode": mode}, direction=sgn, dt=dt, error=e, tolerance=tol, t=sim.t)

    def pair_sys():
        sim = rebound.Simulation()
        sim.add(m=1.0)
        sim.add(m=1e-3, a=1.0, e=0.0)
        sim.add(m=1e-3, a=1.15, e=0.0, f=0.1)
        sim.move_to_com()
        return sim
    for sgn in (1, -1):
        base = pair_sys()
        ref = rk4_nbody(state_of(base), [1.0, 1e-3, 1e-3], sgn * 3.0, 2.5e-4)
        for name in ("trace", "mercurius"):
            sim = pair_sys()
            sim.integrator = name
            sim.dt = sgn * 0.01
            sim.integrate(sgn * 3.0)
            got = state_of(sim)
            e = max(abs(got[6 * i + k] - ref[6 * i + k]) for i in range(3) for k in range(3))
            res["encounter_runs"] += 1
            res["observed"]["close pair %s dir%+d" % (name, sgn)] = e
            if not e <= 1e-4:
                viol(res, "close-encounter", integrator=name, opts={}, direction=sgn, error=e, tolerance=1e-4)


def sei_runs(res):
    """SEI without self-gravity solves Hill's equations exactly: a test particle follows the analytic epicycle
       x'' = 2 O y' + 3 O^2 x,  y'' = -2 O x',  z'' = -Oz^2 z  for any step size, also with Oz != O, both directions"""
    for O, Oz in ((1.0, None), (1.0, 1.0), (0.7, 1.9), (2.0, 0.6)):
        for sgn in (1, -1):
            sim = rebound.Simulation()
            sim.integrator = "sei"
            sim.ri_sei.OMEGA = O
            if Oz is not None:
                sim.ri_sei.OMEGAZ = Oz
            oz = O if Oz is None else Oz
            x0, y0, z0, vx0, vy0, vz0 = 0.3, -0.2, 0.15, 0.05, -0.11, 0.07
            sim.add(m=0.0, x=x0, y=y0, z=z0, vx=vx0, vy=vy0, vz=vz0)
            sim.dt = sgn * 0.37
            sim.steps(23)
            t = sim.t
            C = vy0 + 2 * O * x0
            xa = 2 * C / O + (x0 - 2 * C / O) * math.cos(O * t) + vx0 / O * math.sin(O * t)
            ya = y0 - 3 * C * t - 2 * (x0 - 2 * C / O) * math.sin(O * t) + 2 * vx0 / O * (math.cos(O * t) - 1)
            za = z0 * math.cos(oz * t) + vz0 / oz * math.sin(oz * t)
            p = sim.particles[0]
            err = max(abs(p.x - xa), abs(p.y - ya), abs(p.z - za))
            res["order_runs"] += 1
            res["observed"]["sei epicycle O=%g Oz=%s dir%+d" % (O, Oz, sgn)] = err
            if not err <= 1e-11:
                viol(res, "sei-epicycle", integrator="sei", opts={"OMEGA": O, "OMEGAZ": Oz}, direction=sgn, error=err, got=[p.x, p.y, p.z], analytic=[xa, ya, za])


def three_body():
    masses = [1.0, 1e-3, 4e-4]
    tmp = rebound.Simulation()
    tmp.add(m=masses[0])
    tmp.add(m=masses[1], a=1.0, e=0.1, inc=0.1, f=0.4)
    tmp.add(m=masses[2], a=1.9, e=0.05, inc=0.05, Omega=1.0, f=2.0)
    tmp.move_to_com()
    s0 = []
    for p in tmp.particles:
        s0 += [p.x, p.y, p.z, p.vx, p.vy, p.vz]
    return masses, s0


def run_history(ops, masses, s0, T, nsteps):
    """execute one Switch.tla history: Use(i) segments of equal length, "add" = add a massless particle far away"""
    sim = rebound.Simulation()
    for i, m in enumerate(masses):
        sim.add(m=m, x=s0[6 * i], y=s0[6 * i + 1], z=s0[6 * i + 2], vx=s0[6 * i + 3], vy=s0[6 * i + 4], vz=s0[6 * i + 5])
    sim.ri_bs.eps_rel = 1e-11
    sim.ri_bs.eps_abs = 1e-11
    sim.N_active = 3
    uses = [o for o in ops if o != "add"]
    seg = 0
    nadd = 0
    for o in ops:
        if o == "add":
            nadd += 1
            sim.add(m=0.0, x=40.0 + 3 * nadd, y=1.0, z=0.5, vx=0.0, vy=0.15, vz=0.0)
            continue
        sim.synchronize()
        sim.integrator = o
        if o == "janus":
            sim.ri_janus.recalculate_integer_coordinates_this_timestep = 1
        sim.dt = T / nsteps
        seg += 1
        sim.integrate(T * seg / len(uses), exact_finish_time=1)
    sim.synchronize()
    out = []
    for i in range(3):
        p = sim.particles[i]
        out += [p.x, p.y, p.z]
    return out


def switch_runs(res, hists, tier, seed):
    """Switch.tla histories: the error of a history may not exceed what its integrators produce on their own"""
    masses, s0 = three_body()
    T, nsteps = 1.6, 384
    ref = rk4_nbody(s0, masses, T, 2.5e-4)
    refp = [ref[6 * i + k] for i in range(3) for k in range(3)]

    def err(ops):
        got = run_history(ops, masses, s0, T, nsteps)
        return max(abs(a - b) for a, b in zip(got, refp))
    integs = sorted({o for h in hists for o in h if o != "add"})
    own = {i: err([i]) for i in integs}
    res["observed"]["switch own errors"] = own
    rng = random.Random(seed)
    todo = [h for h in hists if len(h) <= 2 or (len(h) == 3 and "add" in h)]
    rest = [h for h in hists if h not in todo]
    rng.shuffle(rest)
    todo += rest if tier == "thorough" else rest[:150]
    only = os.environ.get("C01_SWITCH_ONLY")
    if only:
        todo = [h for h in hists if "add" in h and "bs" in h][:int(only)]
    worst = 0.0
    for h in todo:
        try:
            e = err(h)
        except Exception as ex:  # noqa: BLE001
            viol(res, "switch-history-failed", history=h, error=str(ex)[:120])
            continue
        bound = 30 * sum(own[o] for o in h if o != "add") + 1e-10
        res["switch_runs"] += 1
        worst = max(worst, e / bound)
        if not e <= bound:
            viol(res, "switch-history", history=h, error=e, bound=bound, integrator="/".join(h))
    res["observed"]["switch worst error / bound"] = worst


def main():
    table, out, seed, tier = sys.argv[1], sys.argv[2], int(sys.argv[3]), sys.argv[4]
    res = {"mu_rows": 0, "valid_rows": 0, "two_body": 0, "order_runs": 0, "ode_runs": 0, "switch_runs": 0, "encounter_runs": 0, "violations": [], "observed": {}}
    mu, valid, adv, hists = [], [], None, []
    for ln in open(table):
        r = json.loads(ln)
        if r[0] == "MU":
            mu.append(r[1])
        elif r[0] == "VALID":
            valid.append(r[1])
        elif r[0] == "H":
            hists.append(r[1])
        else:
            adv = r[1]
    if os.environ.get("C01_SWITCH_ONLY"):
        switch_runs(res, hists, tier, seed)
        json.dump(res, open(out, "w"))
        return
    mu_rows(res, mu)
    ctypes.c_int.in_dll(rebound.clibrebound, "reb_verif_state").value = 0      # hook events are only needed for the mass-parameter rows
    open(TRACE, "w").close()
    valid_rows(res, valid)
    switch_runs(res, hists, tier, seed)
    two_body(res, tier)
    tolerance_sweep(res)
    order_runs(res, adv, tier, valid, seed)
    encounter_runs(res, tier)
    sei_runs(res)
    ode_runs(res, tier)
    json.dump(res, open(out, "w"))


if __name__ == "__main__":
    main()
