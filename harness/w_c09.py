"""C09 worker: executes call sequences on real simulations and records the operator words.

 usage: w_c09.py <cfgs.json> <out.ndjson> <inner_out.json> <seed> <tier>
"""
import ctypes
import hashlib
import json
import math
import os
import random
import sys
import warnings

TRACE = os.environ.get("REBOUND_VERIF_TRACE")
import rebound  # noqa: E402
from rebound import clibrebound  # noqa: E402

warnings.simplefilter("ignore")
SCALE = 1e8
EOS_NAMES = ["lf", "lf4", "lf6", "lf8", "lf4_2", "lf8_6_4", "plf7_6_4", "pmlf4", "pmlf6"]


class Recorder:
    def __init__(self):
        self.fh = open(TRACE, "a+")

    def mark(self):
        self.fh.seek(0, 2)
        return self.fh.tell()

    def since(self, off, addr):
        self.fh.seek(off)
        out = []
        for line in self.fh.read().splitlines():
            p = line.split()
            if len(p) < 3 or int(p[2], 16) != addr:
                continue
            out.append((p[0], [float(x) for x in p[3:]]))
        return out


REC = None


def q(x):
    return int(round(x * SCALE))


TOP = {"kepler": "K", "com": "C", "jump": "J", "kick": "V", "lf_drift": "lfD", "lf_kick": "lfV", "sei_H": "seiH", "sei_phi": "seiP",
       "j_drift": "jD", "j_kick": "jV", "m_kick": "mV", "m_jump": "mJ", "m_com": "mC", "m_kepler": "mK", "m_enc": "mE",
       "w5_kepler": "K", "w5_com": "C", "w5_jump": "J", "w5_kick": "V"}
FOREIGN = ("col_", "crit_", "serve_", "ce_sync", "fin_sync", "hb_", "tr_", "ias_", "bs_")      # events of other specifications (collisions, server protocol)
IGNORE = {"step_b", "step", "sync_b", "sync_e", "ksolve", "j_toint", "check_exit", "int_begin", "int_end"}


def flatten(raw, inner_out, cfgname):
    """hook events of one call -> top-level word; inner words appended to inner_out."""
    ops = []
    i = 0
    n = len(raw)

    def collect_until(j, endname):
        k = j
        depth = 0
        while k < n:
            if raw[k][0] == endname and depth == 0:
                return k
            k += 1
        return n

    while i < n:
        name, a = raw[i]
        if name in IGNORE or name.startswith(FOREIGN):
            i += 1
        elif name in TOP:
            ops.append([TOP[name], q(a[0] / a[1]), 0])
            i += 1
        elif name == "from_in" or name == "m_to_dh" or name == "w5_to_dh":
            ops.append(["FI", 0, 0])
            i += 1
        elif name == "to_in" or name == "m_to_in" or name == "w5_to_in":
            ops.append(["TI", 0, 0])
            i += 1
        elif name == "saba_corr":
            ops.append(["sc", q(a[0]), 0])
            j = collect_until(i + 1, "saba_corr_e")
            inner = [["V", q(b[0] / b[1]), 0] for nm, b in raw[i + 1:j] if nm == "kick"]
            inner_out.append({"kind": ["sabacorr", int(a[1]) // 0x100, 0], "word": inner, "rel": q(a[0]), "cfg": cfgname})
            i = j + 1
        elif name in ("corr_b", "corr2_b"):
            end = "corr_e" if name == "corr_b" else "corr2_e"
            j = collect_until(i + 1, end)
            inner = []
            for nm, b in raw[i + 1:j]:
                if nm == "kepler":
                    inner.append(["K", q(b[0] / b[1]), 0])
                elif nm == "kick":
                    inner.append(["V", q(b[0] / b[1]), 0])
            if name == "corr_b":
                inv, order = int(a[0]), int(a[1])
                ops.append(["corr", inv * order, 0])
                inner_out.append({"kind": ["corr", order, inv], "word": inner, "cfg": cfgname})
            else:
                inv = int(a[0])
                ops.append(["corr2", inv, 0])
                inner_out.append({"kind": ["corr2", 0, inv], "word": inner, "cfg": cfgname})
            i = j + 1
        elif name in ("pre_b", "post_b"):
            # top-level processor of EOS (phi0): collapse; its shell-0 content is the inner word
            end = "pre_e" if name == "pre_b" else "post_e"
            typ = int(a[0])
            dt0 = a[1]
            # find the matching end with the same type at nesting level 0
            k = i + 1
            depth = 0
            while k < n:
                if raw[k][0] in ("pre_b", "post_b"):
                    depth += 1
                elif raw[k][0] in ("pre_e", "post_e"):
                    if depth == 0:
                        break
                    depth -= 1
                k += 1
            inner = shell0_word(raw[i + 1:k], dt0, inner_out, cfgname)
            ops.append(["pre" if name == "pre_b" else "post", typ, 0])
            inner_out.append({"kind": ["pre" if name == "pre_b" else "post", typ, 0], "word": inner, "cfg": cfgname})
            i = k + 1
        elif name in ("drift0", "kick0"):
            # consume via shell0_word on the remaining top-level stretch up to the next non-EOS token
            k = i
            depth = 0
            while k < n:
                nm = raw[k][0]
                if depth == 0 and nm in ("pre_b", "post_b", "sync_b", "sync_e", "step"):
                    break
                if nm == "drift0":
                    depth += 1
                elif nm == "drift0_e":
                    depth -= 1
                k += 1
            dt0 = a[1] if name == "drift0" else a[2]
            for o in shell0_word(raw[i:k], dt0, inner_out, cfgname):
                ops.append([o[0], o[1], o[2]])
            i = k
        else:
            ops.append(["?" + name, 0, 0])
            i += 1
    return ops


def shell0_word(raw, dt, inner_out, cfgname):
    """EOS shell-0 tokens (drift0 ... drift0_e, kick0) -> [D/I ops]; every drift0's shell-1 content becomes an inner word."""
    out = []
    i = 0
    n = len(raw)
    while i < n:
        name, a = raw[i]
        if name == "kick0":
            out.append(["I", q(a[0] / dt), q(a[1] / dt ** 3)])
            i += 1
        elif name == "drift0":
            x, nn = a[0], int(a[2])
            k = i + 1
            while k < n and raw[k][0] != "drift0_e":
                k += 1
            h = x / nn
            inner = []
            typ = None
            for nm, b in raw[i + 1:k]:
                if nm == "drift1":
                    inner.append(["D", q(b[0] / h), 0])
                elif nm == "kick1":
                    inner.append(["I", q(b[0] / h), q(b[1] / h ** 3)])
                elif nm == "pre_b" and typ is None:
                    typ = int(b[0])
            out.append(["D", q(x / dt), 0])
            inner_out.append({"kind": ["eosinner", typ, nn], "word": inner, "cfg": cfgname})
            i = k + 1
        else:
            i += 1
    return out


# ------------------------------------------------------------------------------------------
def build(cfg, rng):
    sim = rebound.Simulation()
    sim.add(m=1.0)
    sim.add(m=1e-3, a=1.0, e=0.05, f=0.3)
    sim.add(m=3e-4, a=1.9, e=0.1, inc=0.05, f=2.1)
    for i in range(sim.N):        # a frame in which the centre of mass moves
        sim.particles[i].vx += 0.3
        sim.particles[i].vy -= 0.1
    fam = cfg["fam"]
    sim.integrator = fam
    sim.dt = 0.03 + 0.01 * rng.random()
    if rng.random() < 0.35 and fam != "whfast512":
        sim.dt = -sim.dt              # backward integrations run the same words
    if fam == "whfast":
        w = sim.ri_whfast
        w.coordinates = cfg["coord"]
        w.kernel = cfg["kernel"]
        w.corrector = cfg["corr"]
        w.corrector2 = cfg["corr2"]
        w.safe_mode = 1 if cfg["safe"] else 0
        w.keep_unsynchronized = 1 if cfg["keep"] else 0
    elif fam == "saba":
        s = sim.ri_saba
        # selected by its documented name, so that the name table of the Python layer is part of what is traced
        s.type = (["", "cm", "cl"][cfg["tcorr"]] + str(cfg["typ"] + 1)) if cfg["typ"] <= 3 else ["10,4", "8,6,4", "10,6,4", "h8,4,4", "h8,6,4", "h10,6,4"][cfg["typ"] - 4]
        if s._type != cfg["tcorr"] * 0x100 + cfg["typ"]:
            pass        # a wrong name table shows up as a wrong operator word below
        s.safe_mode = 1 if cfg["safe"] else 0
        s.keep_unsynchronized = 1 if cfg["keep"] else 0
    elif fam == "eos":
        e = sim.ri_eos
        e.phi0 = cfg["phi0"]
        e.phi1 = rng.choice(EOS_NAMES)
        e.n = rng.choice([1, 2, 3])
        e.safe_mode = 1 if cfg["safe"] else 0
    elif fam == "mercurius":
        sim.ri_mercurius.safe_mode = 1 if cfg["safe"] else 0
    elif fam == "janus":
        sim.ri_janus.order = cfg["order"]
    elif fam == "sei":
        sim.ri_sei.OMEGA = 1.0
    elif fam == "whfast512":
        sim.ri_whfast512.gr_potential = cfg["tcorr"]
        sim.ri_whfast512.keep_unsynchronized = 1 if cfg["keep"] else 0
        sim.exact_finish_time = 0
    if cfg.get("var"):
        v = sim.add_variation()
        v.particles[1].x = 1e-3          # a non-trivial tangent vector
        v.particles[2].vy = -2e-3
    return sim


def pbytes(ptr, n):
    h = hashlib.sha256()
    for i in range(n):
        p = ptr[i]
        h.update(memoryview((ctypes.c_double * 10)(p.x, p.y, p.z, p.vx, p.vy, p.vz, p.ax, p.ay, p.az, p.m)))
    return h


def digests(sim, cfg, table):
    parts = hashlib.sha256()
    for i in range(sim.N):
        p = sim.particles[i]
        parts.update(memoryview((ctypes.c_double * 7)(p.x, p.y, p.z, p.vx, p.vy, p.vz, p.m)))
    pd = parts.hexdigest()
    fam = cfg["fam"]
    if fam in ("whfast", "saba"):
        w = sim.ri_whfast
        if w._N_allocated >= sim.N and bool(w._p_jh):
            h = pbytes(w._p_jh, sim.N)
            # positions/velocities/masses only (accelerations in p_jh are scratch)
            h2 = hashlib.sha256()
            for i in range(sim.N):
                p = w._p_jh[i]
                h2.update(memoryview((ctypes.c_double * 7)(p.x, p.y, p.z, p.vx, p.vy, p.vz, p.m)))
            cd = h2.hexdigest()
            if all(w._p_jh[i].m == 0 and w._p_jh[i].x == 0 and w._p_jh[i].vx == 0 for i in range(sim.N)):
                cd = "unallocated"      # allocated (zero-filled) but never computed: same abstract state as no buffer
        else:
            cd = "unallocated"
    elif fam == "whfast512":
        w = sim.ri_whfast512
        if w._N_allocated and bool(w._p_jh):
            h = hashlib.sha256(ctypes.string_at(ctypes.cast(w._p_jh, ctypes.c_void_p).value, 7 * 64))
            for k in range(4):
                p = w._p_jh0[k]
                h.update(memoryview((ctypes.c_double * 7)(p.x, p.y, p.z, p.vx, p.vy, p.vz, p.m)))
            cd = h.hexdigest()
        else:
            cd = "unallocated"
    elif fam == "mercurius":
        m = sim.ri_mercurius
        cd = pd + repr((m._com_pos.x, m._com_pos.y, m._com_pos.z, m._com_vel.x, m._com_vel.y, m._com_vel.z))
    else:
        cd = pd
    return table.setdefault("c" + cd, len(table)), table.setdefault("p" + pd, len(table))


def is_sync(sim, cfg):
    fam = cfg["fam"]
    if fam == "whfast":
        return bool(sim.ri_whfast.is_synchronized)
    if fam == "saba":
        return bool(sim.ri_saba.is_synchronized)
    if fam == "eos":
        return bool(sim.ri_eos.is_synchronized)
    if fam == "mercurius":
        return bool(sim.ri_mercurius.is_synchronized)
    if fam == "whfast512":
        return bool(sim.ri_whfast512.is_synchronized)
    return True


def observe(sim, rng, tmpdir):
    k = rng.randrange(6)
    if k == 0:
        sim.energy()
    elif k == 1:
        c = sim.copy()
        del c
    elif k == 2:
        fn = os.path.join(tmpdir, "obs.bin")
        if os.path.exists(fn):
            os.remove(fn)
        sim.save_to_file(fn)
    elif k == 3:
        sim.angular_momentum()
    elif k == 4:
        [p.x + p.vx for p in sim.particles]
        sim.com()
    else:
        import pickle
        pickle.dumps(sim)


def run_calls(sim, cfg, calls, table, inner_out, rng, tmpdir, cfgname):
    addr = ctypes.addressof(sim)
    ev = []
    for a in calls:
        off = REC.mark()
        if a == "step":
            sim.step()
        elif a == "sync":
            sim.synchronize()
        elif a == "observe":
            observe(sim, rng, tmpdir)
        elif a == "setrecalc":
            # the user moved a particle while synchronised and tells the integrator
            sim.particles[1].x += 1e-6
            if cfg["fam"] in ("whfast", "saba"):
                sim.ri_whfast.recalculate_coordinates_this_timestep = 1
            elif cfg["fam"] == "mercurius":
                sim.ri_mercurius.recalculate_coordinates_this_timestep = 1
        raw = REC.since(off, addr)
        ops = flatten(raw, inner_out, cfgname) if a in ("step", "sync") else flatten(raw, [], cfgname)
        c, p = digests(sim, cfg, table)
        ev.append({"a": a, "ops": ops, "sync": is_sync(sim, cfg), "cache": c, "parts": p})
    return ev


def cfgname(cfg):
    return "%s/%s/%s/c%s/c2%s/safe%d/keep%d/t%s.%s/%s/o%s" % (cfg["fam"], cfg["coord"], cfg["kernel"], cfg["corr"], cfg["corr2"], cfg["safe"], cfg["keep"],
                                                               cfg["typ"], cfg["tcorr"], cfg["phi0"], cfg["order"]) + ("/var" if cfg.get("var") else "")


def extras(numeric, seed):
    """sampled clauses around the deferred synchronisation (A5): (a) a post-timestep hook that changes velocities acts on the synchronised
    state and its changes are kept, safe mode on or off; (b) variational particles that are rescaled (a coordinate beyond 1e100) are
    rescaled once, whether or not the synchronisation is deferred"""
    base = {"coord": "jacobi", "kernel": "default", "corr": 0, "corr2": 0, "keep": False, "typ": 0, "tcorr": 0, "phi0": "-", "order": 0, "var": False}
    for fam, coord in (("whfast", "jacobi"), ("whfast", "democraticheliocentric"), ("whfast", "whds"), ("saba", "jacobi"), ("mercurius", "-")):
        out = {}
        for safe in (True, False):
            for hook in (True, False):
                cfg = dict(base, fam=fam, coord=coord, safe=safe)
                sim = build(cfg, random.Random(seed))
                sim.dt = abs(sim.dt)

                def ptm(sp):
                    s_ = sp.contents
                    s_.particles[1].vy += 1e-4 * s_.particles[1].x       # depends on the (synchronised) position
                    s_.particles[2].vx -= 2e-4
                if hook:
                    sim.post_timestep_modifications = ptm
                for _ in range(30):
                    sim.step()
                sim.synchronize()
                out[(safe, hook)] = [(p.x, p.y, p.z) for p in sim.particles]
                sim._post_timestep_modifications = type(sim._post_timestep_modifications)()
        d = max(abs(a - b) for p, q in zip(out[(True, True)], out[(False, True)]) for a, b in zip(p, q))
        eff = max(abs(a - b) for p, q in zip(out[(False, True)], out[(False, False)]) for a, b in zip(p, q))
        numeric.append({"cfg": "post-timestep hook: %s/%s safe vs deferred" % (fam, coord), "fam": fam, "diff": d, "ref": None})
        numeric.append({"cfg": "post-timestep hook: %s/%s hook has no effect with deferred synchronisation" % (fam, coord), "fam": fam, "diff": 0.0 if eff > 1e-6 else 1.0, "ref": None})
    # (c) MERCURIUS: asking for new critical radii in the middle of a run (recalculate_r_crit_this_timestep) while the synchronisation is
    #     deferred synchronises first and goes back to heliocentric coordinates: same trajectory as in safe mode, also in a moving frame
    outm = {}
    for safe in (True, False):
        cfg = dict(base, fam="mercurius", coord="-", safe=safe)
        sim = build(cfg, random.Random(seed))
        sim.dt = abs(sim.dt)
        for p in sim.particles:
            p.x += 3.0
            p.vy += 0.4
            p.vz -= 0.1
        for k in range(30):
            if k in (7, 19):
                sim.ri_mercurius.recalculate_r_crit_this_timestep = 1
            if k == 13:
                sim.ri_mercurius.recalculate_coordinates_this_timestep = 1
            sim.step()
        sim.synchronize()
        outm[safe] = [(p.x, p.y, p.z, p.vx, p.vy, p.vz) for p in sim.particles]
    d = max(abs(a - b) for p, q in zip(outm[True], outm[False]) for a, b in zip(p, q))
    numeric.append({"cfg": "mercurius: new critical radii / coordinates requested mid-run, safe vs deferred (moving frame)", "fam": "mercurius", "diff": d, "ref": None})
    # (d) integrate() after manual steps that left the state unsynchronised: a call whose target is the current time synchronises (and says
    #     so), a call that ends inside the next step (exact finishing) completes the deferred half step with the old step size first
    for fam, coord in (("whfast", "jacobi"), ("whfast", "democraticheliocentric"), ("saba", "jacobi"), ("mercurius", "-")):
        outi = {}
        for safe in (True, False):
            for case in ("noop", "inside"):
                cfg = dict(base, fam=fam, coord=coord, safe=safe)
                sim = build(cfg, random.Random(seed))
                sim.dt = abs(sim.dt)
                sim.steps(7)
                try:
                    sim.integrate(sim.t if case == "noop" else sim.t + 0.37 * sim.dt, exact_finish_time=1)
                except Exception as e:  # noqa: BLE001
                    numeric.append({"cfg": "integrate after manual steps raised %s (%s/%s)" % (str(e)[:60], fam, coord), "fam": fam, "diff": 1.0, "ref": None})
                    continue
                ri = {"whfast": sim.ri_whfast, "saba": sim.ri_saba, "mercurius": sim.ri_mercurius}[fam]
                flag = int(ri.is_synchronized)
                before = [(p.x, p.y, p.z, p.vx, p.vy, p.vz) for p in sim.particles]
                sim.synchronize()
                after = [(p.x, p.y, p.z, p.vx, p.vy, p.vz) for p in sim.particles]
                outi[(safe, case)] = after
                if flag != 1 or before != after:
                    numeric.append({"cfg": "integrate(%s) after manual steps leaves the state unsynchronised (%s/%s safe_mode=%d, is_synchronized=%d)"
                                           % ("t" if case == "noop" else "t + 0.37 dt", fam, coord, int(safe), flag), "fam": fam, "diff": 1.0, "ref": None})
        for case in ("noop", "inside"):
            if (True, case) in outi and (False, case) in outi:
                d = max(abs(a - b) for p, q in zip(outi[(True, case)], outi[(False, case)]) for a, b in zip(p, q))
                numeric.append({"cfg": "integrate(%s) after manual steps: %s/%s safe vs deferred" % ("t" if case == "noop" else "t + 0.37 dt", fam, coord), "fam": fam, "diff": d, "ref": None})
    out = {}
    for safe in (True, False):
        cfg = dict(base, fam="whfast", safe=safe)
        sim = build(cfg, random.Random(seed))
        sim.dt = abs(sim.dt)
        v = sim.add_variation()
        v.particles[1].x = 9.9e99
        v.particles[2].vy = -3.3e99
        for _ in range(40):
            sim.step()
        sim.synchronize()
        lr = sim.var_config[0]._lrescale
        out[safe] = (lr, [(p.x, p.vy) for p in (v.particles[i] for i in range(3))])
    (l1, a), (l2, b) = out[True], out[False]
    scale = max(abs(c) for p in a for c in p) or 1.0
    d = max(abs(x * math.exp(l1 - l2) - y) for p, q in zip(a, b) for x, y in zip(p, q)) / scale if abs(l1 - l2) < 600 else float("inf")
    numeric.append({"cfg": "variational rescale: whfast safe vs deferred (lrescale %.1f vs %.1f)" % (l1, l2), "fam": "whfast", "diff": d if l1 > 0 else 1.0, "ref": None})


def main():
    global REC
    cfgs = json.load(open(sys.argv[1]))
    out, inner_file, seed, tier = sys.argv[2], sys.argv[3], int(sys.argv[4]), sys.argv[5]
    REC = Recorder()
    rng = random.Random(seed)
    tmpdir = os.path.dirname(out)
    inner_out = []
    nseq = 1 if tier == "quick" else 4
    numeric = []
    with open(out, "w") as fh:
        for cfg in cfgs:
            name = cfgname(cfg)
            legal = ["step", "step", "step", "sync", "observe"]
            for rep in range(nseq):
                # (a) random call sequence (setrecalc only while synchronised)
                table = {}
                srng = random.Random(rng.random())
                sim = build(cfg, random.Random(seed + rep))
                c0, p0 = digests(sim, cfg, table)
                calls = []
                ev = []
                for k in range(9):
                    a = srng.choice(legal)
                    if a != "step" and srng.random() < 0.15 and is_sync(sim, cfg) and cfg["fam"] in ("whfast", "saba", "mercurius"):
                        a = "setrecalc"
                    ev += run_calls(sim, cfg, [a], table, inner_out, srng, tmpdir, name)
                    calls.append(a)
                fh.write(json.dumps({"cfg": cfg, "name": name, "bitwise": False, "cache0": c0, "parts0": p0, "events": ev, "calls": calls}) + "\n")
                # (b) bitwise runs: with keep_unsynchronized (or for observe-only interleavings) the internal state
                #     after k steps must not depend on the outputs requested in between
                table = {}
                ev = []
                sim = build(cfg, random.Random(seed + rep))
                c0, p0 = digests(sim, cfg, table)
                inter = ["observe", "sync"] if (cfg["keep"] or (cfg["safe"] and cfg["fam"] not in ("mercurius",))) else ["observe"]
                plain = ["step"] * 6
                ev += run_calls(sim, cfg, plain, table, inner_out, srng, tmpdir, name)
                for variant in range(2):
                    sim = build(cfg, random.Random(seed + rep))
                    c, p = digests(sim, cfg, table)
                    ev.append({"a": "reset", "ops": [], "sync": True, "cache": c, "parts": p})
                    calls = []
                    for k in range(6):
                        calls.append("step")
                        for _ in range(srng.randrange(3)):
                            calls.append(srng.choice(inter))
                    if srng.random() < 0.5:
                        calls += ["sync", "sync"]
                    ev += run_calls(sim, cfg, calls, table, inner_out, srng, tmpdir, name)
                fh.write(json.dumps({"cfg": cfg, "name": name, "bitwise": True, "cache0": c0, "parts0": p0, "events": ev, "calls": "bitwise"}) + "\n")
            # (c') WHFast512 has no safe mode: synchronising after every step is the reference
            if cfg["fam"] == "whfast512" and not cfg["keep"]:
                sa = build(cfg, random.Random(seed))
                ub = build(cfg, random.Random(seed))
                for _ in range(40):
                    sa.step()
                    sa.synchronize()
                    ub.step()
                ub.synchronize()
                d = 0.0
                for i in range(sa.N):
                    a, b = sa.particles[i], ub.particles[i]
                    d = max(d, abs(a.x - b.x), abs(a.y - b.y), abs(a.z - b.z))
                numeric.append({"cfg": name, "fam": cfg["fam"], "diff": d, "ref": None})
            # (c) sampled numeric clause (A5): safe mode vs safe mode off + synchronise at the end
            if cfg["fam"] in ("whfast", "saba", "mercurius", "eos") and not cfg["safe"] and not cfg["keep"]:
                sa = build(dict(cfg, safe=True), random.Random(seed))
                ub = build(cfg, random.Random(seed))
                for _ in range(40):
                    sa.step()
                    ub.step()
                ub.synchronize()
                sa.synchronize()
                d = 0.0
                for i in range(sa.N):
                    a, b = sa.particles[i], ub.particles[i]
                    d = max(d, abs(a.x - b.x), abs(a.y - b.y), abs(a.z - b.z))
                ref = None
                if cfg["fam"] == "eos":
                    # the scheme's own error scale: same run with half the step size
                    hb = build(dict(cfg, safe=True), random.Random(seed))
                    hb.dt = sa.dt / 2
                    for _ in range(80):
                        hb.step()
                    ref = max(max(abs(hb.particles[i].x - sa.particles[i].x), abs(hb.particles[i].y - sa.particles[i].y)) for i in range(sa.N))
                numeric.append({"cfg": name, "fam": cfg["fam"], "diff": d, "ref": ref})
    if any(c["fam"] == "whfast" for c in cfgs):
        extras(numeric, seed)
    json.dump({"inner": inner_out, "numeric": numeric}, open(inner_file, "w"))


if __name__ == "__main__":
    main()
