"""C12 -- coordinate transformations are mutual inverses and preserve the centre of mass.

 E4  Transform.tla defines Jacobi, democratic-heliocentric, WHDS and barycentric coordinates from their
     definitions as exact rational linear maps; TLC evaluates them on a lattice (N <= 4, masses 0..4
     with m_0 > 0 incl. zero-mass bodies, N_active in 1..N, inputs = every unit vector + one generic
     integer vector: 11328 rows), checks the specification's own theorems (inverse of forward,
     slot 0 = centre of mass, barycentric momentum zero) and prints the fractions.  Every row is passed to
     the 17 exported reb_particles_transform_* functions on harness-owned arrays, the vector being
     written to all nine components with distinct prime scalings (so that a component borrowed from
     another is visible): forward results equal the fractions to rounding error (32 ulp of the largest magnitude involved), the pos / posvel / acc variants agree, slot 0 carries (M, R, V), every
     inverse returns the input, also when the mass array is separate from the transformed array.
"""
import json
import os
import re
import shutil

import common
from common import MachineryError

LEVEL = "model_checking"
HERE = os.path.dirname(os.path.abspath(__file__))


def run(tier, rep):
    common.build()
    sc = common.scratch("c12")
    quick = tier == "quick"
    res = common.run_tlc("Transform", "Transform", workers=1, coverage=False, timeout=1800)
    if res.violation:
        rep.violation("model:Transform:" + res.violation, "Transform definitions violate " + res.violation, {"tlc": res.trace[-2:]})
        return
    if not res.ok:
        raise MachineryError("Transform did not complete: %s" % res.out[-1500:])
    rows = sorted(set(m.group(1).replace('\\"', '"') for m in re.finditer(r'^<<"T", "(.*)">>$', res.out, re.M)))
    if len(rows) < 10000:
        raise MachineryError("Transform printed only %d rows" % len(rows))
    rep.add(states=res.distinct, transitions=res.states)
    tf = os.path.join(sc, "table.ndjson")
    open(tf, "w").write("\n".join(rows) + "\n")
    out = os.path.join(sc, "out.json")
    r = common.run_worker(os.path.join(HERE, "w_c12.py"), [tf, out, "3" if quick else "1"], timeout=3000)
    if r.returncode != 0:
        if r.returncode < 0:
            rep.violation("crash", "real code crashed (signal %d) in a transformation" % -r.returncode, {"stderr": r.stderr[-1500:]})
            return
        raise MachineryError("worker failed: %s" % r.stderr[-2500:])
    o = json.load(open(out))
    rep.add(evaluations=o["calls"], traces_validated_against_impl=o["rows"], distinct_nontrivial=o["rows"],
            rule="rows of the TLC-evaluated lattice (masses x N_active x input vector); every row distinct", exhaustive=not quick)
    rep.cov.update({"rows_executed": o["rows"], "of_rows": len(rows), "function_calls": o["calls"], "semiactive_equivalence_worst": o.get("semiactive_worst")})
    for s in o["samples"]:
        rep.sample({"kind": "lattice row", **s})
    for v in o["violations"]:
        if v["fn"].startswith("integrator "):
            rep.violation("%s:%s" % (v["fn"], v["clause"][:40]), "%s %s: %s (difference %s)" % (v["fn"], json.dumps(v["row"]), v["clause"], v.get("got")), v)
            continue
        rep.violation("%s:%s" % (v["fn"], v.get("component", v["clause"][:20])),
                      "reb_particles_transform_%s: %s fails for masses %s, N_active %s, input %s: body %s component %s got %s, specified %s"
                      % (v["fn"], v["clause"], v["row"]["m"], v["row"]["na"], ("unit vector e_%d" % (v["row"]["j"] - 1)) if v["row"]["j"] else "generic vector",
                         v.get("body"), v.get("component"), v.get("got"), v.get("want", v.get("original"))), v)
    rep.assumptions += ["maps are linear: unit vectors plus one generic vector per (masses, N_active); N <= 4; integer masses (mass ratios down to 1e-12 are not exercised)",
                        "round-trip tolerance 64 ulp"]
    shutil.rmtree(sc, ignore_errors=True)


def replay(path):
    print(json.dumps(json.load(open(path)), indent=1)[:4000])
    return 0
