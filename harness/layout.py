"""Independent C view of struct reb_simulation members: offsetof/sizeof printed by tiny generated
C programs compiled against /repo/src/rebound.h (not taken from the library's descriptor table and
not from the Python ctypes mirror)."""
import json
import os
import subprocess
from concurrent.futures import ThreadPoolExecutor

import common


def member_layout(names, struct="struct reb_simulation"):
    d = common.build("o3")
    cache = os.path.join(d, "layout_%s.json" % struct.replace(" ", "_"))
    have = {}
    if os.path.exists(cache):
        have = json.load(open(cache))
    todo = [n for n in names if n not in have]
    if todo:
        work = os.path.join(d, "layout_tmp")
        os.makedirs(work, exist_ok=True)

        def one(arg):
            i, n = arg
            src = os.path.join(work, "m%d.c" % i)
            exe = os.path.join(work, "m%d" % i)
            with open(src, "w") as fh:
                fh.write('#include <stdio.h>\n#include <stddef.h>\n#include "rebound.h"\n'
                         'int main(){ %s* p = 0; printf("%%zu %%zu\\n", offsetof(%s, %s), sizeof(p->%s)); return 0; }\n'
                         % (struct, struct, n, n))
            r = subprocess.run(["gcc", "-std=gnu99", "-w", "-D_GNU_SOURCE", "-DLIBREBOUND", "-DSERVER", "-I", os.path.join(common.REPO, "src"), src, "-o", exe],
                               capture_output=True, text=True)
            if r.returncode != 0:
                return n, None
            o = subprocess.run([exe], capture_output=True, text=True).stdout.split()
            return n, [int(o[0]), int(o[1])]
        with ThreadPoolExecutor(max_workers=common.NCPU) as ex:
            for n, v in ex.map(one, list(enumerate(todo))):
                have[n] = v
        json.dump(have, open(cache, "w"))
        subprocess.run(["rm", "-rf", work])
    return {n: have[n] for n in names}
