"""Replay Cadence behaviours (from `tlc -simulate`) on real simulations and compare the projected
state (t, steps_done, next, next_step and every snapshot stored in the archive) after each action.

 usage: w_c06_cad.py <behaviours.json> <out.json> <dir>
"""
import json
import os
import sys
import warnings

import rebound

TICK = 0.125


def project(sim, fn):
    st = {"t": sim.t / TICK, "steps": int(sim.steps_done), "next": sim.simulationarchive_next / TICK,
          "nextStep": int(sim.simulationarchive_next_step), "snaps": []}
    if os.path.exists(fn):
        with warnings.catch_warnings():
            warnings.simplefilter("ignore")
            sa = rebound.Simulationarchive(fn)
            for k in range(len(sa)):
                s = sa[k]
                st["snaps"].append({"t": s.t / TICK, "steps": int(s.steps_done), "next": s.simulationarchive_next / TICK,
                                    "nextStep": int(s.simulationarchive_next_step)})
            del sa
    return st


def replay(beh, fn):
    if os.path.exists(fn):
        os.remove(fn)
    init = beh[0][1]
    sim = rebound.Simulation()
    sim.add(m=1.0)
    sim.add(m=1e-3, a=1.0)
    sim.add(m=1e-3, a=1.8)
    sim.integrator = "whfast"
    sim.dt = init["dt"] * TICK * init["dir"]
    sim.exact_finish_time = 0
    hist = []
    for act, exp in beh[1:]:
        a = exp["last"]
        hist.append(list(a))
        with warnings.catch_warnings():
            warnings.simplefilter("ignore")
            if a[0] == "Integrate":
                sim.integrate(sim.t + a[1] * sim.dt)
            elif a[0] == "AttachInterval":
                sim.save_to_file(fn, interval=a[1] * TICK)
            elif a[0] == "AttachStep":
                sim.save_to_file(fn, step=a[1])
            elif a[0] == "Manual":
                sim.save_to_file(fn)
            elif a[0] == "Restart":
                sim = rebound.Simulation(fn)   # last snapshot
                sim.exact_finish_time = 0
        got = project(sim, fn)
        want = {"t": exp["t"], "steps": exp["steps"], "next": exp["next"], "nextStep": exp["nextStep"],
                "snaps": [{"t": s["t"], "steps": s["steps"], "next": s["next"], "nextStep": s["nextStep"]} for s in exp["snaps"]]}
        # next/next_step only meaningful for the active mode; compare what the spec defines
        ok = got["t"] == want["t"] and got["steps"] == want["steps"] and len(got["snaps"]) == len(want["snaps"])
        if ok and exp["ival"] != 0:
            ok = got["next"] == want["next"] and all(g["next"] == w["next"] for g, w in zip(got["snaps"], want["snaps"]))
        if ok and exp["astep"] != 0:
            ok = got["nextStep"] == want["nextStep"] and all(g["nextStep"] == w["nextStep"] for g, w in zip(got["snaps"], want["snaps"]))
        if ok:
            ok = all(g["t"] == w["t"] and g["steps"] == w["steps"] for g, w in zip(got["snaps"], want["snaps"]))
        if not ok:
            return {"history": hist, "got": got, "want": want}
    return None


if __name__ == "__main__":
    behs = json.load(open(sys.argv[1]))
    d = sys.argv[3]
    out = {"replayed": 0, "actions": 0, "violations": [], "samples": []}
    for i, beh in enumerate(behs):
        v = replay(beh, os.path.join(d, "cad_%d.bin" % os.getpid()))
        out["replayed"] += 1
        out["actions"] += len(beh) - 1
        if v:
            out["violations"].append(v)
        if i < 2:
            out["samples"].append([b[1]["last"] for b in beh[1:]])
    json.dump(out, open(sys.argv[2], "w"))
