"""C12 worker: executes every row of Transform.tla's table through the exported transformation functions.

 usage: w_c12.py <table.ndjson> <out.json> <stride>
"""
import ctypes
import json
import math
import sys
from fractions import Fraction

import rebound
from rebound import clibrebound, Particle

SC = {"x": 1, "y": 2, "z": 3, "vx": 5, "vy": 7, "vz": 11, "ax": 13, "ay": 17, "az": 19}
POS, VEL, ACC = ("x", "y", "z"), ("vx", "vy", "vz"), ("ax", "ay", "az")


def arr(n):
    return (Particle * n)()


def fill(a, m, vec):
    for i in range(len(m)):
        a[i].m = float(m[i])
        for c, s in SC.items():
            setattr(a[i], c, float(s * vec[i]))


def pow2(d):
    return d & (d - 1) == 0


def close(got, frac, mag=1.0):
    want = float(frac)
    if math.isnan(got):
        return False
    # "to rounding error": the code's operation order (running sums times reciprocal masses) is not exact even
    # when the result is a dyadic number, so a few ulp of the largest magnitude involved are allowed
    return abs(got - want) <= 32 * math.ulp(max(abs(want), mag)) + 1e-300


def check_out(res, name, outarr, comps, exp, row, tag):
    """exp: list of Fractions per body for scale 1"""
    for i in range(len(exp)):
        for c in comps:
            got = getattr(outarr[i], c)
            if not close(got, exp[i] * SC[c], SC[c] * 8.0):
                res["violations"].append({"fn": name, "body": i, "component": c, "got": got, "want": str(exp[i] * SC[c]), "row": row, "clause": tag})
                return False
    return True


def rt_ok(a, b, n, comps, scale=64):
    for i in range(n):
        for c in comps:
            x, y = getattr(a[i], c), getattr(b[i], c)
            if math.isnan(y) or abs(x - y) > scale * max(abs(math.ulp(x)), abs(math.ulp(1.0)) * 1e-3 * 0 + abs(math.ulp(x))) + 1e-13:
                return (i, c, x, y)
    return None


def integrator_binding(res):
    """the integrators use the transformation of THEIR coordinate system: inside an additional-force callback (called between the
    two halves of a step) the inertial particle array must be the validated exported inverse applied to the internal coordinates;
    WHFast in four coordinate systems x force_is_velocity_dependent; MERCURIUS / TRACE: inertial -> heliocentric -> inertial round trip."""
    import rebound
    L = clibrebound
    INV = {"jacobi": "jacobi_to_inertial_posvel", "democraticheliocentric": "democraticheliocentric_to_inertial_posvel",
           "whds": "whds_to_inertial_posvel", "barycentric": "barycentric_to_inertial_posvel"}
    for coord, fn in INV.items():
        for veldep in (0, 1):
            for na in (-1, 3):
                sim = rebound.Simulation()
                sim.add(m=1.0)
                sim.add(m=3e-2, a=1.0, e=0.1, inc=0.2, f=0.3)
                sim.add(m=1e-2, a=1.9, e=0.2, inc=0.1, Omega=1.0, f=2.0)
                sim.add(m=0.0 if na == 3 else 2e-3, a=3.1, e=0.05, inc=0.3, f=4.0)
                sim.move_to_com()
                for p in sim.particles:
                    p.vx += 0.17
                    p.vz -= 0.09
                if na != -1:
                    sim.N_active = na
                sim.integrator = "whfast"
                sim.ri_whfast.coordinates = coord
                sim.force_is_velocity_dependent = veldep
                sim.dt = 0.05
                seen = []

                def af(sp, coord=coord, fn=fn, seen=seen):
                    s_ = sp.contents
                    n = s_.N
                    buf = arr(n)
                    for i in range(n):
                        buf[i].m = s_.particles[i].m
                    pj = s_.ri_whfast._p_jh
                    if fn.startswith("jacobi"):
                        getattr(L, "reb_particles_transform_" + fn)(buf, pj, buf, n, n if s_.N_active == -1 else s_.N_active)
                    else:
                        getattr(L, "reb_particles_transform_" + fn)(buf, pj, n, n if s_.N_active == -1 else s_.N_active)
                    comps = ("x", "y", "z", "vx", "vy", "vz") if s_.force_is_velocity_dependent else ("x", "y", "z")
                    d = max(abs(getattr(buf[i], c) - getattr(s_.particles[i], c)) for i in range(n) for c in comps)
                    seen.append(d)
                sim.additional_forces = af
                sim.steps(3)
                res["calls"] += 3
                if not seen or max(seen) > 1e-13:
                    res["violations"].append({"fn": fn, "clause": "WHFast (%s, force_is_velocity_dependent=%d) hands the force routine the inertial state of its own coordinate system" % (coord, veldep),
                                              "body": None, "component": "max difference", "got": max(seen) if seen else "callback not called", "want": 0.0,
                                              "row": {"m": [1.0, 3e-2, 1e-2, 2e-3], "na": na, "j": 0}})
                sim._additional_forces = type(sim._additional_forces)()
                del sim
    for name, na, ty in [(nm, a_, t_) for nm in ("mercurius", "trace") for a_, t_ in ((-1, 0), (2, 0), (2, 1), (1, 0))]:
        sim = rebound.Simulation()
        sim.add(m=1.0)
        sim.add(m=3e-2, a=1.0, e=0.1, inc=0.2, f=0.3)
        sim.add(m=1e-2, a=1.9, e=0.2, inc=0.1, Omega=1.0, f=2.0)      # behind N_active in some variants, and massive
        sim.move_to_com()
        if na != -1:
            sim.N_active = na
        sim.testparticle_type = ty
        sim.testparticle_hidewarnings = 1
        for p in sim.particles:
            p.x += 2.0
            p.vy += 0.3
        sim.integrator = name
        sim.dt = 1e-3
        sim.step()
        sim.synchronize()
        before = [(p.x, p.y, p.z, p.vx, p.vy, p.vz) for p in sim.particles]
        getattr(L, "reb_integrator_%s_inertial_to_dh" % name)(ctypes.byref(sim))
        getattr(L, "reb_integrator_%s_dh_to_inertial" % name)(ctypes.byref(sim))
        after = [(p.x, p.y, p.z, p.vx, p.vy, p.vz) for p in sim.particles]
        d = max(abs(a - b) for p, q in zip(before, after) for a, b in zip(p, q))
        res["calls"] += 2
        if d > 1e-13:
            res["violations"].append({"fn": "%s inertial_to_dh / dh_to_inertial" % name, "clause": "inverse(forward(q)) = q in a displaced, moving frame", "body": None,
                                      "component": "max difference (testparticle_type %d)" % ty, "got": d, "want": 0.0, "row": {"m": [1.0, 3e-2, 1e-2], "na": na, "j": 0}})


def reused_arrays(res):
    """the internal coordinate array of an integrator is re-used from step to step: a forward transformation with all bodies active followed by
    one with fewer active bodies into the SAME array, then the inverse, must still return the inertial state (nothing stale may be read)"""
    L = clibrebound
    POSV = ("x", "y", "z", "vx", "vy", "vz")
    fam = {"jacobi": ("inertial_to_jacobi_posvel", "jacobi_to_inertial_posvel", True), "democraticheliocentric": ("inertial_to_democraticheliocentric_posvel", "democraticheliocentric_to_inertial_posvel", False),
           "whds": ("inertial_to_whds_posvel", "whds_to_inertial_posvel", False), "barycentric": ("inertial_to_barycentric_posvel", "barycentric_to_inertial_posvel", False)}
    n = 4
    masses = [5.0, 2.0, 3.0, 1.0]
    vec = [float(((7 * i + 3 * k) % 11) - 5) + 0.25 * k for i in range(n) for k in range(6)]
    for coord, (fw, bw, needs_mass) in fam.items():
        for na in (3, 2, 1):
            src = arr(n)
            fill(src, masses, vec)
            pj = arr(n)
            call = (lambda f, a, b, k: getattr(L, "reb_particles_transform_" + f)(a, b, a if f.startswith("inertial") else b, n, k)) if needs_mass else None
            if needs_mass:
                L.reb_particles_transform_inertial_to_jacobi_posvel(src, pj, src, n, n)
                L.reb_particles_transform_inertial_to_jacobi_posvel(src, pj, src, n, na)
            else:
                getattr(L, "reb_particles_transform_" + fw)(src, pj, n, n)
                getattr(L, "reb_particles_transform_" + fw)(src, pj, n, na)
            back = arr(n)
            for i in range(n):
                back[i].m = masses[i]
            if needs_mass:
                L.reb_particles_transform_jacobi_to_inertial_posvel(back, pj, back, n, na)
            else:
                getattr(L, "reb_particles_transform_" + bw)(back, pj, n, na)
            res["calls"] += 3
            bad = rt_ok(src, back, n, POSV)
            mbad = [i for i in range(n) if back[i].m != masses[i]]
            if bad or mbad:
                res["violations"].append({"fn": bw, "clause": "inverse(forward(q)) = q on a re-used coordinate array (first filled with all bodies active)", "body": bad[0] if bad else mbad[0],
                                          "component": bad[1] if bad else "m", "original": bad[2] if bad else masses[mbad[0]], "got": bad[3] if bad else back[mbad[0]].m,
                                          "row": {"m": masses, "na": na, "j": 0}})


def semiactive_equivalence(res):
    """with testparticle_type = 1 a body beyond N_active feels and exerts forces on the active ones and only ignores its like: a system
    with exactly ONE such body is dynamically the all-active system.  Every transformation an integrator applies (forward, inverse,
    position-only inverses inside corrector stages) must use the same active / test split for that to hold."""
    import rebound
    cfgs = []
    for co in ("jacobi", "democraticheliocentric", "whds", "barycentric"):
        for corr in ((0, 3, 5, 11, 17) if co in ("jacobi", "barycentric") else (0,)):      # correctors exist in Jacobi and barycentric coordinates only
            cfgs.append(("whfast", {"coordinates": co, "corrector": corr}))
        cfgs.append(("whfast", {"coordinates": co, "safe_mode": 0}))
    for ker in ("modifiedkick", "composition", "lazy"):
        cfgs.append(("whfast", {"kernel": ker, "corrector": 11}))
    cfgs += [("saba", {}), ("saba", {"type": "cl4"}), ("eos", {}), ("leapfrog", {}), ("ias15", {}), ("bs", {}), ("mercurius", {}), ("trace", {})]
    for name, opts in cfgs:
        out = []
        for semi in (False, True):
            sim = rebound.Simulation()
            sim.add(m=1.0)
            sim.add(m=1e-3, a=1.0, e=0.05, inc=0.02, f=0.3)
            sim.add(m=2e-3, a=1.7, e=0.10, inc=0.05, Omega=0.7, f=2.1)
            sim.add(m=5e-4, a=2.9, e=0.07, inc=0.03, Omega=1.9, f=4.0)
            sim.move_to_com()
            sim.integrator = name
            ri = getattr(sim, "ri_" + name, None)
            for k, v in opts.items():
                setattr(ri, k, v)
            sim.dt = 0.05
            if semi:
                sim.N_active = sim.N - 1
                sim.testparticle_type = 1
            try:
                sim.steps(40)
                sim.synchronize()
            except Exception as e:   # noqa: BLE001
                res["violations"].append({"fn": "integrator " + name, "clause": "run with one semi-active body failed: %s" % str(e)[:80], "row": opts})
                out = None
                break
            out.append([(p.x, p.y, p.z, p.vx, p.vy, p.vz) for p in sim.particles])
        res["calls"] += 2
        if out:
            d = max(abs(a - b) for p, q in zip(*out) for a, b in zip(p, q))
            res.setdefault("semiactive_worst", {})["%s %s" % (name, opts)] = d
            if not d <= 1e-11:
                res["violations"].append({"fn": "integrator " + name, "clause": "one semi-active body (testparticle_type = 1, N_active = N - 1) = all bodies active", "body": -1, "component": "max",
                                          "original": 0.0, "got": d, "row": opts})


def variation_independence(res):
    """variational sets are independent of each other: the evolution of set A does not depend on whether a set B exists"""
    import rebound
    for name, opts in (("whfast", {}), ("whfast", {"safe_mode": 0}), ("ias15", {}), ("bs", {}), ("leapfrog", {})):
        out = []
        for nsets in (1, 2, 3):
            sim = rebound.Simulation()
            sim.add(m=1.0)
            sim.add(m=1e-3, a=1.0, e=0.05, inc=0.02, f=0.3)
            sim.add(m=2e-3, a=1.7, e=0.10, inc=0.05, Omega=0.7, f=2.1)
            sim.move_to_com()
            sim.integrator = name
            ri = getattr(sim, "ri_" + name, None)
            for k, v in opts.items():
                setattr(ri, k, v)
            sim.dt = 0.03
            vs = []
            for k in range(nsets):
                v = sim.add_variation()
                v.particles[1].x = 1.0 + 0.5 * k
                v.particles[2].vy = -0.3 + 0.2 * k
                vs.append(v)
            if name in ("ias15", "bs"):
                sim.integrate(0.75)          # adaptive: the step sizes may depend on every component, the state at a given time may not
            else:
                sim.steps(25)
                sim.synchronize()
            out.append([[(p.x, p.y, p.z, p.vx, p.vy, p.vz) for p in v.particles] for v in vs])
        res["calls"] += 3
        for (i1, k1), (i2, k2) in (((1, 0), (0, 0)), ((2, 0), (0, 0)), ((2, 1), (1, 1))):
            a, b = out[i1][k1], out[i2][k2]
            d = max(abs(x - y) if x == x and y == y else float("inf") for p, q in zip(a, b) for x, y in zip(p, q))
            if not d <= (1e-13 if name not in ("ias15", "bs") else 1e-6):
                res["violations"].append({"fn": "integrator " + name, "clause": "variational set %d evolves differently when %d instead of %d sets exist" % (k1, i1 + 1, i2 + 1),
                                          "body": -1, "component": "max", "original": 0.0, "got": d, "row": opts})


def main():
    table, out, stride = sys.argv[1], sys.argv[2], int(sys.argv[3])
    res = {"rows": 0, "calls": 0, "violations": [], "samples": []}
    L = clibrebound
    for k, ln in enumerate(open(table)):
        if k % stride:
            continue
        row = json.loads(ln)
        m, na, x = row["m"], row["na"], [Fraction(a, b) for a, b in row["x"]]
        n = len(m)
        o = {kk: [Fraction(a, b) for a, b in v] for kk, v in row["out"].items()}
        vec = [float(v) for v in x]
        rid = {"m": m, "na": na, "j": row["j"]}
        res["rows"] += 1
        src = arr(n)
        fill(src, m, vec)
        # ---------------- Jacobi
        pj = arr(n)
        L.reb_particles_transform_inertial_to_jacobi_posvel(src, pj, src, n, na)
        res["calls"] += 1
        ok = check_out(res, "inertial_to_jacobi_posvel", pj, POS + VEL, o["jacobi"], rid, "forward = definition")
        if ok and (pj[0].m != float(sum(m[:na])) or any(pj[i].m != float(m[i]) for i in range(1, n))):
            res["violations"].append({"fn": "inertial_to_jacobi_posvel", "clause": "slot 0 carries the total active mass, other slots their own mass", "row": rid})
        pj2 = arr(n)
        L.reb_particles_transform_inertial_to_jacobi_posvelacc(src, pj2, src, n, na)
        check_out(res, "inertial_to_jacobi_posvelacc", pj2, POS + VEL + ACC, o["jacobi"], rid, "forward = definition")
        pj3 = arr(n)
        L.reb_particles_transform_inertial_to_jacobi_acc(src, pj3, src, n, na)
        check_out(res, "inertial_to_jacobi_acc", pj3, ACC, o["jacobi"], rid, "acc variant = posvelacc variant = definition")
        res["calls"] += 2
        # inverses, with the mass array separate from the Jacobi array (p_j masses of bodies >= 1 are not to be used)
        for perturb in (False, True):
            pjx = arr(n)
            ctypes.memmove(pjx, pj2, ctypes.sizeof(pjx))
            if perturb:
                for i in range(1, n):
                    pjx[i].m = 7.25
            for fn, comps in (("jacobi_to_inertial_posvel", POS + VEL), ("jacobi_to_inertial_pos", POS), ("jacobi_to_inertial_acc", ACC)):
                back = arr(n)
                getattr(L, "reb_particles_transform_" + fn)(back, pjx, src, n, na)
                res["calls"] += 1
                bad = rt_ok(src, back, n, comps)
                if bad:
                    res["violations"].append({"fn": fn, "clause": "inverse(forward(q)) = q" + (" with a separate mass array" if perturb else ""),
                                              "body": bad[0], "component": bad[1], "original": bad[2], "got": bad[3], "row": rid})
        # ---------------- WHDS
        ph = arr(n)
        L.reb_particles_transform_inertial_to_whds_posvel(src, ph, n, na)
        ok1 = check_out(res, "inertial_to_whds_posvel", ph, POS, o["helio"], rid, "forward = definition")
        ok2 = check_out(res, "inertial_to_whds_posvel", ph, VEL, o["whdsv"], rid, "forward = definition")
        for fn, comps in (("whds_to_inertial_posvel", POS + VEL), ("whds_to_inertial_pos", POS)):
            back = arr(n)
            for i in range(n):
                back[i].m = float(m[i])
            getattr(L, "reb_particles_transform_" + fn)(back, ph, n, na)
            bad = rt_ok(src, back, n, comps)
            if bad:
                res["violations"].append({"fn": fn, "clause": "inverse(forward(q)) = q", "body": bad[0], "component": bad[1], "original": bad[2], "got": bad[3], "row": rid})
        # ---------------- democratic heliocentric
        pd = arr(n)
        L.reb_particles_transform_inertial_to_democraticheliocentric_posvel(src, pd, n, na)
        check_out(res, "inertial_to_democraticheliocentric_posvel", pd, POS, o["helio"], rid, "forward = definition")
        check_out(res, "inertial_to_democraticheliocentric_posvel", pd, VEL, o["bary"], rid, "forward = definition")
        for fn, comps in (("democraticheliocentric_to_inertial_posvel", POS + VEL), ("democraticheliocentric_to_inertial_pos", POS)):
            back = arr(n)
            for i in range(n):
                back[i].m = float(m[i])
            getattr(L, "reb_particles_transform_" + fn)(back, pd, n, na)
            bad = rt_ok(src, back, n, comps)
            if bad:
                res["violations"].append({"fn": fn, "clause": "inverse(forward(q)) = q", "body": bad[0], "component": bad[1], "original": bad[2], "got": bad[3], "row": rid})
        # ---------------- barycentric
        pb = arr(n)
        L.reb_particles_transform_inertial_to_barycentric_posvel(src, pb, n, na)
        check_out(res, "inertial_to_barycentric_posvel", pb, POS + VEL, o["bary"], rid, "forward = definition")
        # (reb_particles_transform_inertial_to_barycentric_acc is declared in rebound.h but not defined in the library)
        for i in range(n):
            for c in ACC:
                setattr(pb[i], c, float(o["bary"][i] * SC[c]))
        for fn, comps in (("barycentric_to_inertial_posvel", POS + VEL), ("barycentric_to_inertial_pos", POS), ("barycentric_to_inertial_acc", ACC)):
            back = arr(n)
            for i in range(n):
                back[i].m = float(m[i])
            getattr(L, "reb_particles_transform_" + fn)(back, pb, n, na)
            bad = rt_ok(src, back, n, comps)
            if bad:
                res["violations"].append({"fn": fn, "clause": "inverse(forward(q)) = q", "body": bad[0], "component": bad[1], "original": bad[2], "got": bad[3], "row": rid})
        res["calls"] += 12
        if len(res["samples"]) < 2 and n == 3 and row["j"] == 2:
            res["samples"].append({"row": rid, "jacobi_definition": [str(f) for f in o["jacobi"]], "jacobi_x_from_code": [pj[i].x for i in range(n)]})
        if len(res["violations"]) > 30:
            break
    integrator_binding(res)
    reused_arrays(res)
    semiactive_equivalence(res)
    variation_independence(res)
    json.dump(res, open(out, "w"))


if __name__ == "__main__":
    main()
