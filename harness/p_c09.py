"""C09 -- deferred synchronisation never changes the physics.

 E1  TLC checks Schedule exhaustively: all 252 valid configurations of the WHFast / SABA / EOS /
     MERCURIUS / JANUS / LEAPFROG / SEI families x all call sequences (step, sync, observe,
     setrecalc) up to depth 6: Balanced, UnsafeEqualsSafe (canonical word of unsafe+sync = safe
     word), CorrectorBracket, Palindromic, SyncIdempotent, ObserveInert, KeepTransparent.
 E4  ScheduleEmit: TLC prints every configuration and every inner word (correctors, EOS shell 1,
     processors); the implementation's executed inner words are compared with them.
 E3  call sequences are executed on real simulations for every configuration drawn from TLC's
     enumeration; the operator words recorded by the sub-step hooks, the is_synchronized flag and
     digests of internal coordinates / particles are validated by TLC against Trace_Schedule.
 E5  binding self-test.
 A5  (sampled) safe mode vs safe mode off + synchronise: position difference after 40 steps.
"""
import json
import os
import random
import re
import shutil

import common
import pipeline
from common import MachineryError

LEVEL = "model_checking"
HERE = os.path.dirname(os.path.abspath(__file__))
INVS = ["Balanced", "UnsafeEqualsSafe", "CorrectorBracket", "NoSyncBeforeFirstStep", "Palindromic"]
TINVS = INVS + ["KeepUnsyncTransparent", "SyncTwiceSameAsOnce", "ObserveChangesNothing", "OutputsDoNotChangeTrajectory"]
PROPS = ["SyncIdempotent", "ObserveInert", "KeepTransparent"]


def emit(rep):
    res = common.run_tlc("ScheduleEmit", "ScheduleEmit", workers=1, coverage=False, timeout=900)
    if res.violation:
        rep.violation("model:ScheduleEmit:" + res.violation, "inner-word theorem %s fails (correctors/processors not neutral)" % res.violation,
                      {"tlc": res.out[-1500:]})
        return None, None
    if not res.ok:
        raise MachineryError("ScheduleEmit did not complete: %s" % res.out[-2000:])
    cfgs, inner = {}, {}
    for m in re.finditer(r'^<<"(CFG|IW)", "(.*)">>$', res.out, re.M):
        js = json.loads(m.group(2).replace('\\"', '"'))
        if m.group(1) == "CFG":
            cfgs[json.dumps(js, sort_keys=True)] = js
        else:
            inner[tuple(js["kind"])] = js["word"]
    return list(cfgs.values()), inner


def validate(kind_tag, tracefile, verbose=False):
    name = "gen_Trace_Schedule_%s" % kind_tag
    p = os.path.join(common.SPEC, name + ".cfg")
    with open(p, "w") as fh:
        fh.write("SPECIFICATION TraceSpec\nCONSTRAINT Report\n")
        for i in TINVS:
            fh.write("INVARIANT %s\n" % i)
        fh.write("CHECK_DEADLOCK FALSE\n")
    env = {"TRACE_FILE": tracefile}
    if verbose:
        env["VERBOSE"] = "1"
    try:
        res = common.run_tlc("Trace_Schedule", name, workers=1, env=env, coverage=False, timeout=3000)
    finally:
        os.remove(p)
    acc = set(int(m) for m in re.findall(r'<<"ACC", (\d+)>>', res.out))
    return acc, res


def explain(tracefile, tid, sc):
    line = open(tracefile).read().splitlines()[tid - 1]
    f = os.path.join(sc, "one.ndjson")
    open(f, "w").write(line + "\n")
    acc, res = validate("one", f, verbose=True)
    at = [int(m) for m in re.findall(r'<<"AT", 1, (\d+)>>', res.out)]
    return (max(at) if at else 1), json.loads(line)


def check_traces(rep, tracefile, sc, expect_reject=False):
    n = sum(1 for _ in open(tracefile))
    acc, res = validate("all", tracefile)
    if res.violation:
        st = "\n".join(res.trace[-1:])
        m = re.search(r"/\\ tid = (\d+)", st)
        tid = int(m.group(1)) if m else 0
        ml = re.search(r"/\\ l = (\d+)", st)
        ll = int(ml.group(1)) if ml else 0
        tr = json.loads(open(tracefile).read().splitlines()[tid - 1]) if tid else {}
        if not expect_reject:
            e = tr.get("events", [{}])[ll - 2] if ll >= 2 else {}
            rep.violation("trace:%s:%s" % (tr.get("name"), res.violation),
                          "clause %s violated on a recorded call sequence: config %s, after call #%d '%s' (calls so far %s)"
                          % (res.violation, tr.get("name"), ll - 1, e.get("a"), [x["a"] for x in tr.get("events", [])[:ll - 1]]),
                          {"clause": res.violation, "cfg": tr.get("cfg"), "calls": [x["a"] for x in tr.get("events", [])[:ll - 1]],
                           "last_event": e, "tlc_state": res.trace[-1:]})
        return acc, n, res
    if not res.ok:
        raise MachineryError("trace validation did not complete: %s" % res.out[-2000:])
    if not expect_reject:
        for tid in range(1, n + 1):
            if tid not in acc:
                k, tr = explain(tracefile, tid, sc)
                e = tr["events"][k - 1] if k - 1 < len(tr["events"]) else None
                rep.violation("trace:%s:%s" % (tr["name"], e["a"] if e else "?"),
                              "executed operator word is not the Schedule word: config %s, call #%d '%s' executed %s (is_synchronized after: %s); calls so far %s"
                              % (tr["name"], k, e["a"] if e else "?", json.dumps(e["ops"])[:500] if e else "", e.get("sync") if e else "",
                                 [x["a"] for x in tr["events"][:k]]),
                              {"cfg": tr["cfg"], "calls": [x["a"] for x in tr["events"][:k]], "unmatched_event": e})
                if len(rep.violations) >= 6:
                    break
    return acc, n, res


def self_test(rep, tracefile, sc):
    good = None
    for ln in open(tracefile):
        tr = json.loads(ln)
        if tr["cfg"]["fam"] == "whfast" and not tr["cfg"]["safe"] and sum(1 for e in tr["events"] if e["a"] == "step") >= 2 and tr["bitwise"]:
            good = tr
            break
    if good is None:
        raise MachineryError("self-test: no suitable trace")
    bads = []
    b = json.loads(json.dumps(good))       # 1: halve one com drift of a merged step
    done = False
    for e in b["events"]:
        for o in e["ops"]:
            if o[0] == "C" and o[1] > 60000000 and not done:
                o[1] //= 2
                done = True
    bads.append(b)
    b = json.loads(json.dumps(good))       # 2: drop an operator
    i = next(i for i, e in enumerate(b["events"]) if e["a"] == "step")
    del b["events"][i]["ops"][-1]
    bads.append(b)
    b = json.loads(json.dumps(good))       # 3: an observe that changes the cache
    i = next((i for i, e in enumerate(b["events"]) if e["a"] == "observe"), None)
    if i is not None:
        b["events"][i]["cache"] += 1000
        bads.append(b)
    b = json.loads(json.dumps(good))       # 4: trajectory digest differs in the second run
    idx = [i for i, e in enumerate(b["events"]) if e["a"] == "step"]
    b["events"][idx[-1]]["cache"] += 1000
    bads.append(b)
    for k, bad in enumerate(bads):
        g = os.path.join(sc, "st.ndjson")
        open(g, "w").write(json.dumps(bad) + "\n")
        acc, res = validate("st", g)
        if 1 in acc and not res.violation:
            raise MachineryError("binding self-test failed: corrupted trace #%d accepted" % (k + 1))
    g = os.path.join(sc, "st.ndjson")
    open(g, "w").write(json.dumps(good) + "\n")
    acc, res = validate("st", g)
    if 1 not in acc:
        raise MachineryError("binding self-test: uncorrupted trace rejected")
    rep.cov["binding_self_test"] = "%d corrupted traces rejected (halved com drift, dropped operator, non-inert observe, diverging trajectory digest), original accepted" % len(bads)


def run(tier, rep):
    common.build()
    sc = common.scratch("c09")
    quick = tier == "quick"
    rng = random.Random(common.seed())
    # E1
    name = "gen_MC_Schedule"
    with open(os.path.join(common.SPEC, name + ".cfg"), "w") as fh:
        fh.write("SPECIFICATION Spec\nCONSTRAINT Bound\n" + "".join("INVARIANT %s\n" % i for i in INVS) + "".join("PROPERTY %s\n" % p for p in PROPS) + "CHECK_DEADLOCK FALSE\n")
    try:
        res = common.run_tlc("Schedule", name, timeout=3000)
    finally:
        os.remove(os.path.join(common.SPEC, name + ".cfg"))
    if res.violation:
        rep.violation("model:Schedule:" + res.violation, "Schedule design violates " + res.violation, {"tlc_trace": res.trace[-8:]})
        return
    common.tlc_must_pass(res, "Schedule", require_actions=["Step", "Sync", "Observe", "SetRecalc"])
    rep.add(states=res.distinct, transitions=res.states)
    # E4 tables
    cfgs, inner = emit(rep)
    if cfgs is None:
        return
    rep.cov["configurations"] = len(cfgs)
    rep.cov["inner_word_kinds"] = len(inner)
    if quick:
        byfam = {}
        for c in cfgs:
            byfam.setdefault(c["fam"], []).append(c)
        sel = []
        for fam, lst in sorted(byfam.items()):
            lst.sort(key=lambda c: json.dumps(c, sort_keys=True))
            rng.shuffle(lst)
            k = {"whfast": 22, "saba": 16, "eos": 10}.get(fam, 5)       # (whfast512: all four)
            sel += lst[:k]
        # always include the keep_unsynchronized corners that admit variational particles
        for c in byfam.get("whfast", []):
            if c["coord"] == "jacobi" and c["kernel"] == "default" and c["keep"] and c["corr"] in (0, 7) and c["corr2"] == 0 and c["var"] and c not in sel:
                sel.append(c)
        for c in byfam.get("saba", []):
            if c["keep"] and c["typ"] in (0, 6) and c["tcorr"] == 0 and c not in sel:
                sel.append(c)
        cfgs = sel
    # WHFast512 needs the AVX512 build; its configurations run in a second worker on that variant (when the CPU has the instructions)
    c512 = [c for c in cfgs if c["fam"] == "whfast512"]
    cfgs = [c for c in cfgs if c["fam"] != "whfast512"]
    cf = os.path.join(sc, "cfgs.json")
    json.dump(cfgs, open(cf, "w"))
    tf = os.path.join(sc, "traces.ndjson")
    inf = os.path.join(sc, "inner.json")
    env = {common.GUARD: "1", "REBOUND_VERIF_TRACE": os.path.join(sc, "hook.txt")}
    r = common.run_worker(os.path.join(HERE, "w_c09.py"), [cf, tf, inf, str(common.seed()), tier], env=env, timeout=3000)
    if r.returncode != 0:
        if r.returncode < 0:
            rep.violation("crash", "real code crashed (signal %d) executing a call sequence" % -r.returncode, {"stderr": r.stderr[-2000:]})
            return
        raise MachineryError("worker failed: %s" % r.stderr[-3000:])
    extra_numeric = []
    if c512 and "avx512f" in open("/proc/cpuinfo").read():
        common.build("avx512")
        cf5, tf5, inf5 = os.path.join(sc, "cfgs512.json"), os.path.join(sc, "traces512.ndjson"), os.path.join(sc, "inner512.json")
        json.dump(c512, open(cf5, "w"))
        r = common.run_worker(os.path.join(HERE, "w_c09.py"), [cf5, tf5, inf5, str(common.seed()), "thorough"], env=env, variant="avx512", timeout=3000)
        if r.returncode != 0:
            if r.returncode < 0:
                rep.violation("crash:whfast512", "real code crashed (signal %d) executing a WHFast512 call sequence" % -r.returncode, {"stderr": r.stderr[-2000:]})
                return
            raise MachineryError("WHFast512 worker failed: %s" % r.stderr[-3000:])
        with open(tf, "a") as fh:
            fh.write(open(tf5).read())
        extra_numeric = json.load(open(inf5))["numeric"]
        rep.cov["whfast512"] = "%d configurations traced on the AVX512 build" % len(c512)
    else:
        rep.cov["whfast512"] = "not exercised (no AVX512 on this CPU)"
    if not os.path.getsize(os.path.join(sc, "hook.txt")):
        raise MachineryError("no hook output (hook layer not compiled in?)")
    acc, n, res = check_traces(rep, tf, sc)
    rep.add(traces_validated_against_impl=n, evaluations=n, states=res.distinct, transitions=res.states)
    tr = json.loads(open(tf).readline())
    rep.sample({"kind": "code->spec trace", "cfg": tr["name"], "calls": tr["calls"], "first_call": tr["events"][0]})
    # inner words
    o = json.load(open(inf))
    nin, kinds = 0, set()
    for w in o["inner"]:
        k = tuple(w["kind"])
        kinds.add(k)
        nin += 1
        exp = inner.get(k)
        if k[0] == "sabacorr":
            # modified-kick corrector: one interaction step of length cc (jerk in place of the acceleration); lazy: none
            exp = [["V", w["rel"], 0]] if k[1] == 1 else []
        ok = exp is not None and len(exp) == len(w["word"]) and all(
            a[0] == b[0] and abs(a[1] - b[1]) <= 3 and abs(a[2] - b[2]) <= 3 for a, b in zip(exp, w["word"]))
        if not ok:
            rep.violation("inner:%s" % (k,), "inner operator word of %s differs from the specification (config %s): executed %s, specified %s"
                          % (k, w["cfg"], json.dumps(w["word"])[:400], json.dumps(exp)[:400]), {"kind": k, "cfg": w["cfg"], "executed": w["word"], "specified": exp})
    rep.cov["inner_words_checked"] = nin
    rep.cov["inner_kinds_seen"] = len(kinds)
    # A5 sampled clause
    worst = {}
    for x in o["numeric"] + extra_numeric:
        lim = 1e-10 if x["fam"] != "eos" else 100.0 * (x["ref"] or 0.0) + 1e-10
        worst[x["fam"]] = max(worst.get(x["fam"], 0.0), x["diff"])
        if not (x["diff"] <= lim):
            rep.violation("numeric:%s" % x["cfg"], "safe mode vs deferred synchronisation differ by %.3g after 40 steps (limit %.3g) for %s" % (x["diff"], lim, x["cfg"]), x)
    rep.cov["sampled_safe_vs_unsafe_max_diff"] = worst
    if not rep.violations:
        self_test(rep, tf, sc)
    rep.add(distinct_nontrivial=len(set(json.loads(l)["name"] for l in open(tf))),
            rule="one random call sequence and one three-run bitwise trace per configuration drawn from TLC's enumeration of valid option combinations; "
                 "distinct = configurations exercised; non-trivial = contains at least two steps",
            exhaustive=not quick)
    rep.assumptions += ["operator coefficients compared at 1e-8 dt; tables transcribed once from the pinned sources (ScheduleTables.tla) and validated algebraically by TLC",
                        "safe-vs-unsafe numeric agreement is sampled (A5), not decided",
                        "modifying particles while unsynchronised is outside the documented contract and not exercised"]
    # the phases of one step as the user's callbacks see them (StepPipeline)
    pipeline.run(rep, tier, sc)
    shutil.rmtree(sc, ignore_errors=True)


def replay(path):
    d = json.load(open(path))
    print(json.dumps(d, indent=1)[:4000])
    return 0
