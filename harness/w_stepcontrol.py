"""IAS15 step-size controller worker (spec/StepControl.tla).  usage: w_stepcontrol.py <out.ndjson> <seed> <nruns>"""
import ctypes
import json
import math
import os
import random
import sys
import warnings

TRACE = os.environ["REBOUND_VERIF_TRACE"]
import rebound  # noqa: E402

warnings.simplefilter("ignore")


def hook_since(off, addr):
    out = []
    with open(TRACE) as fh:
        fh.seek(off)
        for line in fh.read().splitlines():
            p = line.split()
            if len(p) >= 3 and int(p[2], 16) == addr and p[0].startswith("ias_"):
                out.append((p[0], [float(x) for x in p[3:]]))
    return out


def attempts(raw):
    """group ias_beg [ias_raw] (ias_rej | ias_acc) into attempt records of Trace_StepControl"""
    ev = []
    i = 0
    while i < len(raw):
        if raw[i][0] != "ias_beg":
            i += 1
            continue
        beg = raw[i][1]
        j = i + 1
        rawp = None
        if j < len(raw) and raw[j][0] == "ias_raw":
            rawp = raw[j][1]
            j += 1
        if j >= len(raw) or raw[j][0] not in ("ias_rej", "ias_acc"):
            i = j
            continue
        end = raw[j]
        t0, d, last0, sum0 = beg
        if rawp is None:
            _, f, t1, last1 = end[1]
            ev.append({"fixed": True, "kind": "accept" if end[0] == "ias_acc" else "reject", "final": "d" if f == d else "other", "adv": t1 == t0 + d, "lastok": last1 == d,
                       "bm": False, "lq": False, "g4": False, "sign": True, "restored": True, "atfloor": False, "num": [d, f, t0, t1]})
        else:
            dd, w, m, eps = rawp
            c = w if abs(w) >= m else math.copysign(m, w)
            lq = abs(c / d) < 0.25
            g4 = (c / d) > 4.0 and abs(c / d) > 1.0
            rec = {"fixed": False, "bm": abs(w) < m, "lq": lq, "g4": g4, "atfloor": m > 0 and abs(d) == m, "num": [d, w, m]}
            if end[0] == "ias_rej":
                _, f, t1, sum1 = end[1]
                rec.update({"kind": "reject", "final": "c" if f == c else "other", "sign": math.copysign(1, f) == math.copysign(1, d), "adv": t1 != t0, "restored": sum1 == sum0, "lastok": True})
            else:
                _, f, t1, last1 = end[1]
                rec.update({"kind": "accept", "final": "4d" if (g4 and f == d / 0.25) else "c" if f == c else "other", "sign": math.copysign(1, f) == math.copysign(1, d),
                            "adv": t1 == t0 + d, "lastok": last1 == d, "restored": True})
            rec["num"] += [f]
            ev.append(rec)
        i = j + 1
    return ev


def main():
    out, seed, nruns = sys.argv[1], int(sys.argv[2]), int(sys.argv[3])
    rng = random.Random(seed)
    with open(out, "w") as fh:
        for k in range(nruns):
            sim = rebound.Simulation()
            sim.add(m=1.0)
            e = rng.choice([0.0, 0.3, 0.9, 0.97, 0.995])
            sim.add(m=10 ** rng.uniform(-6, -2), a=1.0, e=e, inc=rng.uniform(0, 0.5), f=rng.uniform(0, 6))
            if rng.random() < 0.6:
                sim.add(m=10 ** rng.uniform(-6, -3), a=rng.uniform(1.5, 4.0), e=rng.uniform(0, 0.4), f=rng.uniform(0, 6))
            sim.move_to_com()
            kind = rng.choice(["ias15", "ias15", "ias15", "mercurius"])
            sim.integrator = kind
            cfg = {"integrator": kind, "e": e}
            if kind == "ias15":
                sim.ri_ias15.adaptive_mode = cfg["mode"] = rng.choice([0, 1, 2, 3])
                sim.ri_ias15.epsilon = cfg["epsilon"] = rng.choice([1e-9, 1e-9, 1e-6, 1e-4, 0.0])
                sim.ri_ias15.min_dt = cfg["min_dt"] = rng.choice([0.0, 0.0, 1e-3, 0.03, 0.2])
            sgn = rng.choice([1, -1]) if kind == "ias15" else 1
            sim.dt = cfg["dt"] = sgn * 10 ** rng.uniform(-3, 0.5)
            addr = ctypes.addressof(sim)
            off = os.path.getsize(TRACE) if os.path.exists(TRACE) else 0
            target = sgn * rng.uniform(2.0, 9.0)
            guard = {"n": 0, "runaway": False}

            def hb(sp, guard=guard, target=target, sgn=sgn):
                # an integration that moves away from its target or takes an absurd number of steps is stopped and reported
                guard["n"] += 1
                s_ = sp.contents
                if guard["n"] > 200000 or sgn * (s_.t - target) > 10.0 or sgn * s_.t < -10.0:
                    guard["runaway"] = True
                    s_._status = 1
            sim.heartbeat = hb
            try:
                sim.integrate(target, exact_finish_time=rng.randrange(2))
            except Exception as ex:  # noqa: BLE001
                cfg["error"] = str(ex)[:80]
            sim._heartbeat = ctypes.cast(None, type(sim._heartbeat))
            ev = attempts(hook_since(off, addr))
            if guard["runaway"]:
                ev = ev[:50] + [{"fixed": False, "kind": "runaway", "final": "other", "bm": False, "lq": False, "g4": False, "sign": False, "adv": False, "lastok": False, "restored": False,
                                 "atfloor": False, "num": [sim.t, target, guard["n"]]}]
            fh.write(json.dumps({"cfg": cfg, "events": ev[:400]}) + "\n")
            if os.path.getsize(TRACE) > 30_000_000:
                open(TRACE, "w").close()
            del sim


if __name__ == "__main__":
    main()
