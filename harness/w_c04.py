"""C04 worker: diagnostics on lattices (exact) and sampled conservation runs.  usage: w_c04.py <table.ndjson> <out.json> <seed> <tier>"""
import json
import math
import random
import sys
import warnings
from fractions import Fraction

import rebound

warnings.simplefilter("ignore")
VEL = [(1, 0, 2), (-1, 3, 0), (2, -2, 1), (0, 1, -3)]
POS3 = [(1, 0, 2), (-2, 3, 1), (4, -1, -3), (0, 5, 2)]


def dec(x):
    return -18 if not x > 1e-18 else int(math.floor(math.log10(x)))


def lattice(res, rows):
    for r in rows:
        if r[0] == "E":
            d = r[1]
            n = d["n"]
            sim = rebound.Simulation()
            sim.G = float(d["g"])
            for i in range(n):
                sim.add(m=float(d["m"][i]), x=float(d["x"][i]), vx=float(VEL[i][0]), vy=float(VEL[i][1]), vz=float(VEL[i][2]))
            sim.N_active = d["na"]
            sim.testparticle_type = d["ty"]
            sim.testparticle_hidewarnings = 1
            sim.energy_offset = float(d["off"])
            want = Fraction(d["twoE"][0], d["twoE"][1]) / 2
            got = sim.energy()
            res["lattice"] += 1
            if not abs(got - float(want)) <= 16 * math.ulp(max(abs(float(want)), 64.0)):
                res["violations"].append({"kind": "energy", "cfg": d, "got": got, "specified": str(want)})
        elif r[0] == "L":
            d = r[1]
            n = d["n"]
            sim = rebound.Simulation()
            for i in range(n):
                sim.add(m=float(d["m"][i]), x=float(POS3[i][0]), y=float(POS3[i][1]), z=float(POS3[i][2]), vx=float(VEL[i][0]), vy=float(VEL[i][1]), vz=float(VEL[i][2]))
            L = sim.angular_momentum()
            res["lattice"] += 1
            if [L[0], L[1], L[2]] != [float(v) for v in d["L"]]:
                res["violations"].append({"kind": "angular-momentum", "cfg": d, "got": list(L), "specified": d["L"]})
            c = sim.com()
            want = [d["MX"][k] / d["M"] for k in range(3)]
            if c.m != float(d["M"]) or any(abs(a - b) > 4 * math.ulp(max(abs(b), 1.0)) for a, b in zip((c.x, c.y, c.z), want)):
                res["violations"].append({"kind": "com", "cfg": d, "got": [c.m, c.x, c.y, c.z], "specified": [d["M"]] + want})


CFGS = [("ias15", {}), ("bs", {}), ("whfast", {}), ("whfast", {"safe_mode": 0, "corrector": 11}), ("whfast", {"coordinates": "democraticheliocentric"}),
        ("whfast", {"coordinates": "whds"}), ("whfast", {"coordinates": "barycentric", "safe_mode": 0}), ("whfast", {"kernel": "lazy", "corrector": 17}),
        ("saba", {}), ("saba", {"type": "cl4", "safe_mode": 0}), ("eos", {}), ("eos", {"phi0": "pmlf6", "phi1": "lf4", "safe_mode": 0}), ("leapfrog", {}), ("janus", {}),
        ("mercurius", {}), ("mercurius", {"safe_mode": 0}), ("trace", {"peri_mode": "FULL_BS"}), ("trace", {"peri_mode": "PARTIAL_BS"}), ("trace", {"peri_mode": "FULL_IAS15"}),
        # the force routine is an option of its own: compensated summation under the schemes that ask it to leave terms out, plain summation under IAS15
        ("whfast", {"coordinates": "democraticheliocentric", "gravity": "compensated"}), ("whfast", {"coordinates": "whds", "gravity": "compensated", "safe_mode": 0}),
        ("whfast", {"gravity": "compensated", "corrector": 5}), ("saba", {"gravity": "compensated"}), ("leapfrog", {"gravity": "compensated"}), ("ias15", {"gravity": "basic"})]


def system(kind, rng, units=True, gidx=None):
    sim = rebound.Simulation()
    GS = [39.47841760435743, 1.0, 0.37, 1.0]
    g = GS[gidx % 4] if gidx is not None else rng.choice(GS)        # units: orbital elements are converted with the simulation's own G
    sim.G = g if units else 1.0                                 # (BS has an absolute tolerance: its accuracy class is tied to the unit system)
    sim.add(m=1.0)
    if kind == "eccentric":
        sim.add(m=1e-3, a=1.0, e=0.9, inc=0.4, Omega=0.3, omega=1.0, f=2.0)
        sim.add(m=3e-4, a=4.0, e=0.1, inc=0.1, f=1.0)
    else:
        sim.add(m=1e-3, a=1.0, e=0.05, inc=0.05, f=rng.uniform(0, 6))
        sim.add(m=3e-4, a=1.9, e=0.1, inc=0.1, Omega=1.0, f=rng.uniform(0, 6))
        sim.add(m=1e-4, a=3.1, e=0.02, f=rng.uniform(0, 6))
    # a frame in which the centre of mass moves
    for p in sim.particles:
        p.vx += 0.21
        p.vz -= 0.07
    return sim


def conservation(res, classes, rng, tier):
    nsteps = 600 if tier == "quick" else 4000
    for gidx, (name, opts) in enumerate(CFGS * (1 if tier == "quick" else 6)):
        gidx = gidx + gidx // len(CFGS)          # every configuration meets every unit system over the repetitions
        for kind in (("regular", "eccentric") if name in ("trace", "mercurius", "ias15", "bs") else ("regular",)):
            sim = system(kind, rng, units=name != "bs", gidx=gidx)
            sim.integrator = name
            ri = getattr(sim, "ri_" + name, None)
            for k, v in opts.items():
                if k == "gravity":
                    sim.gravity = v
                else:
                    setattr(ri, k, v)
            sim.dt = (0.02 if kind == "eccentric" else 0.03) / math.sqrt(sim.G)       # the same fraction of an orbit in every unit system
            M = sum(p.m for p in sim.particles)
            P0 = [sum(p.m * getattr(p, c) for p in sim.particles) for c in ("vx", "vy", "vz")]
            c0 = sim.com()
            C0 = (c0.x, c0.y, c0.z)
            L0 = sim.angular_momentum()
            Ln = math.sqrt(sum(x * x for x in L0))
            E0 = sim.energy()
            t0 = sim.t
            worst = {"P": 0.0, "C": 0.0, "L": 0.0, "E": 0.0}
            half = {"a": 0.0, "b": 0.0}
            chunks = 12
            ok = True
            for ch in range(chunks):
                try:
                    sim.integrate(sim.t + nsteps / chunks * sim.dt, exact_finish_time=0)     # interleaved integrate / synchronise
                except Exception as e:  # noqa: BLE001
                    res["violations"].append({"kind": "run-failed", "integrator": name, "opts": opts, "system": kind, "error": str(e)[:100]})
                    ok = False
                    break
                P = [sum(p.m * getattr(p, c) for p in sim.particles) for c in ("vx", "vy", "vz")]
                c = sim.com()
                L = sim.angular_momentum()
                E = sim.energy()
                Pn = max(1e-300, math.sqrt(sum(x * x for x in P0)))
                worst["P"] = max(worst["P"], max(abs(a - b) for a, b in zip(P, P0)) / Pn)
                drift = [C0[k] + P0[k] / M * (sim.t - t0) for k in range(3)]
                worst["C"] = max(worst["C"], max(abs(a - b) for a, b in zip((c.x, c.y, c.z), drift)) / max(1.0, abs(sim.t - t0)))
                # rounding scale of the sum m r x v in this (moving) frame
                Ls = max(Ln, sum(p.m * math.sqrt(p.x ** 2 + p.y ** 2 + p.z ** 2) * math.sqrt(p.vx ** 2 + p.vy ** 2 + p.vz ** 2) for p in sim.particles))
                worst["L"] = max(worst["L"], math.sqrt(sum((a - b) ** 2 for a, b in zip(L, L0))) / Ls)
                dE = abs((E - E0) / E0)
                worst["E"] = max(worst["E"], dE)
                half["a" if ch < chunks // 2 else "b"] = max(half["a" if ch < chunks // 2 else "b"], dE)
            if not ok:
                continue
            res["runs"] += 1
            cl = classes["whfast_barycentric" if name == "whfast" and opts.get("coordinates") == "barycentric" else name]
            lab = "%s %s (%s system)" % (name, opts, kind)
            res["observed"][lab] = {k: dec(v) for k, v in worst.items()}
            if dec(worst["P"]) > cl[0] or dec(worst["C"]) > cl[0]:
                res["violations"].append({"kind": "momentum/com", "integrator": name, "opts": opts, "system": kind, "P": worst["P"], "C": worst["C"], "class": cl[0]})
            if dec(worst["L"]) > cl[1]:
                res["violations"].append({"kind": "angular-momentum-drift", "integrator": name, "opts": opts, "system": kind, "L": worst["L"], "class": cl[1]})
            if dec(worst["E"]) > cl[2]:
                res["violations"].append({"kind": "energy-error", "integrator": name, "opts": opts, "system": kind, "E": worst["E"], "class": cl[2]})
            elif name not in ("ias15", "bs") and kind == "regular" and nsteps >= 4000 and half["b"] > 8 * max(half["a"], 1e-12) and half["b"] > 1e-8:      # (errors at the 1e-10 level wander by such factors with the phase)
                # "bounded and non-drifting": the running maximum of the second half (about ten inner orbits) against the first
                res["violations"].append({"kind": "energy-drift", "integrator": name, "opts": opts, "system": kind, "first_half": half["a"], "second_half": half["b"]})


PROBE_CFGS = CFGS + [("whfast", {"kernel": "modifiedkick"}), ("whfast", {"kernel": "composition"}), ("whfast", {"kernel": "lazy"}),
                     ("saba", {"type": "cm2"}), ("saba", {"type": "cm4", "safe_mode": 0}), ("saba", {"type": "10,6,4"}), ("saba", {"type": "h8,6,4"})] + \
    [("eos", {"phi0": a, "phi1": b, "safe_mode": sm}) for a, b, sm in (("pmlf4", "lf", 1), ("pmlf6", "lf", 1), ("lf", "pmlf4", 1), ("lf4", "pmlf6", 0), ("pmlf4", "pmlf4", 0),
                                                                        ("plf7_6_4", "lf8", 1), ("lf8_6_4", "lf4_2", 0))]


def momentum_probe(res, rng):
    """Newton's third law inside every sub-step: a heavy, very unequal system stepped a few times with a large step; total
    momentum and the uniform motion of the centre of mass must hold to rounding whatever the scheme's accuracy is"""
    worst = {}
    for name, opts in PROBE_CFGS:
        sim = rebound.Simulation()
        sim.add(m=1.0)
        sim.add(m=5e-2, a=1.0, e=0.1, inc=0.2, f=rng.uniform(0, 6))
        sim.add(m=8e-3, a=1.9, e=0.2, inc=0.1, Omega=1.0, f=rng.uniform(0, 6))
        sim.add(m=1e-3, a=3.3, e=0.05, inc=0.3, Omega=2.0, f=rng.uniform(0, 6))
        for p in sim.particles:
            p.vx += 0.11
            p.vy -= 0.05
        sim.integrator = name
        ri = getattr(sim, "ri_" + name, None)
        for k, v in opts.items():
            if k == "gravity":
                sim.gravity = v
            else:
                setattr(ri, k, v)
        sim.dt = 0.11
        M = sum(p.m for p in sim.particles)
        P0 = [sum(p.m * getattr(p, c) for p in sim.particles) for c in ("vx", "vy", "vz")]
        c0 = sim.com()
        scale = sum(p.m * math.sqrt(p.vx ** 2 + p.vy ** 2 + p.vz ** 2) for p in sim.particles)
        try:
            sim.steps(25)
            sim.synchronize()
        except Exception as e:  # noqa: BLE001
            res["violations"].append({"kind": "run-failed", "integrator": name, "opts": opts, "system": "heavy", "error": str(e)[:100]})
            continue
        P = [sum(p.m * getattr(p, c) for p in sim.particles) for c in ("vx", "vy", "vz")]
        c = sim.com()
        dP = max(abs(a - b) for a, b in zip(P, P0)) / scale
        dC = max(abs(getattr(c, q) - (getattr(c0, q) + P0[k] / M * sim.t)) for k, q in enumerate("xyz"))
        res["probes"] = res.get("probes", 0) + 1
        worst["%s %s" % (name, opts)] = (dP, dC)
        lim = {"bs": 1e-12, "janus": 1e-12}.get(name, 1e-13)        # (JANUS rounds to its integer grid every sub-step)
        if not (dP <= lim and dC <= 50 * lim):
            res["violations"].append({"kind": "momentum-probe", "integrator": name, "opts": opts, "system": "heavy", "P": dP, "C": dC, "class": lim})
    res["probe_worst"] = {k: [float("%.2g" % v[0]), float("%.2g" % v[1])] for k, v in worst.items()}


ENC_PLANETS = {"big": dict(m=2e-3, a=6.0, e=0.02, inc=0.03, f=2.0), "p1": dict(m=3e-4, a=1.0, e=0.05, inc=0.01, f=0.0),
               "p2": dict(m=1e-4, a=1.09, e=0.05, inc=0.02, omega=1.0, f=-1.3)}


def encounter_energy(res, tier):
    """hybrid integrators through repeated planet-planet encounters: the energy error stays in the scheme's class whichever way the
    particles are ordered in the array (the encountering pair at indices 2,3 with an uninvolved massive planet at index 1, or at 1,2)"""
    out = {}
    for name, opts in (("mercurius", {}), ("mercurius", {"safe_mode": 0}), ("trace", {}), ("trace", {"peri_mode": "PARTIAL_BS"})):
        for order in (("big", "p1", "p2"), ("p1", "p2", "big")):
            sim = rebound.Simulation()
            sim.integrator = name
            for k, v in opts.items():
                setattr(getattr(sim, "ri_" + name), k, v)
            sim.add(m=1.0)
            for k in order:
                sim.add(primary=sim.particles[0], **ENC_PLANETS[k])
            sim.move_to_com()
            sim.dt = 0.02 * 2.0 * math.pi
            e0 = sim.energy()
            emax = 0.0
            for i in range(120 if tier == "quick" else 400):
                sim.integrate(sim.t + math.pi, exact_finish_time=0)
                emax = max(emax, abs((sim.energy() - e0) / e0))
            res["runs"] += 1
            out["%s %s order %s" % (name, opts, "/".join(order))] = float("%.2g" % emax)
            if not emax <= ENC_CLASS:
                res["violations"].append({"kind": "encounter-energy", "integrator": name, "opts": opts, "system": "encounter, array order " + "/".join(order), "E": emax, "class": ENC_CLASS})
    res["encounter_energy"] = out


ENC_CLASS = 1e-4


def merger_runs(res):
    """a merging collision in the middle of a run, every integrator: N drops by exactly one, total mass is unchanged, total momentum and the
    uniform motion of the centre of mass hold to rounding across the merger AND over the steps that follow it (an integrator that
    keeps its own copy of the state must notice that the particle array changed)"""
    worst = {}
    for name, opts in (("ias15", {}), ("bs", {}), ("whfast", {}), ("whfast", {"coordinates": "democraticheliocentric"}), ("whfast", {"coordinates": "whds"}),
                       ("saba", {}), ("eos", {}), ("leapfrog", {}), ("janus", {}), ("mercurius", {}), ("trace", {})):
        sim = rebound.Simulation()
        sim.add(m=1.0, r=1e-3)
        sim.add(m=1e-3, a=1.0, e=0.02, r=2e-3)
        sim.add(m=5e-4, a=1.8, e=0.05, f=2.0, r=2e-3)
        # two small bodies on a collision course far from the planets
        sim.add(m=2e-4, x=3.0, y=0.0, z=0.1, vx=0.0, vy=0.55, vz=0.0, r=0.02)
        sim.add(m=1e-4, x=3.0 + 0.2, y=0.0, z=0.1, vx=-0.9, vy=0.55, vz=0.0, r=0.02)
        for p in sim.particles:
            p.vx += 0.07
            p.vz -= 0.03
        sim.integrator = name
        ri = getattr(sim, "ri_" + name, None)
        for k, v in opts.items():
            setattr(ri, k, v)
        sim.collision = "direct"
        sim.collision_resolve = "merge"
        sim.dt = 0.01
        M0 = sum(p.m for p in sim.particles)
        P0 = [sum(p.m * getattr(p, c) for p in sim.particles) for c in ("vx", "vy", "vz")]
        c0 = sim.com()
        scale = sum(p.m * math.sqrt(p.vx ** 2 + p.vy ** 2 + p.vz ** 2) for p in sim.particles)
        N0 = sim.N
        bad = None
        try:
            for k in range(60):
                sim.step()
                sim.synchronize()
                M = sum(p.m for p in sim.particles)
                P = [sum(p.m * getattr(p, c) for p in sim.particles) for c in ("vx", "vy", "vz")]
                c = sim.com()
                dP = max(abs(a - b) for a, b in zip(P, P0)) / scale
                dC = max(abs(getattr(c, q) - (getattr(c0, q) + P0[i] / M0 * sim.t)) for i, q in enumerate("xyz"))
                lim = 1e-12 if name in ("janus", "bs") else 1e-13
                if abs(M - M0) > 1e-15 or dP > lim or dC > 100 * lim or sim.N not in (N0, N0 - 1):
                    bad = {"step": k + 1, "N": sim.N, "dM": M - M0, "dP": dP, "dC": dC}
                    break
                worst[name + str(opts)] = max(worst.get(name + str(opts), 0.0), dP)
        except Exception as e:  # noqa: BLE001
            bad = {"error": str(e)[:100]}
        res["runs"] += 1
        if bad is None and sim.N != N0 - 1:
            bad = {"note": "the pair never merged or merged more than once", "N": sim.N}
        if bad:
            res["violations"].append({"kind": "merger", "integrator": name, "opts": opts, "system": "two small bodies merging at x = 3", **bad})
    res["merger_worst_dP"] = worst


def main():
    table, out, seed, tier = sys.argv[1], sys.argv[2], int(sys.argv[3]), sys.argv[4]
    rng = random.Random(seed)
    res = {"lattice": 0, "runs": 0, "violations": [], "observed": {}}
    momentum_probe(res, random.Random(seed + 3))
    encounter_energy(res, tier)
    merger_runs(res)
    rows, classes = [], None
    for ln in open(table):
        r = json.loads(ln)
        if r[0] == "C":
            classes = r[1]
        else:
            rows.append(r)
    lattice(res, rows)
    conservation(res, classes, rng, tier)
    json.dump(res, open(out, "w"))


if __name__ == "__main__":
    main()
