"""C17 -- copies are independent and equal; compare reports exactly the real differences.

 E1  TLC: Stream (term algebra for copy/restore/step/edit/compare on 2-3 objects) exhaustively.
 E2+E3  TLC-simulated Stream behaviours are executed on real simulations in 23 different reachable
     states (every integrator mid-run, variational, MEGNO, tree, collisions, ...); the logged
     per-object digests and comparison answers are validated by TLC against Trace_Stream.
 E4  single-field perturbation sweep over the whole descriptor table: every scalar persisted field
     is perturbed through the header's own offsetof (independent of the descriptor table), and the
     comparison, the stream difference and the save/load round trip are observed.
"""
import glob
import json
import os
import re
import shutil

import common
import layout as layout_mod
from common import MachineryError

LEVEL = "model_checking"
HERE = os.path.dirname(os.path.abspath(__file__))


def get_layout(sc):
    import subprocess
    # descriptor names come from the built library (through a worker), the offsets from the header
    r = common.run_worker(os.path.join(HERE, "w_names.py"), [])
    if r.returncode != 0:
        raise MachineryError("w_names failed: %s" % r.stderr[-800:])
    names = json.loads(r.stdout)
    extra = ["coefficient_of_restitution", "collision_resolve", "additional_forces", "heartbeat", "ri_trace.S", "ri_trace.S_peri",
             "post_timestep_modifications", "free_particle_ap", "pre_timestep_modifications", "ri_mercurius.L", "extras_cleanup"]
    lay = layout_mod.member_layout(sorted(set(names + extra)))
    f = os.path.join(sc, "layout.json")
    json.dump(lay, open(f, "w"))
    return f, lay


def model(rep, quick):
    res = common.run_tlc("Stream", "MC_Stream", timeout=900)
    if res.violation:
        rep.violation("model:Stream:" + res.violation, "Stream design violates " + res.violation, {"tlc_trace": res.trace[-8:]})
        return
    common.tlc_must_pass(res, "Stream", require_actions=["Step", "Edit", "Reproduce", "Compare"])
    rep.add(states=res.distinct, transitions=res.states)


def behaviours(rep, sc, lf, n, routes='{"copy", "pickle", "file", "archive"}', objs='{"A", "B", "C"}'):
    cfg = "gen_Sim_Stream_%d" % os.getpid()
    with open(os.path.join(common.SPEC, cfg + ".cfg"), "w") as fh:
        fh.write('SPECIFICATION Spec\nCONSTANTS\n Objs = %s\n First = "A"\n Fields = {"G", "softening", "exit_max_distance", "wall", "eps"}\n'
                 ' WallFields = {"wall"}\n Routes = %s\n MaxTerms = 12\n MaxDepth = 10\nCONSTRAINT Bound\nCHECK_DEADLOCK FALSE\n' % (objs, routes))
    d = os.path.join(sc, "streamsim")
    os.makedirs(d, exist_ok=True)
    sim = common.run_tlc("Stream", cfg, workers=1, simulate="file=%s/tr,num=%d" % (d, n), depth=10, seed_=common.seed() + 3,
                         coverage=False, timeout=900)
    files = sorted(glob.glob(os.path.join(d, "tr_*")))
    if not files:
        os.remove(os.path.join(common.SPEC, cfg + ".cfg"))
        raise MachineryError("no Stream behaviours: %s" % sim.out[-1200:])
    behs = [common.parse_sim_trace(f) for f in files]
    behs = [b for b in behs if len(b) > 3]
    bf = os.path.join(sc, "stream_behs.json")
    json.dump(behs, open(bf, "w"))
    out = os.path.join(sc, "stream_traces.ndjson")
    r = common.run_worker(os.path.join(HERE, "w_c17.py"), ["behaviours", bf, out, str(common.seed()), lf], timeout=3000)
    if r.returncode != 0:
        os.remove(os.path.join(common.SPEC, cfg + ".cfg"))
        if r.returncode < 0:
            rep.violation("crash:behaviour", "real code crashed (signal %d) replaying a Stream behaviour" % -r.returncode, {"stderr": r.stderr[-1500:]})
            return
        raise MachineryError("w_c17 behaviours failed: %s" % r.stderr[-2000:])
    tcfg = "gen_Trace_Stream_%d" % os.getpid()
    txt = open(os.path.join(common.SPEC, cfg + ".cfg")).read().replace("SPECIFICATION Spec", "SPECIFICATION TraceSpec").replace("CONSTRAINT Bound", "CONSTRAINT Report")
    open(os.path.join(common.SPEC, tcfg + ".cfg"), "w").write(txt)
    res = common.run_tlc("Trace_Stream", tcfg, workers=1, env={"TRACE_FILE": out}, coverage=False, timeout=3000)
    os.remove(os.path.join(common.SPEC, cfg + ".cfg"))
    os.remove(os.path.join(common.SPEC, tcfg + ".cfg"))
    if not res.ok and not res.violation:
        raise MachineryError("Trace_Stream did not complete: %s" % "\n".join(res.errors[:2])[:1500])
    acc = set(int(m) for m in re.findall(r'<<"ACC", (\d+)>>', res.out))
    lines = open(out).read().splitlines()
    rep.add(traces_validated_against_impl=len(lines), evaluations=len(lines), states=res.distinct, transitions=res.states)
    for tid, ln in enumerate(lines, 1):
        tr = json.loads(ln)
        if tid == 1:
            rep.sample({"kind": "spec->code Stream behaviour", "state": tr["state"], "actions": [e["a"] for e in tr["events"]]})
        if tid in acc:
            continue
        # explain: find first event violating a clause (verdict is TLC's)
        why, k = explain(tr["events"])
        rep.violation("behaviour:%s:%s" % (tr["state"], why.split(":")[0]),
                      "Stream behaviour rejected on state %s at action %d: %s; actions=%s" % (tr["state"], k, why, json.dumps([e["a"] for e in tr["events"][:k + 1]])),
                      {"state": tr["state"], "actions": [e["a"] for e in tr["events"]], "why": why})


def explain(events):
    cur = {"A": 1}
    nxt = 2
    terms = {1: ("init",)}
    pd = None
    for k, e in enumerate(events):
        a = e["a"]
        if "error" in e:
            return "operation raised: " + e["error"], k
        prev = dict(cur)
        if a[0] == "Step":
            key = ("step", cur[a[1]])
            idx = next((i for i, t in terms.items() if t == key), None)
            if idx is None:
                idx = nxt
                nxt += 1
                terms[idx] = key
            cur[a[1]] = idx
        elif a[0] == "Edit":
            terms[nxt] = ("edit", cur[a[1]], a[2], nxt)
            cur[a[1]] = nxt
            nxt += 1
        elif a[0] == "Reproduce":
            cur[a[2]] = cur[a[1]]
        dig = e["dig"]
        for x in cur:
            for y in cur:
                if x < y and cur[x] == cur[y] and dig[x] != dig[y]:
                    return "not-bitwise-equal: %s and %s hold the same state (after %s) but their persisted content differs" % (x, y, a), k
        if pd:
            for o in prev:
                if cur.get(o) == prev[o] and o in pd and dig[o] != pd[o]:
                    return "not-independent: %s changed although only %s was operated on" % (o, a), k
        if a[0] == "Compare":
            if e["cmp"] != e["cmp_py"]:
                return "compare-mismatch: C diff says %s, Python == says %s" % (e["cmp"], e["cmp_py"]), k
            if a[3] != "any" and e["cmp"] != a[3]:
                return "compare-wrong: comparison says %s, must be %s" % (e["cmp"], a[3]), k
        pd = dig
    return "rejected (clause not identified)", len(events) - 1


def audit(rep, sc, lf):
    out = os.path.join(sc, "audit.ndjson")
    r = common.run_worker(os.path.join(HERE, "w_c17.py"), ["audit", lf, out], timeout=3000)
    if r.returncode != 0:
        if r.returncode < 0:
            rep.violation("crash:audit", "real code crashed (signal %d) during the field audit" % -r.returncode, {"stderr": r.stderr[-1500:]})
            return
        raise MachineryError("audit failed: %s" % r.stderr[-2000:])
    n = 0
    fields = set()
    for ln in open(out):
        e = json.loads(ln)
        if "skip" in e:
            continue
        n += 1
        fields.add(e["field"])
        f = e["field"]
        if e.get("elem"):
            if "error" in e:
                rep.violation("audit:error:" + f, "round trip of a state with '%s' perturbed raised %s" % (f, e["error"]), e)
            elif not (e["reported"] and e["reported_py"]):
                rep.violation("audit:compare:" + f, "perturbing only '%s' (state %s): comparison reports %s (python %s), expected a difference"
                              % (f, e["state"], e["reported"], e["reported_py"]), e)
            elif e["changed"] != [e["array"]]:
                rep.violation("audit:stream:" + f, "perturbing only '%s' changes stream fields %s" % (f, e["changed"]), e)
            elif not (e["readback_ok"] and e["roundtrip_equal"] and e["roundtrip_stream_equal"]):
                rep.violation("audit:roundtrip:" + f, "'%s' does not survive save/load (readback %s, equal %s, stream %s)"
                              % (f, e["readback_ok"], e["roundtrip_equal"], e["roundtrip_stream_equal"]), e)
            continue
        if e["off_desc"] != e["off_hdr"]:
            rep.violation("audit:offset:" + f, "descriptor '%s' (type %d) points at offset %d, the header puts that member at %d" % (f, e["type"], e["off_desc"], e["off_hdr"]), e)
            continue
        if "error" in e:
            rep.violation("audit:error:" + f, "round trip of a state with '%s' perturbed raised %s" % (f, e["error"]), e)
            continue
        if e["reported"] != (not e["wall"]) or e["reported_py"] != e["reported"]:
            rep.violation("audit:compare:" + f, "perturbing only '%s' (state %s): comparison reports %s (python %s), expected %s"
                          % (f, e["state"], e["reported"], e["reported_py"], not e["wall"]), e)
        if e["changed"] != [f]:
            rep.violation("audit:stream:" + f, "perturbing only '%s' changes stream fields %s" % (f, e["changed"]), e)
        if not (e["readback_ok"] and e["roundtrip_equal"] and e["roundtrip_stream_equal"]):
            rep.violation("audit:roundtrip:" + f, "'%s' does not survive save/load (readback %s, equal %s, stream %s)"
                          % (f, e["readback_ok"], e["roundtrip_equal"], e["roundtrip_stream_equal"]), e)
    rep.add(evaluations=n)
    rep.cov["field_audit"] = {"perturbations": n, "distinct_fields": len(fields)}
    if n < 100:
        raise MachineryError("field audit covered only %d perturbations" % n)


def state_checks(rep, sc, lf):
    out = os.path.join(sc, "states.ndjson")
    r = common.run_worker(os.path.join(HERE, "w_c17.py"), ["states", out, lf], timeout=3000)
    if r.returncode != 0:
        if r.returncode < 0:
            rep.violation("crash:states", "real code crashed (signal %d) in the state checks" % -r.returncode, {"stderr": r.stderr[-1500:]})
            return
        raise MachineryError("state checks failed: %s" % r.stderr[-2000:])
    n = 0
    for ln in open(out):
        e = json.loads(ln)
        n += 1
        if "error" in e:
            rep.violation("state:error:" + e["state"], "state %s: %s" % (e["state"], e["error"]), e)
            continue
        for k, v in e.items():
            if k != "state" and v is not True:
                kind, route = k.rsplit("_", 1)
                rep.violation("state:%s:%s" % (kind, e["state"]),
                              "state %s, route %s: %s is False" % (e["state"], route, kind), e)
    rep.cov["state_checks"] = n
    rep.add(evaluations=n)


def run(tier, rep):
    common.build()
    sc = common.scratch("c17")
    quick = tier == "quick"
    lf, lay = get_layout(sc)
    model(rep, quick)
    state_checks(rep, sc, lf)
    audit(rep, sc, lf)
    behaviours(rep, sc, lf, 120 if quick else 1500)
    rep.add(distinct_nontrivial=rep.cov.get("field_audit", {}).get("distinct_fields", 0) + rep.cov.get("state_checks", 0),
            rule="audit: one perturbation per (state, scalar descriptor); behaviours: TLC -simulate depth 10 over Step/Edit/Reproduce/Compare on 3 objects; "
                 "distinct_nontrivial = distinct perturbed fields + distinct base states")
    rep.assumptions += ["the user re-attaches callbacks after copy/restore (function-pointer members are copied by the harness)",
                        "digest = SHA-256 of all persisted fields with pointer members masked and walltime* left out"]
    shutil.rmtree(sc, ignore_errors=True)
