"""C05 worker: every lattice point (from Lattice.tla, enumerated by TLC) is built as a real
simulation, advanced to a save point, reproduced through a restore route, and original and restored
are continued step by step.  Output: Stream-shaped traces for Trace_Stream (equal terms must have
bit-identical persisted content) plus per-point records.

 usage: w_c05.py <points.json> <out.ndjson> <layout.json> <seed>
"""
import json
import os
import random
import sys
import warnings

import rebound
import project as P
import w_c17 as W


def build(pt, rng):
    sim = rebound.Simulation()
    sim.add(m=1.0)
    sim.add(m=1e-3, a=1.0, e=0.05, f=0.3)
    sim.add(m=3e-4, a=1.9, e=0.1, inc=0.05, f=2.1)
    tp = pt["tp"]
    if tp != "all":
        sim.add(m=0.0 if tp == "tp0" else 1e-9, a=2.7, e=0.03, f=4.0)
        sim.add(m=0.0 if tp == "tp0" else 1e-9, a=3.4, e=0.02, f=5.0)
        sim.N_active = 3
        sim.testparticle_type = 0 if tp == "tp0" else 1
    sim.move_to_com()
    sim.dt = 0.03
    integ = pt["integ"]
    if integ == "sei":
        sim = rebound.Simulation()
        sim.ri_sei.OMEGA = 1.0
        sim.dt = 0.01
        sim.add(m=0, x=0.1, y=0.2, vy=-0.15)
        sim.add(m=0, x=-0.3, y=0.1, vy=0.45)
    sim.integrator = integ
    sim.gravity = pt["grav"] if integ not in ("mercurius", "trace") else sim.gravity
    if integ == "whfast":
        w = sim.ri_whfast
        w.coordinates = pt["coord"]
        w.kernel = pt["kernel"]
        w.corrector = pt["corr"]
        w.corrector2 = pt["corr2"]
        w.safe_mode = pt["safe"]
        w.keep_unsynchronized = pt["keep"]
    elif integ == "saba":
        sim.ri_saba.type = pt["typ"]
        sim.ri_saba.safe_mode = pt["safe"]
        sim.ri_saba.keep_unsynchronized = pt["keep"]
    elif integ == "eos":
        sim.ri_eos.phi0 = pt["typ"]
        sim.ri_eos.phi1 = pt["typ2"]
        sim.ri_eos.n = pt["n"]
        sim.ri_eos.safe_mode = pt["safe"]
    elif integ == "ias15":
        sim.ri_ias15.adaptive_mode = pt["n"]
    elif integ == "janus":
        sim.ri_janus.order = pt["n"]
        sim.ri_janus.scale_pos = 1e-16
        sim.ri_janus.scale_vel = 1e-16
    elif integ == "mercurius":
        sim.ri_mercurius.safe_mode = pt["safe"]
        sim.dt = 0.02
    elif integ == "trace":
        sim.ri_trace.peri_mode = pt["typ"]
        sim.dt = 0.02
    if pt["var"] >= 1:
        v1 = sim.add_variation()
        if pt["var"] >= 2:
            v2 = sim.add_variation()
            sim.add_variation(order=2, first_order=v1, first_order_2=v2)
    return sim


def run_point(pt, route, rng, layout, tmpdir, intern):
    events = []
    sim = build(pt, rng)
    pre = rng.choice([0, 1, 4])
    sim.steps(pre) if pre else None
    savept = "steps%d" % pre
    unsafe = pt["integ"] in ("whfast", "saba", "eos", "mercurius") and pt["safe"] == 0
    # particles may only be modified between steps when the integrator keeps them synchronised
    if pt["var"] == 0 and not unsafe and rng.random() < 0.25 and sim.N > 3:
        sim.remove(sim.N - 1)
        savept += "+remove"
        if rng.random() < 0.5:
            sim.steps(1)
    objs = {"A": sim}

    # getSimulation(keep_unsynchronized=1) deliberately changes the keep_unsynchronized flag and
    # synchronises the particle array for output while keeping the unsynchronised cache; for that
    # route "bit-for-bit" is a statement about the trajectory: digest of (t, synchronised particles)
    # (with variational particles WHFast synchronises after every step and getSimulation leaves the stored flag alone:
    #  the full persisted content must agree there)
    keepflag = route == "getsim" and pt["integ"] in ("whfast", "saba") and pt["safe"] == 0
    traj_only = keepflag and not pt.get("var", 0)
    if route == "getsim" and pt["integ"] in ("eos", "mercurius") and pt["safe"] == 0:
        route = "archive"   # getSimulation synchronises; EOS/MERCURIUS have no keep_unsynchronized: not promised bit-wise

    def tdig(s):
        c = s.copy()
        c.synchronize()
        return intern(("%r|" % c.t).encode() + P.particles_digest(c).encode())

    def log(a, **kw):
        ev = {"a": a}
        ev.update(kw)
        ev["dig"] = {o: (tdig(s) if traj_only else W.sdig(s, intern)) for o, s in objs.items()}
        if traj_only and a[0] == "Compare":
            return      # the flags differ by design on this route; only the trajectory is compared
        events.append(ev)

    # reproduce
    if route == "getsim":
        # getSimulation synchronises the returned simulation; do the same (a no-op on a synchronised
        # state, but it allocates the integrator's cache) on the original so that both sides went
        # through the same documented calls
        if not traj_only:
            sim.synchronize()
        fn = os.path.join(tmpdir, "g_%d.bin" % os.getpid())
        if os.path.exists(fn):
            os.remove(fn)
        sim.save_to_file(fn)
        sa = rebound.Simulationarchive(fn)
        B = sa.getSimulation(sim.t, mode="snapshot", keep_unsynchronized=1) if keepflag else sa.getSimulation(sim.t, mode="snapshot")
        del sa
        os.remove(fn)
        W.reattach(sim, B, layout)
    else:
        B = W.reproduce(sim, route, layout, tmpdir)
    objs["B"] = B
    log(["Reproduce", "A", "B", route])
    # Save(Load(Save(s))) = Save(s): reproduce B once more into C, all three must coincide
    objs["C"] = W.reproduce(B, "pickle", layout, tmpdir)
    log(["Reproduce", "B", "C", "pickle"])
    d1 = W.cdiff(objs["A"], objs["B"])
    log(["Compare", "A", "B", "equal"], cmp="different" if d1 else "equal", cmp_py="different" if not (objs["A"] == objs["B"]) else "equal")
    for k in range(17):
        objs["A"].step()
        log(["Step", "A"])
        objs["B"].step()
        log(["Step", "B"])
        if k in (0, 1, 16):
            d = W.cdiff(objs["A"], objs["B"])
            log(["Compare", "A", "B", "equal"], cmp="different" if d else "equal", cmp_py="different" if not (objs["A"] == objs["B"]) else "equal")
    return {"point": pt, "route": route, "savept": savept, "events": events}


if __name__ == "__main__":
    import faulthandler
    faulthandler.enable()
    pts = json.load(open(sys.argv[1]))
    layout = json.load(open(sys.argv[3]))
    rng = random.Random(int(sys.argv[4]))
    tmpdir = os.path.dirname(sys.argv[2])
    with open(sys.argv[2], "w") as fh:
        for pt, route in pts:
            intern = P.Interner()
            with warnings.catch_warnings():
                warnings.simplefilter("ignore")
                try:
                    tr = run_point(pt, route, rng, layout, tmpdir, intern)
                except Exception as e:   # noqa
                    tr = {"point": pt, "route": route, "savept": "?", "events": [{"a": ["Step", "A"], "dig": {"A": 0}, "error": "%s: %s" % (type(e).__name__, str(e)[:120])}]}
            fh.write(json.dumps(tr) + "\n")
