"""IAS15 step-size controller (spec/StepControl.tla): model checking and hook-trace validation.  Used by p_c08."""
import json
import os
import re

import common
from common import MachineryError

HERE = os.path.dirname(os.path.abspath(__file__))


def validate(path, verbose=False):
    env = {"TRACE_FILE": path}
    if verbose:
        env["VERBOSE"] = "1"
    res = common.run_tlc("Trace_StepControl", "Trace_StepControl", workers=1, env=env, coverage=False, timeout=3000)
    return set(int(m) for m in re.findall(r'<<"ACC", (\d+)>>', res.out)), res


def run(rep, tier, sc):
    for cfg in ("MC_StepControl", "MC_StepControl_nomin"):
        res = common.run_tlc("MC_StepControl", cfg, coverage=False, timeout=1800)
        if res.violation:
            rep.violation("model:StepControl:" + res.violation, "StepControl (%s) violates %s" % (cfg, res.violation), {"tlc": res.trace[-6:]})
            return
        if not res.ok:
            raise MachineryError("StepControl did not complete: %s" % res.out[-1500:])
        rep.add(states=res.distinct, transitions=res.states)
    out = os.path.join(sc, "stepcontrol.ndjson")
    env = {common.GUARD: "1", "REBOUND_VERIF_TRACE": os.path.join(sc, "sc_hook.txt")}
    r = common.run_worker(os.path.join(HERE, "w_stepcontrol.py"), [out, str(common.seed()), "40" if tier == "quick" else "400"], env=env, timeout=3000)
    if r.returncode != 0:
        if r.returncode < 0:
            rep.violation("crash:stepcontrol", "real code crashed (signal %d) in an adaptive integration" % -r.returncode, {"stderr": r.stderr[-1500:]})
            return
        raise MachineryError("w_stepcontrol failed: %s" % r.stderr[-2500:])
    lines = open(out).read().splitlines()
    nev = sum(len(json.loads(ln)["events"]) for ln in lines)
    if nev < 500:
        raise MachineryError("only %d controller attempts recorded" % nev)
    acc, res = validate(out)
    if not res.ok:
        raise MachineryError("Trace_StepControl did not complete: %s" % res.out[-2000:])
    kinds = {}
    for ln in lines:
        for e in json.loads(ln)["events"]:
            k = "%s/%s%s" % (e["kind"], e["final"], " (fixed step)" if e["fixed"] else "")
            kinds[k] = kinds.get(k, 0) + 1
    rep.add(traces_validated_against_impl=len(lines), evaluations=nev)
    rep.cov["controller_attempts"] = {"attempts": nev, "by_outcome": kinds}
    shown = 0
    for tid in range(1, len(lines) + 1):
        if tid in acc:
            continue
        f = os.path.join(sc, "sc_one.ndjson")
        open(f, "w").write(lines[tid - 1] + "\n")
        a1, r1 = validate(f, verbose=True)
        at = [int(x) for x in re.findall(r'<<"AT", 1, (\d+)>>', r1.out)]
        k = max(at) if at else 1
        tr = json.loads(lines[tid - 1])
        e = tr["events"][k - 1] if k - 1 < len(tr["events"]) else None
        rep.violation("stepcontrol:%s:%s" % (tr["cfg"].get("integrator"), (e or {}).get("kind")),
                      "IAS15 step-size controller deviates from StepControl (%s): attempt #%d %s -- [dt, proposal, min_dt, dt afterwards] = %s"
                      % (json.dumps(tr["cfg"]), k, json.dumps({x: e[x] for x in e if x != "num"}) if e else "?", (e or {}).get("num")), {"cfg": tr["cfg"], "attempt": k, "event": e})
        shown += 1
        if shown >= 3:
            break
