"""TRACE step worker (C01 / C02 / C04 clauses of spec/TraceStep.tla).

 usage: w_tracestep.py scripted <outdir> <seed> <count|all> <N> <NA>     switching functions replaced by scripted answers
        w_tracestep.py real     <outdir> <seed> <nsys>                   real switching functions wrapped and recorded
 writes <outdir>/ts_<PeriMode>_<N>_<NA>.ndjson (one trace per step)
"""
import ctypes
import itertools
import json
import os
import random
import sys
import warnings

TRACE = os.environ["REBOUND_VERIF_TRACE"]
import rebound  # noqa: E402
from rebound import clibrebound  # noqa: E402

warnings.simplefilter("ignore")
MODES = ["PARTIAL_BS", "FULL_BS", "FULL_IAS15"]


def hook_since(off, addr):
    out = []
    with open(TRACE) as fh:
        fh.seek(off)
        for line in fh.read().splitlines():
            p = line.split()
            if len(p) >= 3 and int(p[2], 16) == addr and p[0].startswith("tr_"):
                out.append((p[0], [float(x) for x in p[3:]]))
    return out


def bits(x, n):
    x = int(x)
    return [k for k in range(n) if (x >> k) & 1]


def pairs_of(mask, n):
    return [[b // n, b % n] for b in bits(mask, n * n)]


def events_of(raw, n):
    """tr_* hook events of one step -> TraceStep events"""
    ev, word, bs, sum0 = [], [], [], None
    bsna = -1
    for name, a in raw:
        if name == "tr_begin":
            sum0 = [repr(a[0]), repr(a[1])]
        elif name == "tr_pre":
            ev.append({"e": "pre", "C": bool(a[0]), "K": pairs_of(a[3], n), "E": bits(a[4], n)})
        elif name == "tr_int":
            word.append("I")
        elif name == "tr_jump":
            word.append("J0" if a[2] else "J")
        elif name == "tr_wh":
            word += ["W", "B0"]
        elif name == "tr_bs":
            word[-1] = "B"
            bs = bits(a[3], n)
            bsna = int(a[4])
        elif name == "tr_com":
            word.append("Com")
        elif name == "tr_full":
            word.append("Full")
        elif name in ("tr_post", "tr_end"):
            if word:
                ev.append({"e": "word", "w": word, "bs": bs, "bsna": bsna})
                word, bs, bsna = [], [], -1
            if name == "tr_post":
                ev.append({"e": "post", "C": bool(a[0]), "K": pairs_of(a[3], n), "E": bits(a[4], n), "new": bool(a[5])})
            else:
                ev.append({"e": "end", "forced": bool(a[0])})
        elif name == "tr_reject":
            if word:
                ev.append({"e": "word", "w": word, "bs": bs, "bsna": bsna})
                word, bs, bsna = [], [], -1
            ev.append({"e": "reject", "sum": [repr(a[0]), repr(a[1])]})
    return ev, sum0


def system(n, na, rng=None):
    sim = rebound.Simulation()
    sim.add(m=1.0)
    for k in range(1, n):
        sim.add(m=1e-4 if k < na else 0.0, a=1.0 + 0.45 * k, e=0.03 * k, inc=0.01 * k, f=0.7 * k + (rng.random() if rng else 0.0))
    if na < n:
        sim.N_active = na
    sim.move_to_com()
    for p in sim.particles:         # a frame in which the centre of mass is displaced and moves (the step keeps its own copy of it)
        p.x += 3.0
        p.y -= 1.5
        p.vx += 0.21
        p.vz -= 0.13
    sim.integrator = "trace"
    sim.dt = 0.02
    return sim


def scripted(outdir, seed, count, n, na):
    rng = random.Random(seed)
    allpairs = [(i, j) for i in range(na) for j in range(i + 1, n)]
    subsets = [frozenset(c) for r in range(len(allpairs) + 1) for c in itertools.combinations(allpairs, r)]
    for mode in MODES:
        scen = [(a, b, pc, qc) for a in subsets for b in subsets for pc in (False, True) for qc in (False, True)]
        if count != "all":
            rng.shuffle(scen)
            # always keep the shapes around the counterexample of the negative model: a pair flagged before but not after, another one new
            keep = [(frozenset([p]), frozenset([q]), False, False) for p in allpairs for q in allpairs if p != q]
            scen = keep + scen[:max(0, int(count) - len(keep))]
        sim = system(n, na)
        sim.ri_trace.peri_mode = mode
        state = {}

        def S(r, i, j):
            ph = "pre" if r.contents.ri_trace._mode == 2 else "post"
            return 1 if (i, j) in state[ph] else 0

        def SP(r, j):
            ph = "pre" if r.contents.ri_trace._mode == 2 else "post"
            return 1 if state[ph + "C"] else 0
        sim.ri_trace.S = S
        sim.ri_trace.S_peri = SP
        addr = ctypes.addressof(sim)
        with open(os.path.join(outdir, "ts_%s_%d_%d.ndjson" % (mode, n, na)), "w") as fh:
            for a, b, pc, qc in scen:
                state.update({"pre": a, "post": b, "preC": pc, "postC": qc})
                off = os.path.getsize(TRACE) if os.path.exists(TRACE) else 0
                sim.step()
                ev, sum0 = events_of(hook_since(off, addr), n)
                fh.write(json.dumps({"src": "scripted", "PreP": sorted(map(list, a)), "PostP": sorted(map(list, b)), "PreC": pc, "PostC": qc,
                                     "sum0": sum0, "events": ev}) + "\n")
                if os.path.getsize(TRACE) > 50_000_000:
                    open(TRACE, "w").close()
        del sim


KF = ctypes.CFUNCTYPE(ctypes.c_int, ctypes.POINTER(rebound.Simulation), ctypes.c_uint, ctypes.c_uint)
CF = ctypes.CFUNCTYPE(ctypes.c_int, ctypes.POINTER(rebound.Simulation), ctypes.c_uint)


def real(outdir, seed, nsys):
    """real dynamics: crowded systems and eccentric orbits with the library's own switching functions, wrapped to record their answers"""
    rng = random.Random(seed)
    s_def = ctypes.cast(clibrebound.reb_integrator_trace_switch_default, KF)
    p_def = ctypes.cast(clibrebound.reb_integrator_trace_switch_peri_default, CF)
    fhs = {}
    for s in range(nsys):
        mode = MODES[s % 3]
        n = rng.choice([3, 4, 5])
        na = rng.choice([n, n, max(2, n - 1)])
        sim = rebound.Simulation()
        sim.add(m=1.0)
        a = 1.0
        for k in range(1, n):
            sim.add(m=10 ** rng.uniform(-4.5, -3) if k < na else 0.0, a=a, e=rng.choice([0.0, 0.05, 0.6, 0.9]) if k == 1 else rng.uniform(0, 0.1), inc=rng.uniform(0, 0.05),
                    omega=rng.uniform(0, 6), f=rng.uniform(0, 6))
            a *= rng.uniform(1.03, 1.25)
        if na < n:
            sim.N_active = na
        sim.move_to_com()
        for p in sim.particles:
            p.x += rng.uniform(-2, 2)
            p.vy += rng.uniform(-0.3, 0.3)
        sim.integrator = "trace"
        sim.ri_trace.peri_mode = mode
        sim.dt = rng.choice([0.02, 0.05, 0.1])
        rec = {"pre": set(), "post": set(), "preC": False, "postC": False}

        def S(r, i, j):
            v = s_def(r, i, j)
            ph = "pre" if r.contents.ri_trace._mode == 2 else "post"
            if v:
                rec[ph].add((i, j))
            return v

        def SP(r, j):
            v = p_def(r, j)
            ph = "pre" if r.contents.ri_trace._mode == 2 else "post"
            if v:
                rec[ph + "C"] = True
            return v
        sim.ri_trace.S = S
        sim.ri_trace.S_peri = SP
        addr = ctypes.addressof(sim)
        key = (mode, n, na)
        if key not in fhs:
            fhs[key] = open(os.path.join(outdir, "ts_%s_%d_%d.ndjson" % key), "a")
        for _ in range(120):
            rec.update({"pre": set(), "post": set(), "preC": False, "postC": False})
            off = os.path.getsize(TRACE) if os.path.exists(TRACE) else 0
            try:
                sim.step()
            except Exception:  # noqa: BLE001
                break
            if sim.N != n:
                break
            ev, sum0 = events_of(hook_since(off, addr), n)
            fhs[key].write(json.dumps({"src": "real", "sys": s, "PreP": sorted(map(list, rec["pre"])), "PostP": sorted(map(list, rec["post"])),
                                       "PreC": rec["preC"], "PostC": rec["postC"], "sum0": sum0, "events": ev}) + "\n")
            if os.path.getsize(TRACE) > 50_000_000:
                open(TRACE, "w").close()
        del sim
    for fh in fhs.values():
        fh.close()


if __name__ == "__main__":
    if sys.argv[1] == "scripted":
        scripted(sys.argv[2], int(sys.argv[3]), sys.argv[4], int(sys.argv[5]), int(sys.argv[6]))
    else:
        real(sys.argv[2], int(sys.argv[3]), int(sys.argv[4]))
