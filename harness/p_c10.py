"""C10 -- JANUS is bit-wise time reversible; symmetric schemes reverse to rounding error.

 E1  TLC checks the integer model Janus (drift / kick with truncation toward zero on an arbitrary force
     table, the five palindromic stage tables) for every order 2..10: n steps forward and n steps back
     return exactly the initial state (n <= 3, 25 initial states x 3 force tables), the model moves, the
     stage tables are palindromes summing to one; the variant with floor instead of truncation is kept
     as a negative model (TLC must find the irreversibility).
 E2  the order-2 integer model (coefficients 1/2 and 1: exactly representable) is stepped through the
     real JANUS code with the same force table (additional_forces callback, scales 1, dt = 1 tick): the
     integer state after every forward step and after the return must be TLC's.
     Real round trips: orders 2,4,6,8,10 x five (scale_pos, scale_vel) pairs incl. unequal ones x 2-3 step
     counts on inclined few-body systems snapped onto the integer grid: every bit returns.
     (the executed drift / kick coefficients are validated against the stage tables by C09's traces)
 A5  LEAPFROG, SEI, WHFast (4 coordinate systems), 10 uncorrected SABA types, 6 unprocessed EOS
     splittings: 50 steps forward and back return to 1e-10; hyperbolic fly-bys through WHFast to 1e-8.
"""
import json
import os
import re
import shutil

import common
from common import MachineryError

LEVEL = "model_checking"
HERE = os.path.dirname(os.path.abspath(__file__))


def cfg(order, mode, invs, emit=False):
    s = 'SPECIFICATION Spec\nCONSTANTS\n  Order = %d\n  NSteps = 3\n  Mode = "%s"\n  X0s <- XS\n  V0s <- VS\n  Tables <- TS\n' % (order, mode)
    s += "".join("INVARIANT %s\n" % i for i in invs) + ("CONSTRAINT Emit\n" if emit else "") + "CHECK_DEADLOCK FALSE\n"
    return s


def run(tier, rep):
    common.build()
    sc = common.scratch("c10")
    rows = None
    for order in (2, 4, 6, 8, 10):
        name = "gen_MC_Janus_%d" % order
        open(os.path.join(common.SPEC, name + ".cfg"), "w").write(cfg(order, "trunc", ["RoundTripIdentity", "Moves", "Palindrome", "Consistent"], emit=(order == 2)))
        try:
            res = common.run_tlc("MC_Janus", name, workers=1 if order == 2 else None, coverage=(order != 2), timeout=900)
        finally:
            os.remove(os.path.join(common.SPEC, name + ".cfg"))
        if res.violation:
            rep.violation("model:Janus:%d:%s" % (order, res.violation), "Janus integer model of order %d violates %s" % (order, res.violation), {"tlc_trace": res.trace[-6:]})
            return
        if not res.ok:
            raise MachineryError("Janus model (order %d) did not complete: %s" % (order, res.out[-1500:]))
        rep.add(states=res.distinct, transitions=res.states)
        if order == 2:
            rows = sorted(set(re.sub(r"\s+", "", m) for m in re.findall(r'<<\s*"J",[^>]*>>', res.out)))
    name = "gen_MC_Janus_floor"
    open(os.path.join(common.SPEC, name + ".cfg"), "w").write(cfg(4, "floor", ["RoundTripIdentity"]))
    try:
        res = common.run_tlc("MC_Janus", name, timeout=900)
    finally:
        os.remove(os.path.join(common.SPEC, name + ".cfg"))
    if res.violation != "RoundTripIdentity":
        raise MachineryError("negative model (floor instead of truncation) should violate RoundTripIdentity, got %s" % res.violation)
    rep.cov["negative_model"] = "floor instead of truncation: TLC finds the irreversibility"
    if not rows or len(rows) < 300:
        raise MachineryError("order-2 model printed %d rows" % (len(rows) if rows else 0))
    rf = os.path.join(sc, "rows.txt")
    open(rf, "w").write("\n".join(rows) + "\n")
    out = os.path.join(sc, "out.json")
    r = common.run_worker(os.path.join(HERE, "w_c10.py"), [rf, out, str(common.seed()), tier], timeout=3000)
    if r.returncode != 0:
        if r.returncode < 0:
            rep.violation("crash", "real code crashed (signal %d) in a reversibility run" % -r.returncode, {"stderr": r.stderr[-1500:]})
            return
        raise MachineryError("worker failed: %s" % r.stderr[-2500:])
    o = json.load(open(out))
    rep.add(traces_validated_against_impl=o["order2_chains"] + o["janus_roundtrips"], evaluations=o["order2_steps"] + o["janus_roundtrips"],
            distinct_nontrivial=o["order2_chains"] + o["janus_roundtrips"],
            rule="order-2 chains of the TLC model (initial state x force table) replayed step by step; real round trips per (order, scales, N, steps); non-trivial = the state moved", exhaustive=False)
    rep.cov.update({"order2_chains_replayed": o["order2_chains"], "janus_roundtrips": o["janus_roundtrips"], "janus_removals": o.get("janus_removals"), "sampled_roundtrip_errors": o.get("worst_roundtrip_error", {})})
    rep.sample({"kind": "order-2 model rows", "rows": rows[:4]})
    for v in o["violations"]:
        k = v["kind"]
        if k == "janus-roundtrip":
            key = "janus-roundtrip:o%s:%s:%s" % (v["order"], v["scale_pos"], v["scale_vel"])
            desc = "JANUS order %s, scale_pos %s, scale_vel %s, N=%s: %s steps forward and back do not return the initial bits (differing components %s; moved=%s)" % (
                v["order"], v["scale_pos"], v["scale_vel"], v["N"], v["steps"], v["differing_components"], v["moved"])
        elif k == "janus-removal":
            key = "janus-removal:o%s:%s" % (v["order"], v["removed"])
            desc = "JANUS order %s, scale %s: after removing a particle (%s) the run differs from a fresh JANUS simulation of the same particles by %s" % (v["order"], v["scale"], v["removed"], v["max_difference"])
        elif k.startswith("order2"):
            key = "%s:t%s" % (k, v["table"])
            desc = "order-2 JANUS with force table %s from (x,v)=(%s,%s): real integer state %s, model %s (%s)" % (v["table"], v["x0"], v["v0"], v["got"], v["want"], v.get("after", "after the return"))
        else:
            key = "sym:%s" % v["scheme"]
            desc = "%s: forward/backward round trip error %s" % (v["scheme"], v["error"])
        rep.violation(key, desc, v)
    rep.assumptions += ["the integer model is bound step by step only for order 2 (its coefficients are exactly representable); higher orders by bitwise round trips and C09's word validation",
                        "rounding-level reversal of the non-JANUS schemes is sampled (A5)"]
    shutil.rmtree(sc, ignore_errors=True)


def replay(path):
    print(json.dumps(json.load(open(path)), indent=1)[:4000])
    return 0
