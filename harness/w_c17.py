"""C17 worker (also used by C05 for the field audit).

 behaviours <behs.json> <out.ndjson> <seed>   replay Stream behaviours (from TLC) on real simulations
 audit      <layout.json> <out.ndjson>        single-field perturbation sweep over the descriptor table
 states     <out.ndjson>                      copy / restore equality, identical evolution, independence
"""
import ctypes
import io
import json
import os
import pickle
import sys
import warnings
from ctypes import byref, c_int, string_at

import rebound
from rebound import clibrebound
import project as P
import states

clibrebound.reb_simulation_diff.restype = c_int

FP_MEMBERS = ["coefficient_of_restitution", "collision_resolve", "additional_forces", "heartbeat", "ri_trace.S",
              "ri_trace.S_peri", "post_timestep_modifications", "free_particle_ap", "pre_timestep_modifications",
              "ri_mercurius.L", "additional_forces", "extras_cleanup"]


def addr(sim):
    return ctypes.addressof(sim)


def reattach(src, dst, layout):
    """The user re-attaches the same callbacks (statement of C05/C17): copy the function-pointer members."""
    for m in FP_MEMBERS:
        lo = layout.get(m)
        if lo:
            ctypes.memmove(addr(dst) + lo[0], addr(src) + lo[0], lo[1])


def cdiff(a, b):
    return int(clibrebound.reb_simulation_diff(byref(a), byref(b), c_int(2)))


def records(sim, intern):
    f, _, _ = P.parse_fields(P.stream_bytes(sim), P.HEADER)
    return P.field_records(f, intern)


def sdig(sim, intern, skip_wall=True):
    """digest id of the whole persisted content (pointers masked; wall-clock fields left out)"""
    f, _, _ = P.parse_fields(P.stream_bytes(sim), P.HEADER)
    bt = P.desc_by_type()
    parts = []
    for typ, size, payload in f:
        name = bt[typ]["name"] if typ in bt else str(typ)
        if skip_wall and name.startswith("walltime"):
            continue
        parts.append(b"%d:%d:" % (typ, size) + P.masked(name, payload, bt[typ]["element_size"] if typ in bt else 0))
    return intern(b"|".join(parts))


def reproduce(src, route, layout, tmpdir):
    with warnings.catch_warnings():
        warnings.simplefilter("ignore")
        if route == "copy":
            dst = src.copy()
        elif route == "stream":
            dst = rebound.Simulation(P.stream_bytes(src)) if False else pickle.loads(pickle.dumps(src))
        elif route == "pickle":
            dst = pickle.loads(pickle.dumps(src))
        elif route == "file":
            fn = os.path.join(tmpdir, "r_%d.bin" % os.getpid())
            if os.path.exists(fn):
                os.remove(fn)
            src.save_to_file(fn)
            dst = rebound.Simulation(fn)
            os.remove(fn)
        elif route == "archive":
            fn = os.path.join(tmpdir, "a_%d.bin" % os.getpid())
            if os.path.exists(fn):
                os.remove(fn)
            src.save_to_file(fn)
            sa = rebound.Simulationarchive(fn)
            dst = sa[-1]
            del sa
            os.remove(fn)
        else:
            raise ValueError(route)
    reattach(src, dst, layout)
    return dst


EDIT_FIELDS = {"G": "G", "softening": "softening", "exit_max_distance": "exit_max_distance", "wall": "walltime",
               "eps": "ri_ias15.epsilon", "f1": "G"}


def setattr_path(sim, path, val):
    obj = sim
    parts = path.split(".")
    for p in parts[:-1]:
        obj = getattr(obj, p)
    setattr(obj, parts[-1], val)


def getattr_path(sim, path):
    obj = sim
    for p in path.split("."):
        obj = getattr(obj, p)
    return obj


def replay_behaviours(behs, out, seed, layout, tmpdir):
    names = [n for n, _ in states.STATES if n not in ("rejected_bs", "collided")]
    with open(out, "w") as fh:
        for bi, beh in enumerate(behs):
            intern = P.Interner()
            st = names[(bi + seed) % len(names)]
            objs = {}
            first = [o for o, v in beh[0][1]["cur"].items() if v != 0][0]
            objs[first] = states.make(st)
            ctr = 0
            events = []
            err = None
            for act, exp in beh[1:]:
                a = list(exp["last"])
                ev = {"a": a}
                try:
                    with warnings.catch_warnings():
                        warnings.simplefilter("ignore")
                        if a[0] == "Step":
                            objs[a[1]].step()
                        elif a[0] == "Edit":
                            ctr += 1
                            path = EDIT_FIELDS[a[2]]
                            cur = getattr_path(objs[a[1]], path)
                            setattr_path(objs[a[1]], path, (cur if cur else 1.0) * (1.0 + ctr * 2.0 ** -20) + ctr * 2.0 ** -30)
                        elif a[0] == "Reproduce":
                            objs[a[2]] = reproduce(objs[a[1]], a[3], layout, tmpdir)
                        elif a[0] == "Compare":
                            d1 = cdiff(objs[a[1]], objs[a[2]])
                            d2 = 0 if (objs[a[1]] == objs[a[2]]) else 1
                            ev["cmp"] = "different" if d1 else "equal"
                            ev["cmp_py"] = "different" if d2 else "equal"
                except Exception as e:     # noqa
                    err = "%s: %s" % (type(e).__name__, str(e)[:100])
                    ev["error"] = err
                ev["dig"] = {o: sdig(s, intern) for o, s in objs.items()}
                ev["pdig"] = {o: intern(P.particles_digest(s).encode()) for o, s in objs.items()}
                events.append(ev)
                if err:
                    break
            fh.write(json.dumps({"state": st, "events": events}) + "\n")


PERT_SKIP_COUNTS = None


def audit(layout, out):
    """perturb exactly one scalar persisted field (through the header's offsetof, not through the
    descriptor table) on a copy and observe: comparison, stream difference, round trip."""
    ds = P.descriptors()
    count_offsets = {d["offset_N"] for d in ds if d["offset_N"]}
    scalars = [d for d in ds if d["dtype"] in (0, 1, 2, 3, 4, 5) or d["name"] in ("ri_mercurius.com_pos", "ri_mercurius.com_vel")]
    tmp = os.path.dirname(out)
    with open(out, "w") as fh:
        for stname in ("whfast_unsync", "ias15", "saba_keep", "mercurius_unsync"):
            A = states.make(stname)
            intern = P.Interner()
            ra = records(A, intern)
            for d in scalars:
                name = d["name"]
                lo = layout.get(name)
                ev = {"state": stname, "field": name, "type": d["type"], "off_desc": d["offset"], "off_hdr": lo[0] if lo else -1,
                      "wall": name.startswith("walltime")}
                if lo is None:
                    ev["skip"] = "name is not a member path"
                    fh.write(json.dumps(ev) + "\n")
                    continue
                if lo[0] in count_offsets or name in ("N", "N_var", "N_var_config", "N_allocated", "simulationarchive_version", "N_odes", "save_messages"):
                    ev["skip"] = "array count (perturbed through add/remove in histories) or front-end internal (save_messages is forced to 1 by the Python constructor)"
                    fh.write(json.dumps(ev) + "\n")
                    continue
                with warnings.catch_warnings():
                    warnings.simplefilter("ignore")
                    B = A.copy()
                    reattach(A, B, layout)
                    # flip the lowest bit of the first byte (keeps enums/flags small, doubles finite)
                    p = addr(B) + lo[0]
                    old = string_at(p, lo[1])
                    new = bytes([old[0] ^ 1]) + old[1:]
                    ctypes.memmove(p, new, lo[1])
                    ev["reported"] = bool(cdiff(A, B))
                    ev["reported_py"] = not (A == B)
                    rb = records(B, intern)
                    ev["changed"] = sorted({P.name_of_rank(x[0]) for x, y in zip(ra, rb) if x != y}) if len(ra) == len(rb) else ["<length>"]
                    try:
                        C = pickle.loads(pickle.dumps(B))
                        reattach(B, C, layout)
                        ev["readback_ok"] = string_at(addr(C) + lo[0], lo[1]) == new
                        ev["roundtrip_equal"] = not bool(cdiff(B, C))
                        ev["roundtrip_stream_equal"] = records(C, intern) == rb
                    except Exception as e:   # noqa
                        ev["error"] = "%s: %s" % (type(e).__name__, str(e)[:80])
                fh.write(json.dumps(ev) + "\n")
                if lo[1] == 8 and d["dtype"] in (4, 5) and "error" not in ev:
                    # 64-bit integer members: a change in the upper half (a counter beyond 2^32) must be seen and must survive as well
                    ev2 = {k: ev[k] for k in ("state", "field", "type", "off_desc", "off_hdr", "wall")}
                    ev2["byte"] = 5
                    with warnings.catch_warnings():
                        warnings.simplefilter("ignore")
                        B = A.copy()
                        reattach(A, B, layout)
                        p = addr(B) + lo[0]
                        old_ = string_at(p, 8)
                        if True:
                            new_ = old_[:5] + bytes([old_[5] ^ 1]) + old_[6:]
                            ctypes.memmove(p, new_, 8)
                            ev2["reported"] = bool(cdiff(A, B))
                            ev2["reported_py"] = not (A == B)
                            rb = records(B, intern)
                            ev2["changed"] = sorted({P.name_of_rank(x[0]) for x, y in zip(ra, rb) if x != y}) if len(ra) == len(rb) else ["<length>"]
                            try:
                                C = pickle.loads(pickle.dumps(B))
                                reattach(B, C, layout)
                                ev2["readback_ok"] = string_at(addr(C) + lo[0], 8) == new_
                                ev2["roundtrip_equal"] = not bool(cdiff(B, C))
                                ev2["roundtrip_stream_equal"] = records(C, intern) == rb
                            except Exception as e:   # noqa
                                ev2["error"] = "%s: %s" % (type(e).__name__, str(e)[:80])
                            fh.write(json.dumps(ev2) + "\n")


def elem_audit(layout, out):
    """perturb one member of one element of a persisted array (a variational configuration, a particle) on a copy: the comparison
    must report it, only that array's stream field may change, and the value must survive a round trip"""
    VC = ["order", "index", "testparticle", "index_1st_order_a", "index_1st_order_b", "_lrescale"]
    PM = ["x", "y", "z", "vx", "vy", "vz", "m", "r", "last_collision", "hash"]
    with open(out, "a") as fh:
        for stname in ("variational", "variational2", "megno", "whfast_unsync", "collided"):
            A = states.make(stname)
            intern = P.Interner()
            ra = records(A, intern)
            targets = [("var_config", c, m) for c in range(A.N_var_config) for m in VC] + [("particles", A.N - 1, m) for m in PM] + [("particles", 0, "m")]
            for arr, idx, mem in targets:
                ev = {"state": stname, "field": "%s[%d].%s" % (arr, idx, mem.lstrip("_")), "array": arr, "elem": True}
                with warnings.catch_warnings():
                    warnings.simplefilter("ignore")
                    B = A.copy()
                    reattach(A, B, layout)
                    obj = (B.var_config if arr == "var_config" else B.particles)[idx]
                    old = getattr(obj, mem)
                    if hasattr(old, "value"):          # particle hash is a c_uint32
                        old = old.value
                    newv = (old + 1) if isinstance(old, int) else (old * 1.5 + 0.25)
                    setattr(obj, mem, newv)
                    ev["reported"] = bool(cdiff(A, B))
                    ev["reported_py"] = not (A == B)
                    rb = records(B, intern)
                    ev["changed"] = sorted({P.name_of_rank(x[0]) for x, y in zip(ra, rb) if x != y}) if len(ra) == len(rb) else ["<length>"]
                    try:
                        C = pickle.loads(pickle.dumps(B))
                        reattach(B, C, layout)
                        back = getattr((C.var_config if arr == "var_config" else C.particles)[idx], mem)
                        ev["readback_ok"] = getattr(back, "value", back) == newv
                        ev["roundtrip_equal"] = not bool(cdiff(B, C))
                        ev["roundtrip_stream_equal"] = records(C, intern) == rb
                    except Exception as e:   # noqa
                        ev["error"] = "%s: %s" % (type(e).__name__, str(e)[:80])
                fh.write(json.dumps(ev) + "\n")


def state_checks(out, layout):
    tmp = os.path.dirname(out)
    with open(out, "w") as fh:
        for name, _ in states.STATES:
            intern = P.Interner()
            ev = {"state": name}
            try:
                with warnings.catch_warnings():
                    warnings.simplefilter("ignore")
                    S = states.make(name)
                    d0 = sdig(S, intern)
                    # the evolution every reproduction must follow: the same state built again and stepped (never saved or copied)
                    R = states.make(name)
                    R.rand_seed = S.rand_seed           # (seeded from the clock at creation: the only legitimately different member)
                    if P.particles_digest(R) != P.particles_digest(S):
                        R = reproduce(S, "copy", layout, tmp)      # the state draws random numbers while it is built (MEGNO): fall back to a copy
                    for _ in range(4):
                        R.step()
                    ref_evol = (P.particles_digest(R), R.t)
                    # a copy that differs from the original only by the presence of a persisted block (display settings added / IAS15
                    # predictor arrays dropped) is different from it -- whichever operand carries the block
                    for tag, fn in (("ds", clibrebound.reb_simulation_add_display_settings), ("ias15reset", clibrebound.reb_integrator_ias15_reset)):
                        D = reproduce(S, "copy", layout, tmp)
                        fn(ctypes.byref(D))
                        if records(S, intern) != records(D, intern):
                            ev["presence-leftright_" + tag] = bool(cdiff(S, D)) and not (S == D)
                            ev["presence-rightleft_" + tag] = bool(cdiff(D, S)) and not (D == S)
                    # a later snapshot of an archive in which a block of the first snapshot no longer exists (integrator arrays released):
                    # the restored simulation equals the one that was saved -- the vanished block is gone, not inherited from snapshot 0
                    T = reproduce(S, "copy", layout, tmp)
                    clibrebound.reb_simulation_reset_integrator(ctypes.byref(T))
                    if records(S, intern) != records(T, intern):
                        fn2 = os.path.join(tmp, "a2_%d.bin" % os.getpid())
                        if os.path.exists(fn2):
                            os.remove(fn2)
                        S.save_to_file(fn2)
                        T.save_to_file(fn2)
                        sa = rebound.Simulationarchive(fn2)
                        U = sa[1]
                        del sa
                        os.remove(fn2)
                        reattach(T, U, layout)
                        ev["eq_archive-after-release"] = not bool(cdiff(T, U))
                        ev["same_archive-after-release"] = sdig(U, intern) == sdig(T, intern)
                    for route in ("copy", "pickle", "file", "archive"):
                        Cc = reproduce(S, route, layout, tmp)
                        ev["eq_" + route] = not bool(cdiff(S, Cc))
                        ev["eqpy_" + route] = bool(S == Cc)
                        ev["same_" + route] = sdig(Cc, intern) == d0
                        ev["src_untouched_" + route] = sdig(S, intern) == d0
                        # identical evolution
                        for _ in range(4):
                            Cc.step()
                        ev["evolve_" + route] = (P.particles_digest(Cc), Cc.t) == ref_evol
                        ev["src_untouched_after_steps_" + route] = sdig(S, intern) == d0
            except Exception as e:   # noqa
                ev["error"] = "%s: %s" % (type(e).__name__, str(e)[:100])
            fh.write(json.dumps(ev) + "\n")


if __name__ == "__main__":
    mode = sys.argv[1]
    if mode == "behaviours":
        behs = json.load(open(sys.argv[2]))
        layout = json.load(open(sys.argv[5]))
        replay_behaviours(behs, sys.argv[3], int(sys.argv[4]), layout, os.path.dirname(sys.argv[3]))
    elif mode == "audit":
        audit(json.load(open(sys.argv[2])), sys.argv[3])
        elem_audit(json.load(open(sys.argv[2])), sys.argv[3])
    elif mode == "states":
        state_checks(sys.argv[2], json.load(open(sys.argv[3])))
