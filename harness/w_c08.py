"""C08 worker: drives integrate() on the real library and records hook traces.

 usage: w_c08.py trace  <outdir> <seed> <tier>      -> <outdir>/fixed.ndjson, adaptive.ndjson, meta.json
        w_c08.py replay <scenarios.json> <out.json>  -> executes Integrate-model paths (spec -> code)
"""
import ctypes
import hashlib
import json
import math
import os
import random
import sys
import warnings
from fractions import Fraction

TRACE = os.environ.get("REBOUND_VERIF_TRACE")
import rebound  # noqa: E402
from rebound import clibrebound  # noqa: E402

warnings.simplefilter("ignore")
UNIT = 1.0 / 64

ADAPTIVE = {"ias15", "bs"}
EXC = {1: "GenericError", 2: "NoParticles", 3: "Encounter", 4: "Escape", 5: None, 7: "Collision", 0: None}


# ------------------------------------------------------------------------------------------
def configs(avx):
    c = []
    c.append(("leapfrog", lambda s: None))
    c.append(("whfast", lambda s: None))
    c.append(("whfast-dh", lambda s: setattr(s.ri_whfast, "coordinates", "democraticheliocentric")))
    c.append(("whfast-whds", lambda s: setattr(s.ri_whfast, "coordinates", "whds")))
    c.append(("whfast-bary", lambda s: setattr(s.ri_whfast, "coordinates", "barycentric")))
    c.append(("whfast-unsafe", lambda s: setattr(s.ri_whfast, "safe_mode", 0)))
    c.append(("whfast-corr", lambda s: (setattr(s.ri_whfast, "safe_mode", 0), setattr(s.ri_whfast, "corrector", 11))))
    # keep_unsynchronized: every integrate() ends with a synchronisation that must not disturb the continuation (bitwise split clause),
    # also for the variational particles that share the internal coordinate array
    c.append(("whfast-keep", lambda s: (setattr(s.ri_whfast, "safe_mode", 0), setattr(s.ri_whfast, "keep_unsynchronized", 1))))

    def keepvar(s):
        s.ri_whfast.safe_mode = 0
        s.ri_whfast.keep_unsynchronized = 1
        v = s.add_variation()
        v.particles[1].x = 1e-3
        v.particles[2].vy = -2e-3
    c.append(("whfast-keepvar", keepvar))
    c.append(("saba", lambda s: None))
    c.append(("saba-unsafe", lambda s: setattr(s.ri_saba, "safe_mode", 0)))
    c.append(("eos", lambda s: None))
    c.append(("eos-unsafe", lambda s: setattr(s.ri_eos, "safe_mode", 0)))
    c.append(("sei", lambda s: setattr(s.ri_sei, "OMEGA", 1.0)))
    c.append(("janus", lambda s: None))
    c.append(("mercurius", lambda s: None))
    c.append(("trace", lambda s: None))
    c.append(("none", lambda s: None))
    c.append(("ias15", lambda s: None))
    c.append(("ias15-mode1", lambda s: setattr(s.ri_ias15, "adaptive_mode", 1)))
    c.append(("ias15-mindt", lambda s: setattr(s.ri_ias15, "min_dt", 0.01)))
    c.append(("bs", lambda s: None))
    if avx:
        c.append(("whfast512", lambda s: None))
    return c


def make_sim(cfg, setup, hyper=False, close=False, ecc=False):
    sim = rebound.Simulation()
    integ = cfg.split("-")[0]
    if integ == "whfast512":
        sim.G = 1.0                      # WHFast512 requires G = 1
        sim.add(m=1.0)
        for i in range(8):
            sim.add(m=1e-6, a=1.0 + 0.3 * i, e=0.01, f=0.7 * i)
    else:
        sim.add(m=1.0)
        sim.add(m=1e-3, a=1.0, e=0.05, f=0.3)
        sim.add(m=3e-4, a=1.9, e=0.1, inc=0.05, f=2.1)
        if hyper:
            sim.add(m=1e-6, a=-2.0, e=1.6, f=0.1)
        if close:
            sim.add(m=1e-6, a=1.02, e=0.05, f=0.1)
        if ecc:
            sim.add(m=1e-5, a=1.3, e=0.985, f=2.5)
    sim.move_to_com()
    sim.integrator = integ
    setup(sim)
    return sim


def digest(sim):
    h = hashlib.sha256()
    for i in range(sim.N):
        p = sim.particles[i]
        h.update(memoryview((ctypes.c_double * 7)(p.x, p.y, p.z, p.vx, p.vy, p.vz, p.m)))
    return h.hexdigest()[:20]


class Recorder:
    """Reads the hook file incrementally and filters by simulation address."""

    def __init__(self):
        self.fh = open(TRACE, "a+")
        self.fh.seek(0, 2)

    def mark(self):
        self.fh.seek(0, 2)
        return self.fh.tell()

    def since(self, off, addr):
        self.fh.seek(off)
        out = []
        for line in self.fh.read().splitlines():
            p = line.split()
            if len(p) < 3 or int(p[2], 16) != addr:
                continue
            out.append((p[0], [float(x) for x in p[3:]]))
        return out


REC = None


def one_call(sim, tmax, exact, inject, via_python, state):
    """Run one integrate call; returns the list of raw events (floats) for this call.
    inject: None | ("user", b) | ("escape", b) | ("encounter", b) | ("gone", b) | ("natural-escape",) | ("natural-encounter",)
    where b is the boundary index within this call (0 = the heartbeat before the first step)."""
    addr = ctypes.addressof(sim)
    hb = {"n": 0, "recs": []}
    kind = inject[0] if inject else None

    def heartbeat(sp):
        s = sp.contents
        b = hb["n"]
        hb["n"] += 1
        ev, gone = 0, False
        if inject and len(inject) > 1 and inject[1] == b:
            if kind == "user":
                clibrebound.reb_simulation_stop(ctypes.byref(s))
                ev = 5
            elif kind == "escape":
                s.particles[s.N - 1].x = 1e3
            elif kind == "encounter":
                p0 = s.particles[0]
                q = s.particles[s.N - 1]
                q.x, q.y, q.z = p0.x + 1e-3, p0.y, p0.z
            elif kind == "gone":
                clibrebound.reb_simulation_remove_all_particles(ctypes.byref(s))
        # evaluate the exit conditions exactly as reb_run_heartbeat will (same state, same formulae)
        if s.exit_max_distance:
            m2 = s.exit_max_distance * s.exit_max_distance
            for i in range(s.N - s.N_var):
                p = s.particles[i]
                if p.x * p.x + p.y * p.y + p.z * p.z > m2:
                    ev = 4
        if s.exit_min_distance:
            m2 = s.exit_min_distance * s.exit_min_distance
            n = s.N - s.N_var
            for i in range(n):
                pi = s.particles[i]
                for j in range(i):
                    pj = s.particles[j]
                    x, y, z = pi.x - pj.x, pi.y - pj.y, pi.z - pj.z
                    if x * x + y * y + z * z < m2:
                        ev = 3
        if s.N == 0:
            gone = True
        hb["recs"].append((ev, gone))

    sim.heartbeat = heartbeat
    tpre, dtpre = sim.t, sim.dt
    off = REC.mark()
    exc = None
    if via_python:
        try:
            sim.integrate(tmax, exact_finish_time=exact)
            status = sim.status if hasattr(sim, "status") else None
        except BaseException as e:  # noqa: BLE001
            exc = type(e).__name__
        status = int(sim._status)
    else:
        sim.exact_finish_time = exact
        status = int(clibrebound.reb_simulation_integrate(ctypes.byref(sim), ctypes.c_double(tmax)))
    raw = REC.since(off, addr)
    ev = []
    checks = 0
    prev = None
    for name, a in raw:
        if name == "int_begin":
            ev.append({"e": "begin", "t": a[0], "dtpre": dtpre, "neg": -dtpre, "tmax": a[2], "inf": math.isinf(a[2]),
                       "exact": int(a[3]), "dt": a[1]})
        elif name == "check_exit":
            t, dtin, dtout, tm, sin_, sout, lfd, dtld = a
            h = hb["recs"][checks] if checks < len(hb["recs"]) else (0, False)
            hev = h[0]
            if hev == 0 and int(sin_) in (7, 6):
                hev = int(sin_)      # collision found inside the step / SIGINT: inferred from the status
            ev.append({"e": "hb", "ev": hev, "gone": h[1]})
            checks += 1
            tscale = 1e-12 * abs(tm)
            if tscale < 1e-200:
                tscale = 1e-12
            ev.append({"e": "check", "t": t, "dtin": dtin, "sin": int(sin_), "sum": t + dtin, "rem": tm - t,
                       "near": abs(t - tm) < tscale, "err": int(sin_) < 0 and int(sout) == 1,
                       "sout": int(sout), "dtout": dtout, "lfd": lfd, "dtld": dtld})
            prev = (t, dtout)
        elif name == "step":
            ev.append({"e": "step", "t": a[0], "dt": a[1], "dtld": a[2], "sum": prev[0] + prev[1] if prev else a[0],
                       "sum2": (prev[0] + prev[1] / 2.) + prev[1] / 2. if prev else a[0]})
        elif name == "int_end":
            ev.append({"e": "end", "t": a[0], "dt": a[1], "status": int(a[2])})
    state["hb_calls"] = hb["n"]
    state["checks"] = checks
    return ev, status, exc, (tpre, dtpre)


def is_dyadic(x):
    return math.isfinite(x) and (x / UNIT) == int(x / UNIT) and abs(x / UNIT) < 1 << 20


def nexp(t0, dt, tmax):
    if not (is_dyadic(t0) and is_dyadic(dt) and is_dyadic(tmax)) or dt == 0:
        return -1
    if tmax == t0:
        return 0
    d = abs(Fraction(tmax) - Fraction(t0)) / abs(Fraction(dt))
    return int(math.ceil(d))


def rank_trace(tr):
    """Replace every double by its rank (0.0 -> 0); booleans/ints untouched."""
    keys = {"t", "dt", "dtpre", "neg", "tmax", "sum", "sum2", "rem", "dtin", "dtout", "lfd", "dtld"}
    vals = {0.0}
    for e in [tr["init"]] + tr["events"]:
        for k, v in e.items():
            if k in keys:
                if isinstance(v, float) and math.isnan(v):
                    return None
                vals.add(float(v))
    s = sorted(vals)
    z = s.index(0.0)
    rk = {v: i - z for i, v in enumerate(s)}
    out = {"init": {k: rk[float(v)] for k, v in tr["init"].items()}, "events": []}
    for e in tr["events"]:
        out["events"].append({k: (rk[float(v)] if k in keys else v) for k, v in e.items()})
    for k in tr:
        if k not in out:
            out[k] = tr[k]
    return out


def run_scenario(cfg, setup, runs, digests, opts):
    """runs: list of runs; each run = list of calls (tmax, exact, inject, via_python, setdt or None).
    All runs start from the same root state (reset event between them)."""
    kind = "adaptive" if cfg.split("-")[0] in ADAPTIVE else "fixed"
    events = []
    init = None
    notes = []
    safe = "unsafe" not in cfg and "corr" not in cfg and cfg != "whfast512"      # WHFast512 has no safe mode
    for ri, calls in enumerate(runs):
        sim = make_sim(cfg, setup, hyper=opts.get("hyper", False), close=opts.get("close", False), ecc=opts.get("ecc", False))
        sim.t = opts.get("t0", 0.0)
        sim.dt = opts.get("dt", 2 * UNIT)
        if opts.get("exit_max"):
            sim.exit_max_distance = opts["exit_max"]
        if opts.get("exit_min"):
            sim.exit_min_distance = opts["exit_min"]
        if init is None:
            init = {"t": sim.t, "dt": sim.dt}
        else:
            events.append({"e": "reset", "t": sim.t, "dt": sim.dt})
        mono = True
        dir0 = None
        for (tmax, exact, inject, via_py, setdt) in calls:
            if setdt is not None:
                sim.dt = setdt
                mono = False
                events.append({"e": "setdt", "dt": sim.dt})
            st = {}
            ev, status, exc, (tpre, dtpre) = one_call(sim, tmax, exact, inject, via_py, st)
            if not ev or ev[-1]["e"] != "end":
                notes.append("incomplete hook trace for call tmax=%r" % tmax)
                events += ev
                continue
            d = 0 if tmax == tpre else (1 if tmax > tpre else -1)
            if d != 0:
                if dir0 is None:
                    dir0 = d
                elif d != dir0:
                    mono = False
            if status != 0 or inject:
                mono = False if status != 0 else mono
            b = ev[0]
            ev[-1]["nexp"] = nexp(b["t"], b["dt"], b["tmax"]) if (kind == "fixed" and not b["inf"]) else -1
            if mono and safe and status == 0 and exact == 0:
                dg = digest(sim)
                ev[-1]["dig"] = digests.setdefault(dg, len(digests))
            else:
                ev[-1]["dig"] = -1
                if exact != 0:
                    mono = False
            # the Python front end must raise the exception class of the status
            if via_py:
                want = EXC.get(status)
                if want != exc:
                    notes.append("python exception for status %d: got %r want %r" % (status, exc, want))
            if st["hb_calls"] != st["checks"]:
                notes.append("heartbeat called %d times for %d check_exit events" % (st["hb_calls"], st["checks"]))
            if status != ev[-1]["status"]:
                notes.append("returned status %d differs from r->status %d at int_end" % (status, ev[-1]["status"]))
            events += ev
        sim._heartbeat = ctypes.cast(None, type(sim._heartbeat))
        del sim
    return {"kind": kind, "cfg": cfg, "init": init, "events": events, "notes": notes}


def scenarios(rng, cfg, tier):
    """Yield (runs, opts) for one integrator configuration."""
    U = UNIT
    adaptive = cfg.split("-")[0] in ADAPTIVE
    n = 1 if tier == "quick" else 4
    for rep in range(n):
        k = rng.choice([1, 2, 3, 4, 6])
        dt = k * U
        # S1 exact finishing, forward, dyadic targets incl. intervals shorter than dt and tmax == t
        ts = sorted(rng.sample(range(1, 60), 4))
        calls = [(t * U, 1, None, rep % 2 == 0, None) for t in ts]
        calls.insert(2, (ts[1] * U, 1, None, False, None))           # target == current time
        calls.append((ts[-1] * U + U / 4, 1, None, False, None))     # much shorter than dt
        if cfg != "whfast512":                                       # (exact finishing and negative steps are refused by WHFast512)
            yield [calls], {"dt": dt}
        # S2 split invariance without exact finishing: three partitions of the same interval
        a, b, c = sorted(rng.sample(range(2, 50), 3))
        yield [[(a * U, 0, None, False, None), (b * U, 0, None, True, None), (c * U, 0, None, False, None)],
               [(c * U, 0, None, False, None)],
               [(b * U, 0, None, False, None), (c * U, 0, None, False, None)],
               [(a * U, 0, None, False, None), (a * U, 0, None, False, None), (c * U, 0, None, False, None)]], {"dt": dt}
        # S3 backward, mixed directions, dt larger than the interval, negative start
        if cfg != "whfast512":
            yield [[(-5 * U, 1, None, False, None), (-5 * U, 0, None, False, None), (-9 * U, 0, None, True, None),
                    (3 * U, 1, None, False, None), (3 * U + U / 8, 0, None, False, None), (-1 * U, 1, None, False, 16 * U)]], {"dt": dt, "t0": 2 * U}
        # S4 exit conditions at a chosen boundary (injected by the harness heartbeat)
        b = rng.choice([0, 1, 2, 3])
        yield [[(40 * U, rep % 2, ("user", b), True, None), (50 * U, 0, None, False, None)]], {"dt": dt}
        yield [[(float("inf"), 0, ("user", 3 + b), False, None)]], {"dt": dt}
        # (moving / removing particles from the heartbeat is only legal while synchronised)
        if "unsafe" not in cfg and "corr" not in cfg and "keep" not in cfg:
            yield [[(40 * U, 1, ("escape", b), True, None)]], {"dt": dt, "exit_max": 50.0}
            yield [[(40 * U, 0, ("encounter", b), True, None)]], {"dt": dt, "exit_min": 0.01}
            # (BS keeps integrating without particles: its N-body ODE counts as a user ODE)
            if cfg not in ("whfast512", "bs"):
                yield [[(40 * U, 1, ("gone", b), True, None)]], {"dt": dt}
        # S5 natural escape of a hyperbolic body
        if cfg.split("-")[0] not in ("whfast512", "sei", "janus"):
            yield [[(30.0, rep % 2, ("natural",), True, None)]], {"dt": 8 * U, "hyper": True, "exit_max": 3.0 + rep}
        # S7 adaptive integrators through a pericentre passage (step-size floor, rejected steps), both directions
        if adaptive:
            yield [[(-8.0, 0, None, False, None), (-9.5, 1, None, False, None), (-2.0, 1, None, True, None), (1.0, 0, None, False, None)]], {"dt": 0.05, "ecc": True}
            yield [[(6.0, 1, None, False, None), (6.5, 1, None, False, None), (-1.0, 0, None, False, None)]], {"dt": 0.3, "ecc": True}
        # S6 non-dyadic step sizes and targets (binary64 effects in t+dt, tmax-t, the 1e-12 fuzz)
        calls = []
        t = 0.0
        for i in range(4):
            t += rng.uniform(0.01, 1.3)
            calls.append((t, 1 if i != 2 else 0, None, False, None))
        calls.append((t - rng.uniform(0.2, 0.9), 1, None, False, None))
        yield [calls], {"dt": rng.uniform(0.02, 0.2)}
        yield [[(1e-3 * (i + 1) * rng.uniform(0.9, 1.1), 1, None, False, None) for i in range(5)]], {"dt": 0.0123}
        yield [[(0.1 * (i + 1), 1, None, False, None) for i in range(12)]], {"dt": 0.01}


def trace_mode(outdir, seed, tier):
    global REC
    REC = Recorder()
    rng = random.Random(seed)
    avx = False
    try:
        s = rebound.Simulation()
        s.add(m=1)
        s.add(m=1e-6, a=1)
        s.integrator = "whfast512"
        s.G = 1.0
        s.exact_finish_time = 0
        s.dt = 1.0
        s.step()
        avx = True
    except Exception:
        avx = False
    digests = {}
    out = {"fixed": [], "adaptive": []}
    meta = {"configs": [], "notes": [], "avx512": avx}
    for cfg, setup in configs(avx):
        meta["configs"].append(cfg)
        for runs, opts in scenarios(rng, cfg, tier):
            if cfg == "whfast512":
                # documented restrictions of WHFast512: exact_finish_time = 0 and positive steps only
                t0 = opts.get("t0", 0.0)
                if any(c[0] < p for run in runs for p, c in zip([t0] + [x[0] for x in run[:-1]], run)) or any(c[4] is not None for run in runs for c in run):
                    continue
                runs = [[(c[0], 0, c[2], c[3], c[4]) for c in run] for run in runs]
            tr = run_scenario(cfg, setup, runs, digests, opts)
            for nnote in tr["notes"]:
                meta["notes"].append({"cfg": cfg, "note": nnote, "runs": repr(runs)[:400]})
            r = rank_trace(tr)
            if r is None:
                meta["notes"].append({"cfg": cfg, "note": "NaN time or step size in trace", "runs": repr(runs)[:400]})
                continue
            r["raw_head"] = [{k: v for k, v in e.items()} for e in tr["events"][:6]]
            r["runs"] = repr(runs)[:600]
            r["opts"] = opts
            out[tr["kind"]].append(r)
    for k, v in out.items():
        with open(os.path.join(outdir, k + ".ndjson"), "w") as fh:
            for tr in v:
                fh.write(json.dumps(tr) + "\n")
    json.dump(meta, open(os.path.join(outdir, "meta.json"), "w"))


# ------------------------------------------------------------------------------------------
# spec -> code
# ------------------------------------------------------------------------------------------
FIXED = ["leapfrog", "whfast", "saba", "eos", "sei", "janus", "mercurius", "trace", "none"]
EVKIND = {5: "user", 4: "escape", 3: "encounter"}


def replay_mode(scen_file, out_file):
    global REC
    REC = Recorder()
    scen = json.load(open(scen_file))
    res = {"replayed": 0, "calls": 0, "violations": [], "samples": []}
    allcfg = dict(configs(False))
    for si, sc in enumerate(scen):
        cfg = FIXED[si % len(FIXED)]
        sim = make_sim(cfg, allcfg[cfg])
        sim.t = sc["t0"] * UNIT
        sim.dt = sc["dt0"] * UNIT
        sim.exit_max_distance = 50.0
        sim.exit_min_distance = 0.01
        hist = []
        ok = True
        for ci, call in enumerate(sc["calls"]):
            inject = None
            if call["ev"] in EVKIND:
                inject = (EVKIND[call["ev"]], call["evAt"])
            elif call["ev"] == 2:
                inject = ("gone", call["evAt"])
            via_py = (si + ci) % 2 == 0
            steps0 = sim.steps_done
            if sim.N == 0:
                break
            # restore a sane configuration if a previous call's injected event displaced a particle
            p = sim.particles[sim.N - 1]
            if abs(p.x) > 100 or (sim.N > 1 and abs(p.x - sim.particles[0].x) < 1e-2 and abs(p.y - sim.particles[0].y) < 1e-6):
                p.x, p.y, p.z = 1.9, 0.3, 0.0
            st = {}
            ev, status, exc, _ = one_call(sim, call["tmax"] * UNIT, call["exact"], inject, via_py, st)
            got = {"t": sim.t / UNIT, "dt": sim.dt / UNIT, "status": status, "steps": int(sim.steps_done - steps0)}
            want = {"t": call["t"], "dt": call["dt"], "status": call["status"], "steps": call["steps"]}
            hist.append({"tmax": call["tmax"], "exact": call["exact"], "ev": call["ev"], "evAt": call["evAt"], "via": "py" if via_py else "c"})
            res["calls"] += 1
            bad = got != want
            if via_py and EXC.get(status) != exc:
                bad = True
                got["exception"] = exc
                want["exception"] = EXC.get(status)
            if bad:
                res["violations"].append({"cfg": cfg, "t0": sc["t0"], "dt0": sc["dt0"], "history": hist, "got": got, "want": want})
                ok = False
                break
        sim._heartbeat = ctypes.cast(None, type(sim._heartbeat))
        res["replayed"] += 1
        if len(res["samples"]) < 3 and ok:
            res["samples"].append({"cfg": cfg, "t0": sc["t0"], "dt0": sc["dt0"], "calls": hist})
    json.dump(res, open(out_file, "w"))


if __name__ == "__main__":
    if sys.argv[1] == "trace":
        trace_mode(sys.argv[2], int(sys.argv[3]), sys.argv[4])
    else:
        replay_mode(sys.argv[2], sys.argv[3])
