#!/bin/bash
# Rebuild /repo's in-place extension from the working tree (the pinned suite loads it; the baseline
# build_cmd does not compile C, so fix: commits would otherwise be invisible to the suite).
set -e
cd /repo
EXT=$(/venv/bin/python -c "import sysconfig;print(sysconfig.get_config_var('EXT_SUFFIX'))")
T=$(mktemp -d /verif/build/inplace.XXXX 2>/dev/null || mktemp -d)
ls src/*.c | grep -v -e glad.c -e communication_mpi.c | xargs -P16 -I{} sh -c "gcc -c -O3 -fPIC -std=c99 -fstrict-aliasing -Wno-unknown-pragmas -D_GNU_SOURCE -DLIBREBOUND -DSERVER -DGITHASH=verif -w {} -o $T/\$(basename {} .c).o"
gcc -shared -o librebound$EXT $T/*.o -lm -lpthread
rm -rf $T
