"""Projection functions shared by replays and trace validation (one projection, both directions).

 * stream_bytes(sim)            bytes of reb_simulation_save_to_stream
 * parse_fields(buf, pos)       [(type, size, payload)] up to END; returns (fields, pos_after_END, ok)
 * parse_archive(buf)           blobs with offsets, fields, END flag, trailer
 * masked(name, payload)        payload with pointer-valued members zeroed (bitwise clauses are about
                                persisted quantities, never addresses)
 * Interner                     digests -> dense small ints per trace (abstraction A3)
"""
import ctypes
import hashlib
import struct
from ctypes import byref, c_char_p, c_size_t, string_at

import rebound
from rebound import clibrebound

FIELD_HDR = 16      # struct reb_binary_field {uint32 type; uint64 size}
TRAILER = 12        # struct reb_simulationarchive_blob {int32 index, offset_prev, offset_next}
HEADER = 64

DT = {0: "DOUBLE", 1: "INT", 2: "UINT", 3: "UINT32", 4: "INT64", 5: "UINT64", 6: "ULONGLONG"}


class FD(ctypes.Structure):
    _fields_ = [("type", ctypes.c_uint), ("dtype", ctypes.c_int), ("name", ctypes.c_char * 1024),
                ("offset", ctypes.c_size_t), ("offset_N", ctypes.c_size_t), ("element_size", ctypes.c_size_t)]


_desc = None


def descriptors():
    global _desc
    if _desc is None:
        arr = ctypes.cast((FD * 3).in_dll(clibrebound, "reb_binary_field_descriptor_list"), ctypes.POINTER(FD))
        out = []
        i = 0
        while True:
            d = arr[i]
            out.append({"type": d.type, "dtype": d.dtype, "name": d.name.decode(), "offset": d.offset,
                        "offset_N": d.offset_N, "element_size": d.element_size})
            if d.name == b"end":
                break
            i += 1
        _desc = out
    return _desc


def desc_by_type():
    if _PTR_DTYPES is None:
        _init_ptr_dtypes()
    return {d["type"]: d for d in descriptors()}


def end_type():
    return next(d["type"] for d in descriptors() if d["name"] == "end")


def stream_bytes(sim):
    buf = c_char_p()
    size = c_size_t()
    clibrebound.reb_simulation_save_to_stream(byref(sim), byref(buf), byref(size))
    s = bytes(string_at(buf, size=size.value))
    clibrebound.reb_simulation_output_free_stream(buf)
    return s


def parse_fields(buf, pos):
    """Parse field records from pos until END.  Returns (fields, pos_after_END, complete)."""
    et = end_type()
    out = []
    n = len(buf)
    while True:
        if pos + FIELD_HDR > n:
            return out, pos, False
        typ, = struct.unpack_from("<I", buf, pos)
        size, = struct.unpack_from("<Q", buf, pos + 8)
        pos += FIELD_HDR
        if typ == et:
            return out, pos, True
        if pos + size > n:
            out.append((typ, size, buf[pos:n]))
            return out, n, False
        out.append((typ, size, buf[pos:pos + size]))
        pos += size


def parse_archive(buf):
    """Parse an archive file image into blobs: dict(offset, fields, complete, trailer|None, end)."""
    blobs = []
    pos = 0
    n = len(buf)
    first = True
    while pos < n:
        start = pos
        if first:
            pos += HEADER
            first = False
        fields, pos, ok = parse_fields(buf, pos)
        tr = None
        if ok and pos + TRAILER <= n:
            tr = struct.unpack_from("<iii", buf, pos)
            pos += TRAILER
        blobs.append({"offset": start, "fields": fields, "complete": ok, "trailer": tr, "end": pos})
        if not ok or tr is None:
            break
    return blobs


_P_SIZE = ctypes.sizeof(rebound.Particle)
_P_PTRS = [(getattr(rebound.Particle, f).offset, getattr(rebound.Particle, f).size) for f in ("c", "ap", "_sim")]


def _var_ptr():
    from rebound.variation import Variation
    return Variation._sim.offset, Variation._sim.size, ctypes.sizeof(Variation)


def masked(name, payload, element_size=None):
    """Zero the pointer-valued members inside a field payload."""
    d = None
    if element_size is None:
        d = next((x for x in descriptors() if x["name"] == name), None)
        element_size = d["element_size"] if d else 0
    if name == "var_config":
        off, sz, tot = _var_ptr()
        b = bytearray(payload)
        for k in range(0, len(b) - tot + 1, tot):
            b[k + off:k + off + sz] = b"\0" * sz
        return bytes(b)
    if element_size == _P_SIZE and len(payload) % _P_SIZE == 0 and name not in ("ri_whfast512.pjh",):
        b = bytearray(payload)
        for k in range(0, len(b), _P_SIZE):
            for off, sz in _P_PTRS:
                b[k + off:k + off + sz] = b"\0" * sz
        return bytes(b)
    if name in ("ri_whfast.p_jh", "ri_mercurius.particles_backup", "ri_mercurius.particles_backup_additional_forces"):
        return masked("particles", payload, _P_SIZE)
    return payload


class Interner:
    def __init__(self):
        self.ids = {}

    def __call__(self, b):
        h = hashlib.sha256(b).digest()
        if h not in self.ids:
            self.ids[h] = len(self.ids) + 1
        return self.ids[h]


_rank = None


def rank_of_type():
    """type id -> rank in the writer's emission order (descriptor order; functionpointers last)."""
    global _rank
    if _rank is None:
        _rank = {}
        ds = descriptors()
        k = 1
        for d in ds:
            if d["name"] in ("functionpointers", "header", "end", "sablob"):
                continue
            _rank[d["type"]] = k
            k += 1
        fp = next(d for d in ds if d["name"] == "functionpointers")
        _rank[fp["type"]] = k
        _rank["NF"] = k
    return _rank


def pointer_ranks():
    if _PTR_DTYPES is None:
        _init_ptr_dtypes()
    r = rank_of_type()
    return sorted(r[d["type"]] for d in descriptors() if d["dtype"] in _PTR_DTYPES and d["type"] in r)


_PTR_DTYPES = None


def _init_ptr_dtypes():
    """dtype codes of the pointer kinds, learned from known descriptors."""
    global _PTR_DTYPES
    ds = {d["name"]: d for d in descriptors()}
    _PTR_DTYPES = {ds["particles"]["dtype"], ds["ri_ias15.g"]["dtype"], ds["display_settings"]["dtype"], ds["ri_whfast512.pjh"]["dtype"]}


def field_records(fields, intern, ranks=True):
    """[(type,size,payload)] -> [[rank-or-type, size, digest-id]] with pointers masked."""
    bt = desc_by_type()
    rk = rank_of_type()
    out = []
    for typ, size, payload in fields:
        name = bt[typ]["name"] if typ in bt else "?%d" % typ
        ident = rk.get(typ, 900 + (typ % 50)) if ranks else int(typ)
        out.append([ident, int(size), intern(masked(name, payload, bt[typ]["element_size"] if typ in bt else 0)) if size else 0])
    return out


def name_of_rank(k):
    rk = rank_of_type()
    bt = desc_by_type()
    for t, r in rk.items():
        if r == k and t in bt:
            return bt[t]["name"]
    return "?"


def particles_digest(sim):
    n = sim.N
    if n == 0:
        return hashlib.sha256(b"").hexdigest()
    raw = string_at(ctypes.addressof(sim._particles.contents), n * _P_SIZE)
    return hashlib.sha256(masked("particles", raw, _P_SIZE)).hexdigest()
