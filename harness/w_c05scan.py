"""C05 save-point scan for the adaptive schemes.  usage: w_c05scan.py <out.json> <seed> <tier> <layout.json>
One eccentric system per configuration (BS tolerances, IAS15 modes, MERCURIUS / TRACE with close approaches); the run is
advanced step by step (single steps: save points directly behind rejected steps are reached) and after EVERY step the state
is reproduced through a route and continued; the continuation must be bit for bit the uninterrupted run."""
import json
import os
import pickle
import random
import struct
import sys
import warnings

import rebound
import w_c17 as W

warnings.simplefilter("ignore")


def build_coll(cfg):
    """approaching pairs that merge one after the other while the run is being saved and restored"""
    sim = rebound.Simulation()
    sim.configure_box(40.0)
    sim.integrator = cfg["integ"]
    sim.gravity = cfg["grav"]
    sim.collision = cfg["coll"]
    sim.collision_resolve = "merge"
    sim.dt = 0.05
    for k in range(5):
        y = -8.0 + 4.0 * k
        gap = 0.6 + 0.45 * k               # the pairs meet at different times
        sim.add(m=1e-3, r=0.1, x=-gap, y=y, z=0.3 * k, vx=0.5, hash=2 * k + 1)
        sim.add(m=2e-3, r=0.15, x=gap, y=y + 0.02, z=0.3 * k, vx=-0.5, hash=2 * k + 2)
    return sim


def build(cfg):
    if "coll" in cfg:
        return build_coll(cfg)
    sim = rebound.Simulation()
    sim.add(m=1.0)
    sim.add(m=1e-3, a=1.0, e=cfg["e"])
    sim.add(m=1e-3, a=2.3, e=0.1, f=1.0)
    if cfg["integ"] in ("mercurius", "trace"):
        sim.add(m=1e-3, a=2.35, e=0.1, f=1.05)     # close to the second planet: encounters from the start
    sim.move_to_com()
    sim.integrator = cfg["integ"]
    sim.dt = cfg["dt"]
    if cfg["integ"] == "bs":
        sim.ri_bs.eps_rel = cfg["eps"]
        sim.ri_bs.eps_abs = cfg["eps"]
        if cfg.get("min_dt"):
            sim.ri_bs.min_dt = cfg["min_dt"]
    elif cfg["integ"] == "ias15":
        sim.ri_ias15.adaptive_mode = cfg["mode"]
        sim.ri_ias15.epsilon = cfg["eps"]
    elif cfg["integ"] == "trace":
        sim.ri_trace.peri_mode = cfg["mode"]
    return sim


def state(s):
    # bit patterns (a particle flagged for removal by the tree carries NaN until the next tree update: NaN != NaN as numbers)
    return (b"".join(struct.pack("7dI", p.x, p.y, p.z, p.vx, p.vy, p.vz, p.m, p.hash.value) for p in s.particles), s.N, struct.pack("3d", s.t, s.dt, s.dt_last_done))


def getsim_close(res, tmpdir):
    """Simulationarchive.getSimulation(t, mode='close') with the default keep_unsynchronized = 1: the returned simulation was integrated from
    the nearest snapshot and synchronised for output only; continued, it reproduces the uninterrupted run bit for bit (WHFast / SABA with
    safe_mode = 0, where the synchronisation is deferred)"""
    cfgs = [("whfast", {"safe_mode": 0}), ("whfast", {"safe_mode": 0, "corrector": 11}), ("whfast", {"safe_mode": 0, "coordinates": "democraticheliocentric"}),
            ("saba", {"safe_mode": 0}), ("saba", {"safe_mode": 0, "type": "cl4"}), ("saba", {"safe_mode": 0, "type": "2"}),
            ("whfast", {"safe_mode": 1}), ("saba", {"safe_mode": 1})]

    def mk(name, opts):
        sim = rebound.Simulation()
        sim.add(m=1.0)
        sim.add(m=1e-3, a=1.0, e=0.1, f=0.4)
        sim.add(m=3e-4, a=1.8, e=0.05, inc=0.1, f=2.0)
        sim.move_to_com()
        sim.integrator = name
        for k, v in opts.items():
            setattr(getattr(sim, "ri_" + name), k, v)
        sim.dt = 0.02
        return sim
    for name, opts in cfgs:
        for mode in ("close", "snapshot"):
            ref = mk(name, opts)
            ref.integrate(60.2 * ref.dt, exact_finish_time=0)
            ref.synchronize()
            fn = os.path.join(tmpdir, "gc_%d.bin" % os.getpid())
            if os.path.exists(fn):
                os.remove(fn)
            a = mk(name, opts)
            a.save_to_file(fn, step=10)
            a.integrate(30.2 * a.dt, exact_finish_time=0)
            del a
            sa = rebound.Simulationarchive(fn)
            c = sa.getSimulation(25.2 * 0.02, mode=mode)
            del sa
            os.remove(fn)
            c.integrate(60.2 * c.dt, exact_finish_time=0)
            c.synchronize()
            ok = state(c) == state(ref)
            res.append({"cfg": {"integ": name, "opts": opts, "getSimulation": mode}, "savepoints": 1,
                        "bad": [] if ok else [{"k": 19, "route": "getSimulation(mode='%s')" % mode, "after": 40}], "nbad": 0 if ok else 1})


def main():
    out, seed, tier, layout = sys.argv[1], int(sys.argv[2]), sys.argv[3], json.load(open(sys.argv[4]))
    rng = random.Random(seed)
    tmpdir = os.path.dirname(out)
    cfgs = []
    for eps in (1e-5, 1e-8, 1e-11):
        for e in (0.5, 0.9):
            cfgs.append({"integ": "bs", "eps": eps, "e": e, "dt": 0.1})
    cfgs.append({"integ": "bs", "eps": 1e-9, "e": 0.9, "dt": 0.1, "min_dt": 0.02})
    for mode in (0, 1, 2, 3):
        cfgs.append({"integ": "ias15", "mode": mode, "eps": 1e-9 if mode < 2 else 1e-9, "e": 0.9, "dt": 0.3})
    cfgs.append({"integ": "mercurius", "e": 0.3, "dt": 0.05})
    for mode in (0, 1, 2):
        cfgs.append({"integ": "trace", "mode": mode, "e": 0.6, "dt": 0.05})
    for coll in ("direct", "line", "tree", "linetree"):
        for grav in ("none", "basic") + (("tree",) if coll in ("tree", "linetree") else ()):
            cfgs.append({"integ": "leapfrog", "coll": coll, "grav": grav})
    nsteps, cont = (40, 6) if tier == "quick" else (160, 8)
    res = []
    for cfg in cfgs:
        ref = build(cfg)
        traj = []
        for _ in range(nsteps + cont + 1):
            ref.step()
            traj.append(state(ref))
        sim = build(cfg)
        bad = []
        for k in range(nsteps):
            sim.step()
            if state(sim) != traj[k]:
                bad.append({"k": k, "route": "-", "what": "two identical runs differ"})
                break
            route = ("copy", "pickle", "file", "archive")[(k + seed) % 4] if tier == "quick" else None
            for rt in ([route] if route else ["copy", "pickle", "file", "archive"]):
                c = W.reproduce(sim, rt, layout, tmpdir)
                pending = any(p.y != p.y for p in sim.particles)       # a particle flagged for removal, waiting for the next tree update
                for j in range(cont):
                    c.step()
                    if state(c) != traj[k + 1 + j]:
                        a, b = state(c), traj[k + 1 + j]
                        recs = lambda blob: sorted(blob[i:i + 60] for i in range(0, len(blob), 60))     # noqa: E731
                        order_only = a[1:] == b[1:] and recs(a[0]) == recs(b[0])
                        # the same particles (matched by hash) within rounding: a different order also changes the order of summation
                        ua = {struct.unpack("7dI", r_)[7]: struct.unpack("7dI", r_)[:7] for r_ in recs(a[0])}
                        ub = {struct.unpack("7dI", r_)[7]: struct.unpack("7dI", r_)[:7] for r_ in recs(b[0])}
                        near = a[1:] == b[1:] and sorted(ua) == sorted(ub) and all(
                            all((x != x and y != y) or abs(x - y) <= 1e-9 * max(1.0, abs(x)) for x, y in zip(ua[h], ub[h])) for h in ua)
                        bad.append({"k": k, "route": rt, "after": j + 1, "pending_removal": pending, "order_only": order_only, "same_particles_to_rounding": near})
                        break
        res.append({"cfg": cfg, "savepoints": nsteps, "bad": bad[:10], "nbad": len(bad)})
    getsim_close(res, tmpdir)
    json.dump(res, open(out, "w"))


if __name__ == "__main__":
    main()
