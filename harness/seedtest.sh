#!/bin/bash
# usage: seedtest.sh <patch.diff> <ID> [tier]   -- apply a seeded change to /repo, run the check, undo it.
P="$1"; ID="$2"; TIER="${3:-quick}"
cd /repo || exit 2
if ! git diff --quiet; then echo "repo dirty"; exit 2; fi
if ! git apply "$P" 2>/tmp/apply.err; then echo "APPLY FAILED"; cat /tmp/apply.err; git reset -q --hard HEAD; exit 2; fi
git reset -q   # un-stage (3way stages)
cd /verif && timeout 3000 ./check "$ID" --tier "$TIER" 2>&1 | grep -E "VIOLATION|KNOWN|MACHINERY|^\[C|what:" | cut -c1-400 | head -12
RC=${PIPESTATUS[0]}
cd /repo && git checkout -- . && git status --short | grep -v '^??'
echo "exit=$RC"
