"""C15 -- boundary conditions and the spatial tree keep every particle accounted for.

 E1  TLC checks BoundaryTree on integer lattices: periodic / shear-periodic / open boundaries, with and
     without a tree, root-box layouts 1x1x1, 2x1x1, 1x1x2, velocities up to 2.75 box lengths per step:
     InBox, CountUnchanged, Congruent (moved by whole box lengths; the sheet's velocity jump per radial
     wrap), OpenExact (exactly the particles outside are removed), NoDuplicates, and that the minimal
     tree satisfies the tree contract TreeOK.
 E3  real calls of reb_boundary_check / reb_simulation_update_tree / update_tree_gravity_data (each
     one specification action) and whole reb_simulation_step calls on random lattice configurations
     (1-12 particles, several boxes per step, flagged removals); after each call the particle array
     and the real tree (walked through ctypes) are validated by TLC against Trace_BoundaryTree:
     the array is the specified one, every live particle is in exactly one leaf whose cell (computed
     from the path by the spec) contains it, back-pointers, particle counts and masses of inner cells.
 E5  binding self-test.
"""
import json
import os
import re
import shutil

import common
from common import MachineryError

LEVEL = "model_checking"
HERE = os.path.dirname(os.path.abspath(__file__))
INVS = ["InBox", "CountUnchanged", "Congruent", "OpenExact", "NoDuplicates", "TreeUpToDate"]
LAYOUTS = {"NR111": [1, 1, 1], "NR211": [2, 1, 1], "NR112": [1, 1, 2]}


def cfg_text(spec, lay, bt, tree, srt, pos, vels, maxn, steps, invs, extra=""):
    s = "SPECIFICATION %s\nCONSTANTS\n  W = 16\n  NR <- %s\n  BType = \"%s\"\n  UseTree = %s\n  Sorted = %s\n  S = 12\n" % (
        spec, lay, bt, "TRUE" if tree else "FALSE", "TRUE" if srt else "FALSE")
    s += "  Pos <- %s\n  Vels <- %s\n  MaxN = %d\n  MaxSteps = %d\n" % (pos, vels, maxn, steps)
    s += "".join("INVARIANT %s\n" % i for i in invs) + extra + "CHECK_DEADLOCK FALSE\n"
    return s


def model(rep, tag, lay, bt, tree, srt, maxn, steps):
    name = "gen_MC_BT_%s" % tag
    open(os.path.join(common.SPEC, name + ".cfg"), "w").write(cfg_text("Spec", lay, bt, tree, srt, "PosA", "VelsA", maxn, steps, INVS))
    try:
        res = common.run_tlc("MC_BoundaryTree", name, timeout=3000)
    finally:
        os.remove(os.path.join(common.SPEC, name + ".cfg"))
    if res.violation:
        rep.violation("model:%s:%s" % (tag, res.violation), "BoundaryTree design violates %s (%s)" % (res.violation, tag), {"tlc_trace": res.trace[-6:]})
        return
    common.tlc_must_pass(res, "BoundaryTree/" + tag, require_actions=["Drift", "BC"])
    rep.add(states=res.distinct, transitions=res.states)
    rep.cov.setdefault("models", []).append({"cfg": tag, "distinct": res.distinct})


def validate(tracefile, c, tag, verbose=False):
    name = "gen_Trace_BT_%s" % tag
    txt = cfg_text("TraceSpec", c["lay"], c["BType"], c["UseTree"], c["Sorted"], "PosA", "VelsA", 1, 1,
                   ["TreePartition", "CellGeometry", "TInBox", "TOpenExact", "NoDuplicates", "Congruent"], "CONSTRAINT Report\n")
    open(os.path.join(common.SPEC, name + ".cfg"), "w").write(txt)
    env = {"TRACE_FILE": tracefile}
    if verbose:
        env["VERBOSE"] = "1"
    try:
        # Trace_BoundaryTree EXTENDS BoundaryTree; PosA/VelsA/NR* come from MC_BoundaryTree -> use a tiny wrapper module
        res = common.run_tlc("MC_Trace_BoundaryTree", name, workers=1, env=env, coverage=False, timeout=3000)
    finally:
        os.remove(os.path.join(common.SPEC, name + ".cfg"))
    acc = set(int(m) for m in re.findall(r'<<"ACC", (\d+)>>', res.out))
    return acc, res


def check_traces(rep, tracefile, c, tag, sc):
    n = sum(1 for _ in open(tracefile))
    acc, res = validate(tracefile, c, tag)
    lines = open(tracefile).read().splitlines()
    desc = "%s boundary, tree=%s, root boxes %s%s" % (c["BType"], c["UseTree"], c["NR"], ", energy offset tracked" if c["Sorted"] else "")
    if res.violation:
        st = "\n".join(res.trace[-1:])
        m = re.search(r"/\\ tid = (\d+)", st)
        tid = int(m.group(1)) if m else 0
        ml = re.search(r"/\\ l = (\d+)", st)
        ll = int(ml.group(1)) if ml else 0
        tr = json.loads(lines[tid - 1]) if tid else {}
        e = tr.get("events", [{}])[ll - 2] if ll >= 2 else {}
        rep.violation("trace:%s:%s" % (tag, res.violation),
                      "clause %s violated (%s): initial particles [id,x,y,z,vx,vy,vz,m,dead] %s, after event #%d '%s' array %s leaves %s"
                      % (res.violation, desc, tr.get("parts"), ll - 1, e.get("a"), e.get("parts"), json.dumps(e.get("leaves"))[:300]),
                      {"clause": res.violation, "cfg": c, "trace": tr, "tlc_state": res.trace[-1:]})
        return acc, n, res
    if not res.ok:
        raise MachineryError("trace validation did not complete: %s" % res.out[-2000:])
    for tid in range(1, n + 1):
        if tid in acc:
            continue
        f = os.path.join(sc, "one.ndjson")
        open(f, "w").write(lines[tid - 1] + "\n")
        a1, r1 = validate(f, c, "one", verbose=True)
        at = [int(m) for m in re.findall(r'<<"AT", 1, (\d+)>>', r1.out)]
        k = max(at) if at else 1
        tr = json.loads(lines[tid - 1])
        e = tr["events"][k - 1] if k - 1 < len(tr["events"]) else None
        rep.violation("trace:%s:%s" % (tag, e["a"] if e else "?"),
                      "%s: the particle array after '%s' (event #%d) is not the specified one: initial particles [id,x,y,z,vx,vy,vz,m,dead] %s at t=%s, events so far %s, array now %s"
                      % (desc, e["a"] if e else "?", k, tr["parts"], tr["t0"], [x["a"] for x in tr["events"][:k]], e.get("parts") if e else None),
                      {"cfg": c, "trace": tr, "unmatched_event": e})
        if len(rep.violations) >= 5:
            break
    return acc, n, res


def self_test(rep, tracefile, c, sc):
    good = None
    for ln in open(tracefile):
        tr = json.loads(ln)
        if any(e["a"] in ("tu", "step") and len(e.get("leaves", [])) >= 2 for e in tr["events"]):
            good = tr
            break
    if good is None:
        raise MachineryError("self-test: no suitable trace")
    bads = []
    b = json.loads(json.dumps(good))
    e = next(e for e in b["events"] if e["a"] in ("tu", "step") and len(e["leaves"]) >= 2)
    e["leaves"][0][2], e["leaves"][1][2] = e["leaves"][1][2], e["leaves"][0][2]     # two particles in each other's leaf
    bads.append(b)
    b = json.loads(json.dumps(good))
    e = next(e for e in b["events"] if e["a"] in ("tu", "step") and len(e["leaves"]) >= 2)
    e["parts"][0][1] += 16                                                          # a particle one box length off
    bads.append(b)
    b = json.loads(json.dumps(good))
    e = next(e for e in b["events"] if e["a"] in ("tu", "step") and len(e["leaves"]) >= 2)
    e["geo"][0][5] *= 2                                                             # a cell of the wrong size
    bads.append(b)
    for k, bad in enumerate(bads):
        g = os.path.join(sc, "st.ndjson")
        open(g, "w").write(json.dumps(bad) + "\n")
        acc, res = validate(g, c, "st")
        if 1 in acc and not res.violation:
            raise MachineryError("binding self-test failed: corrupted trace #%d accepted" % (k + 1))
    g = os.path.join(sc, "st.ndjson")
    open(g, "w").write(json.dumps(good) + "\n")
    acc, res = validate(g, c, "st")
    if 1 not in acc:
        raise MachineryError("binding self-test: uncorrupted trace rejected: %s" % res.out[-600:])
    rep.cov["binding_self_test"] = "3 corrupted traces rejected (swapped leaves, particle one box off, wrong cell size), original accepted"


def run(tier, rep):
    common.build()
    sc = common.scratch("c15")
    quick = tier == "quick"
    maxn, steps = (2, 2) if quick else (2, 3)
    for lay in (["NR111", "NR112"] if quick else ["NR111", "NR211", "NR112"]):
        for bt, tree, srt in (("periodic", False, False), ("periodic", True, False), ("open", False, False), ("open", True, False),
                              ("open", False, True), ("shear", False, False)):
            model(rep, "%s_%s_%s%s" % (lay, bt, "tree" if tree else "plain", "_sorted" if srt else ""), lay, bt, tree, srt, maxn, steps)
    if not quick:
        model(rep, "NR111_periodic_tree_n3", "NR111", "periodic", True, False, 3, 1)
    if rep.violations:
        return
    ntr = 30 if quick else 250
    tot = 0
    first = None
    k = 0
    for lay, NR in sorted(LAYOUTS.items()):
        for bt, tree, srt in (("periodic", True, False), ("periodic", False, False), ("open", True, False), ("open", False, False),
                              ("open", False, True), ("shear", False, False)):
            if quick and lay == "NR211" and bt not in ("periodic", "shear"):       # (the sheet needs a layout with Lx != Ly)
                continue
            c = {"W": 16, "NR": NR, "lay": lay, "BType": bt, "UseTree": tree, "Sorted": srt, "S": 12}
            tag = "%s_%s_%s%s" % (lay, bt, "tree" if tree else "plain", "_sorted" if srt else "")
            cf = os.path.join(sc, "cfg_%s.json" % tag)
            json.dump(c, open(cf, "w"))
            tf = os.path.join(sc, "tr_%s.ndjson" % tag)
            k += 1
            r = common.run_worker(os.path.join(HERE, "w_c15.py"), [cf, tf, str(common.seed() * 100 + k), str(ntr)], timeout=3000)
            if r.returncode != 0:
                if r.returncode < 0:
                    rep.violation("crash:%s" % tag, "real code crashed (signal %d) in boundary check / tree update (%s)" % (-r.returncode, tag), {"stderr": r.stderr[-1500:]})
                    continue
                raise MachineryError("worker failed (%s): %s" % (tag, r.stderr[-2500:]))
            try:
                notes = json.loads(r.stdout.strip().splitlines()[-1])["notes"]
            except Exception:
                notes = []
            for nt in notes[:2]:
                rep.violation("note:%s:%s" % (tag, nt.split(":")[0][:40]), "%s (%s; lattice configuration without coincident particles)" % (nt, tag), {"note": nt, "cfg": c})
            acc, n, res = check_traces(rep, tf, c, tag, sc)
            tot += n
            rep.add(states=res.distinct, transitions=res.states)
            rep.cov.setdefault("trace_validation", {})[tag] = {"traces": n, "accepted": len(acc)}
            if first is None and tree:
                first = (tf, c)
                tr = json.loads(open(tf).readline())
                rep.sample({"kind": "code->spec trace", "cfg": tag, "particles": tr["parts"], "events": [e["a"] for e in tr["events"]],
                            "first_tree": next((e.get("leaves") for e in tr["events"] if e.get("leaves")), None)})
    rep.add(traces_validated_against_impl=tot, evaluations=tot)
    if not rep.violations and first:
        self_test(rep, first[0], first[1], sc)
    rep.add(distinct_nontrivial=tot, rule="one trace per random lattice configuration (1-12 particles, 2-6 steps, manual sub-step calls or whole steps); all distinct by seed; "
            "non-trivial = at least one particle crosses a box face or cell border", exhaustive=False)
    rep.assumptions += ["particles on odd ticks, velocities multiples of 4 ticks (no particle on a cell face)",
                        "shearing sheet exercised without a tree (mid-step boundary check happens at a half-integer time)",
                        "cell centre of mass to 1e-9 (A5)", "order of particles after a tree update is free"]
    shutil.rmtree(sc, ignore_errors=True)


def replay(path):
    print(json.dumps(json.load(open(path)), indent=1)[:4000])
    return 0
