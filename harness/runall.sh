#!/bin/bash
# run every claimed check's quick tier on the current /repo working tree (regression after hook / fix commits)
cd /verif
for p in $(python3 -c "import json;print(' '.join(c['property_id'] for c in json.load(open('MANIFEST.json'))['checks']))"); do
  ./check $p --tier ${1:-quick} > /tmp/q_$p.log 2>&1; echo "$p rc=$? $(grep -E '^\[C' /tmp/q_$p.log | tail -n 1 | cut -c1-110)"
done
