"""C18 -- the Python classes mirror the C structures and options exactly.

 E1  TLC checks the register-file model Mirror (a write through one view is read back through the
     other at the same member and nowhere else) for every layout of a 3-member structure, and the
     lemma TablesDecide: all cross write/read round trips succeed iff the two tables agree; the
     option table (documented name -> C symbol) is one-to-one.
 E4  the C view is GENERATED: gcc -E src/rebound.h -> every member of every struct -> generated C
     programs print offsetof / sizeof / type class; the Python view is ctypes introspection of every
     Structure in rebound/.  For every member Python names: same offset, size, type class
     (TLC evaluates LayoutAgrees on the extracted tables), plus the executed write/read matrix with two
     bit patterns in both directions, plus total structure sizes.
     For every row of Mirror.tla's OptionTable (emitted by TLC): setting the name through the documented
     Python attribute stores the C value of the specified symbol (enumerator value from a generated C
     program; exported function address for callback-valued options), and the name reads back.
"""
import json
import os
import re
import shutil
import subprocess
from concurrent.futures import ThreadPoolExecutor

import common
import hparse
from common import MachineryError

LEVEL = "model_checking"
HERE = os.path.dirname(os.path.abspath(__file__))
PREFIX_ONLY = {"ServerData"}      # only reached through a pointer to a single object; Python declares the leading members it uses
CC = ["gcc", "-std=gnu11", "-w", "-D_GNU_SOURCE", "-DLIBREBOUND", "-DSERVER"]


def c_view(sc):
    st = hparse.structs()
    work = os.path.join(sc, "cgen")
    os.makedirs(work, exist_ok=True)
    inc = ["-I", os.path.join(common.REPO, "src")]

    def one(name):
        mems = st[name]
        src = os.path.join(work, name + ".c")
        with open(src, "w") as fh:
            fh.write('#include <stdio.h>\n#include <stddef.h>\n#include "rebound.h"\n#include "tree.h"\n')
            fh.write('#define KIND(x) _Generic((x), double: "float", float: "float", long double: "float", int: "int", long: "int", long long: "int", short: "int", signed char: "int", '
                     'unsigned int: "uint", unsigned long: "uint", unsigned long long: "uint", unsigned short: "uint", unsigned char: "uint", char: "uint", _Bool: "uint", default: "other")\n')
            fh.write("int main(){ struct %s* p = 0; (void)p; printf(\"SIZE %%zu\\n\", sizeof(struct %s));\n" % (name, name))
            for m in mems:
                nm, kind = m[0], m[1]
                if kind in ("scalar",):
                    fh.write('  printf("%s %%zu %%zu %%s\\n", offsetof(struct %s, %s), sizeof(p->%s), KIND(p->%s));\n' % (nm, name, nm, nm, nm))
                elif kind == "enum":
                    fh.write('  printf("%s %%zu %%zu %%s\\n", offsetof(struct %s, %s), sizeof(p->%s), ((__typeof__(p->%s))-1) < 0 ? "int" : "uint");\n' % (nm, name, nm, nm, nm))
                else:
                    k = {"pointer": "ptr", "fp": "ptr", "array": "array", "struct": "struct"}[kind]
                    fh.write('  printf("%s %%zu %%zu %s\\n", offsetof(struct %s, %s), sizeof(p->%s));\n' % (nm, k, name, nm, nm))
            fh.write("  return 0; }\n")
        exe = os.path.join(work, name)
        r = subprocess.run(CC + inc + [src, "-o", exe], capture_output=True, text=True)
        if r.returncode != 0:
            return name, None, r.stderr[-300:]
        o = subprocess.run([exe], capture_output=True, text=True).stdout.splitlines()
        size = int(o[0].split()[1])
        mem = []
        for ln in o[1:]:
            a = ln.split()
            mem.append([a[0], int(a[1]), int(a[2]), a[3]])
        return name, {"size": size, "members": mem}, ""

    out, failed = {}, []
    with ThreadPoolExecutor(max_workers=common.NCPU) as ex:
        for name, v, err in ex.map(one, sorted(st)):
            if v is None:
                failed.append((name, err))
            else:
                out[name] = v
    return out, failed, st


def enum_values(symbols, sc):
    src = os.path.join(sc, "enums.c")
    with open(src, "w") as fh:
        fh.write('#include <stdio.h>\n#include "rebound.h"\nint main(){\n')
        for s in symbols:
            fh.write('  printf("%s %%d\\n", (int)%s);\n' % (s, s))
        fh.write("  return 0; }\n")
    exe = os.path.join(sc, "enums")
    r = subprocess.run(CC + ["-I", os.path.join(common.REPO, "src"), src, "-o", exe], capture_output=True, text=True)
    if r.returncode != 0:
        # a symbol of the specification's table does not exist in the header
        return None, r.stderr[-600:]
    return {a.split()[0]: int(a.split()[1]) for a in subprocess.run([exe], capture_output=True, text=True).stdout.splitlines()}, ""


def run(tier, rep):
    common.build()
    sc = common.scratch("c18")
    # E1
    res = common.run_tlc("Mirror", "MC_Mirror", timeout=1800)
    if res.violation:
        rep.violation("model:Mirror:" + res.violation, "Mirror model violates " + res.violation, {"tlc_trace": res.trace[-4:]})
        return
    common.tlc_must_pass(res, "Mirror", require_actions=["Write"])
    rep.add(states=res.distinct, transitions=res.states)
    em = common.run_tlc("MirrorEmit", "MirrorEmit", workers=1, coverage=False, timeout=600)
    if not em.ok:
        raise MachineryError("MirrorEmit failed: %s" % em.out[-1500:])
    opts = {}
    for m in re.finditer(r'^<<"OPT", "(.*)">>$', em.out, re.M):
        o = json.loads(m.group(1).replace('\\"', '"'))
        opts[(o["owner"], o["attr"])] = o
    options = list(opts.values())
    # E4 tables
    cview, failed, st = c_view(sc)
    if len(cview) < 20:
        raise MachineryError("C view generation failed for most structs: %s" % failed[:3])
    symbols = sorted({p[1] for o in options for p in o["pairs"] if p[1].startswith("REB_")})
    ev, err = enum_values(symbols, sc)
    if ev is None:
        rep.violation("options:symbol-missing", "an enumerator named by the option table does not exist in src/rebound.h: %s" % err[-300:], {"stderr": err})
        return
    json.dump(cview, open(os.path.join(sc, "cview.json"), "w"))
    json.dump(options, open(os.path.join(sc, "options.json"), "w"))
    json.dump(ev, open(os.path.join(sc, "enums.json"), "w"))
    tf = os.path.join(sc, "items.ndjson")
    r = common.run_worker(os.path.join(HERE, "w_c18.py"), [os.path.join(sc, "cview.json"), os.path.join(sc, "options.json"), os.path.join(sc, "enums.json"), tf], timeout=1800)
    if r.returncode != 0:
        if r.returncode < 0:
            rep.violation("crash", "crash (signal %d) while exercising the Python mirror" % -r.returncode, {"stderr": r.stderr[-1500:]})
            return
        raise MachineryError("worker failed: %s" % r.stderr[-2500:])
    unm = json.loads(r.stdout.strip().splitlines()[-1])["unmapped_classes"]
    rep.cov["python_structures_without_c_counterpart_in_rebound_h"] = unm
    items = [json.loads(l) for l in open(tf)]
    # TLC evaluates the clauses on every item
    name = "gen_Trace_Mirror"
    clauses = ["LayoutAgrees", "MatrixAgrees", "NothingUnmatched", "OptionRoundTrip", "OptionsComplete"]
    with open(os.path.join(common.SPEC, name + ".cfg"), "w") as fh:
        fh.write('SPECIFICATION TraceSpec\nCONSTANTS\n  Size = 4\n  Members = {"a"}\nCONSTRAINT Report\n' + "".join("INVARIANT %s\n" % c for c in clauses) + "CHECK_DEADLOCK FALSE\n")
    bad = {}
    try:
        # one clause at a time per item would need many runs; instead run once, and on a violation narrow down per item in Python
        res = common.run_tlc("Trace_Mirror", name, workers=1, env={"TRACE_FILE": tf}, coverage=False, timeout=1800)
    finally:
        os.remove(os.path.join(common.SPEC, name + ".cfg"))
    seen = set(int(m) for m in re.findall(r'<<"SEEN", (\d+)>>', res.out))
    if not res.violation and (not res.ok or len(seen) != len(items)):
        raise MachineryError("Trace_Mirror did not evaluate all items (%d of %d): %s" % (len(seen), len(items), res.out[-1200:]))
    rep.add(states=res.distinct, transitions=res.states, traces_validated_against_impl=len(items))
    nmem = nrw = nopt = 0
    for it in items:
        if it["kind"] == "struct":
            for pr in it["pairs"]:
                nmem += 1
                c, p = pr["c"], pr["p"]
                if pr["rw"] == "ok":
                    nrw += 1
                if c[1] != p[1] or c[2] != p[2] or c[3] != p[3]:
                    rep.violation("layout:%s.%s" % (it["cstruct"], c[0]),
                                  "Python %s.%s is at offset %d, size %d, %s -- the C member struct %s.%s is at offset %d, size %d, %s"
                                  % (it["py"], p[0], p[1], p[2], p[3], it["cstruct"], c[0], c[1], c[2], c[3]), {"item": it["py"], "c": c, "py": p})
                elif pr["rw"] not in ("ok", "skip"):
                    rep.violation("rw:%s.%s" % (it["cstruct"], c[0]), "write/read through %s.%s and struct %s.%s: %s" % (it["py"], p[0], it["cstruct"], c[0], pr["rw"]), pr)
            for sg in it.get("signs", []):
                rep.violation("sign:%s.%s" % (it["cstruct"], sg[1]),
                              "public Python field %s.%s is %s while the C member of struct %s is %s (values from 2^31 on read back with the wrong sign)"
                              % (sg[0], sg[1], sg[2], it["cstruct"], sg[3]), {"item": it["py"], "field": sg[1]})
            for u in it["unmatched"]:
                rep.violation("unmatched:%s.%s" % (it["cstruct"], u), "Python field %s.%s has no member of that name in struct %s" % (it["py"], u, it["cstruct"]), {"item": it["py"], "field": u})
            if it["csize"] != it["psize"] and it["py"] not in PREFIX_ONLY:
                rep.violation("size:%s" % it["cstruct"], "sizeof(struct %s) = %d but ctypes.sizeof(%s) = %d" % (it["cstruct"], it["csize"], it["py"], it["psize"]), {})
        else:
            for row in it["rows"]:
                nopt += 1
                if row["stored"] != row["expected"] or row["readback"] not in (row["name"], "n/a"):
                    rep.violation("option:%s.%s=%s" % (it["owner"], it["attr"], row["name"]),
                                  "%s.%s = %r stores %s in the C member but %s is %s; reads back as %r"
                                  % (it["owner"], it["attr"], row["name"], row["stored"], row["symbol"], row["expected"], row["readback"]), {"row": row})
    # shortcut names of the integrator property: history independence
    sh = json.load(open(tf + ".shortcuts"))
    for row in sh["rows"]:
        nopt += 1
        if row["got"] != row["want"]:
            rep.violation("shortcut:%s" % row["then"], "sim.integrator = %r after sim.integrator = %r leaves %s, on a fresh simulation it selects %s"
                          % (row["then"], row["first"], json.dumps(row["got"]), json.dumps(row["want"])), row)
    if res.violation and not rep.violations and not rep.known_hits:
        raise MachineryError("TLC reports %s on the extracted tables but the per-item narrowing found nothing" % res.violation)
    rep.cov.update({"structures_compared": len([i for i in items if i["kind"] == "struct"]), "members_compared": nmem,
                    "members_write_read_executed": nrw, "option_rows_executed": nopt, "c_structs_in_header": len(cview)})
    rep.add(evaluations=nmem + nopt, distinct_nontrivial=nmem + nopt,
            rule="every member named by a ctypes Structure of the rebound package that has a C struct of rebound.h; every row of Mirror.tla's OptionTable", exhaustive=True)
    st1 = next(i for i in items if i["kind"] == "struct" and i["py"] == "Simulation")
    rep.sample({"kind": "member", "struct": "reb_simulation", "first_members": st1["pairs"][:3]})
    op1 = next(i for i in items if i["kind"] == "options")
    rep.sample({"kind": "option", "owner": op1["owner"], "attr": op1["attr"], "rows": op1["rows"][:3]})
    rep.assumptions += ["correspondence of members is by name (leading underscores of private Python fields stripped)",
                        "this platform / ABI (x86-64 LP64)", "Python structures without a C struct in rebound.h are listed, not compared"]
    shutil.rmtree(sc, ignore_errors=True)


def replay(path):
    print(json.dumps(json.load(open(path)), indent=1)[:4000])
    return 0
