"""C08 -- integrate() honours its time, step-size and status contract.

 E1  TLC checks Integrate (MC_Integrate) exhaustively on the tick lattice: fixed-step and adaptive
     kinds, both directions, steps larger than the interval, targets before/after/equal, exact
     finishing on/off, two consecutive calls, an exit condition at any boundary; safety invariants,
     action properties and termination (liveness under weak fairness).
 E2  every path of a dumped fixed-step model is executed on the real library (nine fixed-step
     integrators, C API and Python front end): t, dt, status, number of steps (and the Python
     exception class) after every call must be the model's.
 E3  hook traces (int_begin / check_exit / step / int_end) of integrate() calls on 20 integrator
     configurations are validated by TLC against Trace_Integrate with all invariants on.
 E5  binding self-test: corrupted traces must be rejected.
"""
import json
import os
import random
import re
import shutil

import common
import stepcontrol
import bscontrol
from common import MachineryError

LEVEL = "model_checking"
HERE = os.path.dirname(os.path.abspath(__file__))

INVS = ["EndsAtTarget", "Overshoot", "RightDirection", "DtRestored", "DtKept", "NoOp", "StatusFirst", "NoSpuriousExit"]
ACTIONS = ["MCBegin", "MCHeartbeat", "MCCheck", "MCStep", "MCEnd"]


def cfg_text(kind, t0, dts, tms, calls, events, adapt, rej, invs, props, live):
    s = "SPECIFICATION MCSpec\nCONSTANTS\n  Kind = \"%s\"\n  T0sN = %s\n  Shift = 10\n  DtMags = %s\n  TMsN = %s\n" % (kind, t0, dts, tms)
    s += "  MaxCalls = %d\n  MaxEvents = %d\n  AdaptDts = %s\n  MaxRej = %d\n" % (calls, events, adapt, rej)
    for i in invs:
        s += "INVARIANT %s\n" % i
    for p in props:
        s += "PROPERTY %s\n" % p
    s += "CHECK_DEADLOCK FALSE\n"
    return s


def model(rep, name, text, dump=None, timeout=1500, need=ACTIONS):
    p = os.path.join(common.SPEC, name + ".cfg")
    open(p, "w").write(text)
    try:
        res = common.run_tlc("MC_Integrate", name, dump=dump, timeout=timeout)
    finally:
        os.remove(p)
    if res.violation:
        rep.violation("model:%s:%s" % (name, res.violation), "Integrate design violates %s (%s)" % (res.violation, name),
                      {"tlc_trace": res.trace[-14:]})
        return None
    common.tlc_must_pass(res, "Integrate/" + name, require_actions=need)
    rep.add(states=res.distinct, transitions=res.states)
    rep.cov.setdefault("models", []).append({"cfg": name, "distinct": res.distinct, "generated": res.states, "depth": res.depth,
                                             "wall_s": round(res.wall, 1)})
    return res


def paths_from_dot(dot, budget, rng):
    nodes, edges, inits = common.parse_dot(dot)
    succ = {}
    for a, b, lab in edges:
        if a != b:
            succ.setdefault(a, []).append((b, lab))
    scen = []
    total = [0]

    def emit(path):
        # path: list of node ids
        st0 = nodes[path[0]]
        sc = {"t0": st0["t"], "dt0": st0["dt"], "calls": []}
        cur = None
        for a, b in zip(path, path[1:]):
            sa, sb = nodes[a], nodes[b]
            if sa["pc"] in ("idle", "done") and sb["pc"] == "hb" and sb["calls"] == sa["calls"] + 1:
                cur = {"tmax": sb["tmax"], "exact": sb["exact"], "ev": 0, "evAt": -1}
            if cur is not None and sa["pc"] == "hb" and sb["exitEv"] != 0 and sa["exitEv"] == 0:
                cur["ev"] = sb["exitEv"]
                cur["evAt"] = sb["exitSteps"]
            if cur is not None and sa["pc"] == "end" and sb["pc"] == "done":
                cur.update({"t": sb["t"], "dt": sb["dt"], "status": sb["status"], "steps": sb["steps"]})
                sc["calls"].append(cur)
                cur = None
        if sc["calls"] and all(c["ev"] != 7 for c in sc["calls"]):
            scen.append(sc)

    # iterative DFS over all root-to-leaf paths (the graph is a DAG: `calls`/`steps` only grow)
    for r in sorted(inits):
        stack = [(r, [r])]
        while stack:
            n, path = stack.pop()
            nx = succ.get(n, [])
            if not nx:
                total[0] += 1
                emit(path)
                continue
            for b, _ in nx:
                stack.append((b, path + [b]))
    if len(scen) > budget:
        rng.shuffle(scen)
        truncated = True
        scen = scen[:budget]
    else:
        truncated = False
    return scen, total[0], truncated, len(nodes)


def validate(rep, kind, tracefile, tag, verbose=False):
    n = sum(1 for _ in open(tracefile))
    if n == 0:
        return set(), 0, None
    name = "gen_Trace_Integrate_%s" % tag
    p = os.path.join(common.SPEC, name + ".cfg")
    with open(p, "w") as fh:
        fh.write("SPECIFICATION TraceSpec\nCONSTANTS\n  Kind = \"%s\"\nCONSTRAINT Report\n" % kind)
        for i in INVS + ["SplitInvariant", "StepCount"]:
            fh.write("INVARIANT %s\n" % i)
        fh.write("PROPERTY TTimeMonotone\nPROPERTY TNoStepAfterExit\nCHECK_DEADLOCK FALSE\n")
    env = {"TRACE_FILE": tracefile}
    if verbose:
        env["VERBOSE"] = "1"
    try:
        res = common.run_tlc("Trace_Integrate", name, workers=1, env=env, coverage=False, timeout=1800)
    finally:
        os.remove(p)
    acc = set(int(m) for m in re.findall(r'<<"ACC", (\d+)>>', res.out))
    return acc, n, res


def explain_reject(tracefile, kind, tid, sc):
    """Re-run one rejected trace verbosely: longest matched prefix and the first unmatched event."""
    line = open(tracefile).read().splitlines()[tid - 1]
    f = os.path.join(sc, "one.ndjson")
    open(f, "w").write(line + "\n")
    acc, n, res = validate(None, kind, f, "one", verbose=True)
    at = [int(m) for m in re.findall(r'<<"AT", 1, (\d+)>>', res.out)]
    k = max(at) if at else 1
    tr = json.loads(line)
    return k, tr, res


def check_traces(rep, kind, tracefile, sc, expect_reject=False):
    acc, n, res = validate(rep, kind, tracefile, kind)
    if n == 0:
        return acc, n
    if res.violation:
        # an invariant / action property failed in some state of some recorded trace
        m = re.search(r"/\\ tid = (\d+)", "\n".join(res.trace[-1:]))
        tid = int(m.group(1)) if m else 0
        tr = json.loads(open(tracefile).read().splitlines()[tid - 1]) if tid else {}
        ml = re.search(r"/\\ l = (\d+)", "\n".join(res.trace[-1:]))
        ll = int(ml.group(1)) if ml else 0
        if not expect_reject:
            rep.violation("trace:%s:%s:%s" % (kind, tr.get("cfg"), res.violation),
                          "contract clause %s violated on a recorded integrate() trace (config %s, after event #%d %s; calls %s)"
                          % (res.violation, tr.get("cfg"), ll - 1, json.dumps(tr.get("events", [{}])[ll - 2] if ll >= 2 else {})[:300], tr.get("runs")),
                          {"clause": res.violation, "cfg": tr.get("cfg"), "runs": tr.get("runs"), "opts": tr.get("opts"),
                           "events": tr.get("events", [])[:ll], "tlc_state": res.trace[-1:]})
        return acc, n
    if not res.ok:
        raise MachineryError("trace validation did not complete: %s" % res.out[-2000:])
    if not expect_reject:
        for tid in range(1, n + 1):
            if tid not in acc:
                k, tr, _ = explain_reject(tracefile, kind, tid, sc)
                e = tr["events"][k - 1] if k - 1 < len(tr["events"]) else None
                rep.violation("trace:%s:%s:%s" % (kind, tr.get("cfg"), e["e"] if e else "?"),
                              "recorded integrate() trace is not a behaviour of Integrate: config %s, first unmatched event #%d %s (calls %s)"
                              % (tr.get("cfg"), k, json.dumps(e)[:400], tr.get("runs")),
                              {"cfg": tr.get("cfg"), "runs": tr.get("runs"), "opts": tr.get("opts"), "unmatched_event": e,
                               "prefix": tr["events"][max(0, k - 6):k]})
                if len(rep.violations) >= 5:
                    break
    rep.add(states=res.distinct, transitions=res.states)
    return acc, n


def self_test(rep, tracefile, kind, sc):
    lines = open(tracefile).read().splitlines()
    good = None
    for ln in lines:
        tr = json.loads(ln)
        if any(e["e"] == "step" for e in tr["events"]) and sum(1 for e in tr["events"] if e["e"] == "begin") >= 2:
            good = tr
            break
    if good is None:
        raise MachineryError("self-test: no suitable trace")
    bad = []
    # 1 drop one step event; 2 corrupt status_out of a check; 3 corrupt final dt; 4 move time backwards
    b1 = json.loads(json.dumps(good))
    i = next(i for i, e in enumerate(b1["events"]) if e["e"] == "step")
    del b1["events"][i]
    bad.append(b1)
    b2 = json.loads(json.dumps(good))
    i = next(i for i, e in enumerate(b2["events"]) if e["e"] == "check" and e["sout"] == -1)
    b2["events"][i]["sout"] = 0
    bad.append(b2)
    b3 = json.loads(json.dumps(good))
    i = next(i for i, e in enumerate(b3["events"]) if e["e"] == "end")
    b3["events"][i]["dt"] += 1
    bad.append(b3)
    b4 = json.loads(json.dumps(good))
    i = next(i for i, e in enumerate(b4["events"]) if e["e"] == "end")
    b4["events"][i]["nexp"] = 99
    bad.append(b4)
    f = os.path.join(sc, "selftest.ndjson")
    with open(f, "w") as fh:
        for b in bad:
            fh.write(json.dumps(b) + "\n")
        fh.write(json.dumps(good) + "\n")
    ok = 0
    for k, b in enumerate(bad):
        g = os.path.join(sc, "st1.ndjson")
        open(g, "w").write(json.dumps(b) + "\n")
        acc, n, res = validate(None, kind, g, "st")
        if 1 in acc and not res.violation:
            raise MachineryError("binding self-test failed: corrupted trace #%d accepted" % (k + 1))
        ok += 1
    g = os.path.join(sc, "st1.ndjson")
    open(g, "w").write(json.dumps(good) + "\n")
    acc, n, res = validate(None, kind, g, "st")
    if 1 not in acc:
        raise MachineryError("binding self-test: the uncorrupted trace was rejected")
    rep.cov["binding_self_test"] = "%d corrupted traces rejected (dropped step, wrong status, wrong final dt, wrong step count), original accepted" % ok


def run(tier, rep):
    common.build()
    sc = common.scratch("c08")
    quick = tier == "quick"
    rng = random.Random(common.seed())
    safety = INVS + ["StepCountImplied", "StepCountExact"]
    props = ["MTimeMonotone", "MNoStepAfterExit"]
    # ---- E1
    if quick:
        model(rep, "gen_fixed", cfg_text("fixed", "{9, 10}", "{1, 2, 3, 5}", "{6, 9, 10, 11, 13, 16}", 2, 1, "{1}", 0, safety, props + ["Terminates"], True))
        model(rep, "gen_adaptive", cfg_text("adaptive", "{10}", "{1, 3}", "{7, 10, 12, 14}", 1, 1, "{1, 2, 4}", 1, INVS, props + ["Terminates"], True))
    else:
        model(rep, "gen_fixed", cfg_text("fixed", "{8, 10, 11}", "{1, 2, 3, 5, 7}", "{4, 7, 8, 10, 11, 12, 14, 15, 19}", 2, 1, "{1}", 0, safety, props + ["Terminates"], True), timeout=3000)
        model(rep, "gen_adaptive", cfg_text("adaptive", "{10}", "{1, 3}", "{7, 10, 12, 14}", 2, 1, "{1, 2, 4}", 1, INVS, props, False), timeout=3000)
        model(rep, "gen_adaptive_live", cfg_text("adaptive", "{10, 11}", "{1, 3, 4}", "{6, 9, 10, 11, 13, 15}", 1, 1, "{1, 2, 4}", 2, [], ["Terminates"], True), timeout=3000)
    if rep.violations:
        return
    # ---- E2
    dot = os.path.join(sc, "integrate.dot")
    if quick:
        txt = cfg_text("fixed", "{10}", "{1, 2, 3}", "{7, 10, 11, 14}", 2, 1, "{1}", 0, [], [], False)
    else:
        txt = cfg_text("fixed", "{9, 10}", "{1, 2, 3, 5}", "{6, 9, 10, 11, 13, 16}", 2, 1, "{1}", 0, [], [], False)
    res = model(rep, "gen_replay", txt, dump=dot)
    scen, npaths, truncated, nnodes = paths_from_dot(dot, 2500 if quick else 60000, rng)
    os.remove(dot)
    sf = os.path.join(sc, "scen.json")
    json.dump(scen, open(sf, "w"))
    out = os.path.join(sc, "replay.json")
    env = {common.GUARD: "1", "REBOUND_VERIF_TRACE": os.path.join(sc, "hook_replay.txt")}
    r = common.run_worker(os.path.join(HERE, "w_c08.py"), ["replay", sf, out], env=env, timeout=3000)
    if r.returncode != 0:
        if r.returncode < 0:
            rep.violation("crash:replay", "real code crashed (signal %d) replaying Integrate paths" % -r.returncode, {"stderr": r.stderr[-2000:]})
        else:
            raise MachineryError("replay worker failed: %s" % r.stderr[-3000:])
    else:
        o = json.load(open(out))
        rep.add(traces_validated_against_impl=o["replayed"], evaluations=o["calls"])
        rep.cov["spec_to_code"] = {"model_paths": npaths, "paths_replayed": o["replayed"], "integrate_calls": o["calls"],
                                   "truncated": truncated, "graph_nodes": nnodes}
        for s in o["samples"][:2]:
            rep.sample({"kind": "spec->code path", **s})
        for v in o["violations"][:10]:
            last = v["history"][-1]
            rep.violation("replay:%s:exact%d:ev%d" % (v["cfg"], last["exact"], last["ev"]),
                          "integrate() result differs from the Integrate model: %s t0=%s dt0=%s calls=%s got=%s want=%s"
                          % (v["cfg"], v["t0"], v["dt0"], json.dumps(v["history"]), v["got"], v["want"]), v)
        if o["replayed"] < 50:
            raise MachineryError("replay covered only %d paths" % o["replayed"])
    # ---- E3
    td = os.path.join(sc, "traces")
    os.makedirs(td, exist_ok=True)
    env = {common.GUARD: "1", "REBOUND_VERIF_TRACE": os.path.join(sc, "hook_trace.txt")}
    variant = "o3"
    if "avx512f" in open("/proc/cpuinfo").read():
        common.build("avx512")            # the only build on which WHFast512 exists
        variant = "avx512"
    r = common.run_worker(os.path.join(HERE, "w_c08.py"), ["trace", td, str(common.seed()), tier], env=env, variant=variant, timeout=3000)
    if r.returncode != 0:
        if r.returncode < 0:
            rep.violation("crash:trace", "real code crashed (signal %d) in an integrate() scenario" % -r.returncode, {"stderr": r.stderr[-2000:]})
            return
        raise MachineryError("trace worker failed: %s" % r.stderr[-3000:])
    # the IAS15 step-size controller: model, decision table, recorded attempts
    stepcontrol.run(rep, tier, sc)
    # the Bulirsch-Stoer order / step-size controller: model, negative models, recorded calls (BS and the BS part of TRACE)
    bscontrol.run(rep, tier, sc)
    meta = json.load(open(os.path.join(td, "meta.json")))
    if not os.path.getsize(os.path.join(sc, "hook_trace.txt")):
        raise MachineryError("no hook output (hook layer not compiled in?)")
    for nt in meta["notes"]:
        rep.violation("driver:%s:%s" % (nt["cfg"], re.sub(r"[0-9.e+-]+", "#", nt["note"])[:60]),
                      "integrate() driver observation: %s (config %s, calls %s)" % (nt["note"], nt["cfg"], nt["runs"]), nt)
    tot = 0
    for kind in ("fixed", "adaptive"):
        f = os.path.join(td, kind + ".ndjson")
        acc, n = check_traces(rep, kind, f, sc)
        tot += n
        rep.cov.setdefault("trace_validation", {})[kind] = {"traces": n, "accepted": len(acc)}
        if n:
            tr = json.loads(open(f).readline())
            rep.sample({"kind": "code->spec trace", "cfg": tr["cfg"], "calls": tr["runs"][:200], "first_events_raw": tr["raw_head"][:4]})
    rep.add(traces_validated_against_impl=tot, evaluations=tot)
    rep.cov["configs"] = meta["configs"]
    rep.cov["avx512"] = meta["avx512"]
    if not rep.violations:
        self_test(rep, os.path.join(td, "fixed.ndjson"), "fixed", sc)
    rep.add(distinct_nontrivial=tot + rep.cov.get("spec_to_code", {}).get("paths_replayed", 0),
            rule="E2: root-to-leaf paths of the dumped Integrate model (distinct (t0,dt,targets,exact,event) tuples), "
                 "E3: one trace per (integrator configuration, scenario); a trace is non-trivial when it contains at least one step",
            exhaustive=not truncated)
    rep.assumptions += ["heartbeat events in traces are written by the harness from its own evaluation of the exit condition on the same state",
                        "ranks preserve order/equality of binary64 values; t+dt, tmax-t, -dt and the 1e-12 test are evaluated by the harness in binary64",
                        "split-invariance digests only for default safe_mode, one direction, no exact finishing, no exit event"]
    shutil.rmtree(sc, ignore_errors=True)


def replay(path):
    d = json.load(open(path))
    print(json.dumps(d, indent=1)[:4000])
    print("re-run: ./check C08 --tier quick (violations are deterministic for a given VERIF_SEED)")
    return 0
