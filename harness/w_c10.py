"""C10 worker.
 usage: w_c10.py <janus_rows.txt> <out.json> <seed> <tier>
"""
import ctypes
import json
import math
import random
import struct
import sys
import warnings

import rebound

warnings.simplefilter("ignore")


def A(t, x):
    if t == 1:
        return -(x // 4)
    if t == 2:
        return -(((x // 64) * (x // 64)) // 7) + 11      # TLA+: \div binds tighter than unary minus
    if t == 3:
        return 40 - x // 3 if x % 3 == 0 else -(x // 5) - 5
    return 0


def bits(sim):
    return b"".join(struct.pack("6d", p.x, p.y, p.z, p.vx, p.vy, p.vz) for p in sim.particles)


def order2_replay(rows, res):
    """TLC's integer model (order 2, dt = 1 tick, scales 1) stepped through the real JANUS code with the same force table."""
    chains = {}
    for r in rows:
        chains.setdefault((r[0], r[1], r[2]), []).append(r)
    for (x0, v0, tab), sts in sorted(chains.items()):
        sim = rebound.Simulation()
        sim.integrator = "janus"
        sim.ri_janus.order = 2
        sim.ri_janus.scale_pos = 1.0
        sim.ri_janus.scale_vel = 1.0
        sim.gravity = "none"
        sim.dt = 1.0
        sim.add(m=0.0, x=float(x0), vx=float(v0))

        def force(sp, tab=tab):
            s = sp.contents
            s.particles[0].ax = float(A(tab, int(round(s.particles[0].x))))
        sim.additional_forces = force
        want = {(ph, k): (x, v) for (_, _, _, ph, k, x, v) in sts}
        nmax = max(k for (ph, k) in want)
        res["order2_chains"] += 1
        ok = True
        for k in range(1, nmax + 1):
            sim.step()
            got = (int(sim.particles[0].x), int(sim.particles[0].vx))
            if ("fwd", k) in want and got != want[("fwd", k)]:
                res["violations"].append({"kind": "order2-replay", "x0": x0, "v0": v0, "table": tab, "after": "forward step %d" % k, "got": got, "want": want[("fwd", k)]})
                ok = False
                break
        if not ok:
            continue
        sim.dt = -1.0
        for k in range(nmax - 1, -1, -1):
            sim.step()
            got = (int(sim.particles[0].x), int(sim.particles[0].vx))
            if nmax == max(kk for (ph, kk) in want if ph == "fwd") and ("bwd", k) in want and k < nmax:
                # the model turns around at every k; compare with the chain that turned at nmax only at k = 0
                pass
            if k == 0 and got != (x0, v0):
                res["violations"].append({"kind": "order2-roundtrip", "x0": x0, "v0": v0, "table": tab, "got": got, "want": (x0, v0)})
        res["order2_steps"] += 2 * nmax


def janus_roundtrips(res, rng, tier):
    n_cfg = 0
    for order in (2, 4, 6, 8, 10):
        for sp_e, sv_e in ((-40, -40), (-30, -36), (-44, -33), (-20, -20), (-52, -50)):
            for nsteps in ((1, 9) if tier == "quick" else (1, 9, 60)):
                sp, sv = 2.0 ** sp_e, 2.0 ** sv_e
                sim = rebound.Simulation()
                sim.integrator = "janus"
                sim.ri_janus.order = order
                sim.ri_janus.scale_pos = sp
                sim.ri_janus.scale_vel = sv
                sim.dt = 0.01 * (1 + order / 10.0)
                N = rng.choice([2, 3, 4])
                # an inclined few-body system snapped onto the integer grid (so that the initial state is representable)
                tmp = rebound.Simulation()
                tmp.add(m=1.0)
                for i in range(1, N):
                    tmp.add(m=10 ** rng.uniform(-6, -3), a=1.0 + 0.6 * i, e=rng.uniform(0, 0.3), inc=rng.uniform(0.05, 0.6), Omega=rng.uniform(0, 6), omega=rng.uniform(0, 6), f=rng.uniform(0, 6))
                tmp.move_to_com()
                for p in tmp.particles:
                    sim.add(m=p.m, x=math.trunc(p.x / sp) * sp, y=math.trunc(p.y / sp) * sp, z=math.trunc(p.z / sp) * sp,
                            vx=math.trunc(p.vx / sv) * sv, vy=math.trunc(p.vy / sv) * sv, vz=math.trunc(p.vz / sv) * sv)
                pre = None
                if n_cfg % 3 == 2:
                    # the same simulation object was first advanced with another integrator (which leaves its own settings behind),
                    # then snapped back onto the grid and handed to JANUS
                    pre = ["whfast", "eos", "saba", "mercurius"][(n_cfg // 3) % 4]
                    sim.integrator = pre
                    if pre == "whfast":
                        sim.ri_whfast.coordinates = ["jacobi", "democraticheliocentric", "whds"][(n_cfg // 12) % 3]
                    sim.steps(3)
                    sim.synchronize()
                    for p in sim.particles:
                        p.x, p.y, p.z = (math.trunc(c / sp) * sp for c in (p.x, p.y, p.z))
                        p.vx, p.vy, p.vz = (math.trunc(c / sv) * sv for c in (p.vx, p.vy, p.vz))
                    sim.integrator = "janus"
                    sim.dt = abs(sim.dt)
                b0 = bits(sim)
                sim.steps(nsteps)
                moved = bits(sim) != b0
                sim.dt = -sim.dt
                sim.steps(nsteps)
                n_cfg += 1
                if bits(sim) != b0 or not moved:
                    a = struct.unpack("%dd" % (6 * sim.N), b0)
                    b = struct.unpack("%dd" % (6 * sim.N), bits(sim))
                    comp = [i for i in range(len(a)) if a[i] != b[i]]
                    res["violations"].append({"kind": "janus-roundtrip", "order": order, "scale_pos": "2^%d" % sp_e, "scale_vel": "2^%d" % sv_e, "N": N, "steps": nsteps, "integrator_used_before": pre,
                                              "moved": moved, "differing_components": [("xyzuvw"[c % 6], c // 6) for c in comp][:6]})
    res["janus_roundtrips"] = n_cfg


def sym_roundtrips(res, rng, tier):
    """time-symmetric schemes without correctors / processors: forward n, back n returns to rounding error (A5)"""
    cfgs = [("leapfrog", None), ("sei", None), ("sei", (1.0, 1.0)), ("sei", (1.0, 1.7)), ("sei", (0.5, 0.6)), ("sei", (2.0, 0.9))]
    for co in ("jacobi", "democraticheliocentric", "whds", "barycentric"):
        cfgs.append(("whfast", co))
    for t in ("1", "2", "3", "4", "10,4", "8,6,4", "10,6,4", "h8,4,4", "h8,6,4", "h10,6,4"):
        cfgs.append(("saba", t))
    for t in ("lf", "lf4", "lf6", "lf8", "lf4_2", "lf8_6_4"):
        cfgs.append(("eos", t))
    worst = {}
    for name, opt in cfgs:
        for rep in range(2 if tier == "quick" else 6):
            sim = rebound.Simulation()
            sim.add(m=1.0)
            sim.add(m=1e-3, a=1.0, e=0.1 * rng.random(), f=rng.uniform(0, 6), inc=0.1)
            sim.add(m=3e-4, a=2.2, e=0.1 * rng.random(), f=rng.uniform(0, 6))
            sim.move_to_com()
            if rep % 2:                     # every other repetition in a displaced, moving frame
                for p in sim.particles:
                    p.x += 2.0
                    p.z -= 1.0
                    p.vy += 0.3
                    p.vz += 0.1
            sim.integrator = name
            sim.dt = 0.02
            if name == "whfast":
                sim.ri_whfast.coordinates = opt
            elif name == "saba":
                sim.ri_saba.type = opt
            elif name == "eos":
                sim.ri_eos.phi0 = opt
                sim.ri_eos.phi1 = opt
            elif name == "sei":
                sim.ri_sei.OMEGA = opt[0] if opt else 1.0
                if opt:
                    sim.ri_sei.OMEGAZ = opt[1]       # vertical epicyclic frequency different from the orbital one
                for p in sim.particles:
                    p.m = 0.0 if rep % 2 == 0 else p.m * 1e-3      # without and with weak self-gravity
            extra = rep >= 2 or (tier == "quick" and rep == 1 and name in ("saba", "whfast", "eos", "leapfrog"))
            if extra:
                # a position-dependent additional force (a weak harmonic trap): every force evaluation of the scheme must include it
                def af(sp_):
                    s_ = sp_.contents
                    for q in range(s_.N):
                        pp = s_.particles[q]
                        pp.ax -= 0.05 * pp.x
                        pp.ay -= 0.03 * pp.y
                        pp.az -= 0.02 * pp.z
                sim.additional_forces = af
            s0 = [(p.x, p.y, p.z, p.vx, p.vy, p.vz) for p in sim.particles]
            n = 50
            sim.steps(n)
            sim.dt = -sim.dt
            sim.steps(n)
            err = max(abs(a - b) for p, q in zip(s0, [(p.x, p.y, p.z, p.vx, p.vy, p.vz) for p in sim.particles]) for a, b in zip(p, q))
            if extra:
                sim._additional_forces = type(sim._additional_forces)()
            key = name + (":" + str(opt) if opt else "") + (" + additional force" if extra else "")
            worst[key] = max(worst.get(key, 0.0), err)
            if not err <= 1e-10:
                res["violations"].append({"kind": "symmetric-roundtrip", "scheme": key, "steps": n, "error": err})
    # hyperbolic fly-bys through WHFast (negative steps through pericentre)
    nfly = 40 if tier == "quick" else 400
    for co in ("jacobi", "democraticheliocentric", "whds", "barycentric"):
        for k in range(nfly):
            sim = rebound.Simulation()
            sim.add(m=1.0)
            e = 1.1 + 10 ** rng.uniform(-1.5, 0.7)
            q = 10 ** rng.uniform(-1.2, 0.3)
            sim.add(m=1e-6, a=-q / (e - 1), e=e, f=-rng.uniform(0.3, 0.95) * math.acos(-1 / e), inc=rng.uniform(0, 1))
            sim.integrator = "whfast"
            sim.ri_whfast.coordinates = co
            Tper = math.sqrt(q ** 3)          # time scale of the pericentre passage
            sim.dt = Tper * 10 ** rng.uniform(-0.8, 0.3)      # (huge steps through very close pericentres are C03's subject, not this property's)
            s0 = [(p.x, p.y, p.z, p.vx, p.vy, p.vz) for p in sim.particles]
            n = 12
            sim.steps(n)
            sim.dt = -sim.dt
            sim.steps(n)
            s1 = [(p.x, p.y, p.z, p.vx, p.vy, p.vz) for p in sim.particles]
            scale = max(1.0, max(abs(c) for p in s0 for c in p))
            err = max(abs(a - b) for p, qq in zip(s0, s1) for a, b in zip(p, qq)) / scale
            worst["whfast-hyperbolic:" + co] = max(worst.get("whfast-hyperbolic:" + co, 0.0), err if err == err else float("inf"))
            if not err <= 1e-8:
                res["violations"].append({"kind": "symmetric-roundtrip", "scheme": "whfast hyperbolic fly-by, " + co, "e": e, "q": q, "dt": sim.dt, "error": err})
                break
    res["worst_roundtrip_error"] = worst


def time_dependent_roundtrips(res, rng, tier):
    """an explicitly time-dependent additional force: schemes that evaluate the force at the midpoint of the step in time
    (LEAPFROG, WHFast) retrace their steps, which they do only if the clock seen by the force is the mirrored one on the way back"""
    worst = {}
    for name, opt in (("leapfrog", None), ("whfast", "jacobi"), ("whfast", "democraticheliocentric")):
        for rep in range(2 if tier == "quick" else 6):
            sim = rebound.Simulation()
            sim.add(m=1.0)
            sim.add(m=1e-3, a=1.0, e=0.1 * rng.random(), f=rng.uniform(0, 6), inc=0.1)
            sim.add(m=3e-4, a=2.2, e=0.1 * rng.random(), f=rng.uniform(0, 6))
            sim.move_to_com()
            sim.integrator = name
            sim.dt = 0.02
            if opt:
                sim.ri_whfast.coordinates = opt
            sim.t = rng.choice([0.0, 3.7])

            def af(sp_):
                s_ = sp_.contents
                for q in range(1, s_.N):
                    pp = s_.particles[q]
                    pp.ax += 0.3 * math.sin(3.0 * s_.t + q)
                    pp.ay += 0.2 * math.cos(2.0 * s_.t)
            sim.additional_forces = af
            s0 = [(p.x, p.y, p.z, p.vx, p.vy, p.vz) for p in sim.particles]
            n = 50
            sim.steps(n)
            moved = max(abs(a - b) for p, q in zip(s0, [(p.x, p.y, p.z, p.vx, p.vy, p.vz) for p in sim.particles]) for a, b in zip(p, q))
            sim.dt = -sim.dt
            sim.steps(n)
            err = max(abs(a - b) for p, q in zip(s0, [(p.x, p.y, p.z, p.vx, p.vy, p.vz) for p in sim.particles]) for a, b in zip(p, q))
            sim._additional_forces = type(sim._additional_forces)()
            key = name + (":" + opt if opt else "") + " + time-dependent force"
            worst[key] = max(worst.get(key, 0.0), err)
            if not err <= 1e-10 or not moved > 1e-3:
                res["violations"].append({"kind": "symmetric-roundtrip", "scheme": key, "steps": n, "error": err, "moved": moved})
    res["worst_roundtrip_error"].update(worst)


def janus_removal(res, rng, tier):
    """JANUS keeps its state on an integer grid: when the particle number changes the grid copy is rebuilt from the particles, so a
    run from which a particle was removed continues bit for bit like a fresh JANUS simulation started from the same particles"""
    n = 0
    for order in (2, 4, 6, 8, 10):
        for sp_e in (-40, -30):
            for which in ("none", "last", "middle", "first-planet"):
                sp = sv = 2.0 ** sp_e
                sim = rebound.Simulation()
                sim.integrator = "janus"
                sim.ri_janus.order = order
                sim.ri_janus.scale_pos = sp
                sim.ri_janus.scale_vel = sv
                sim.dt = 0.01
                sim.add(m=1.0)
                for i in range(1, 5):
                    sim.add(m=10 ** rng.uniform(-6, -3), a=1.0 + 0.6 * i, e=rng.uniform(0, 0.2), inc=rng.uniform(0.0, 0.3), f=rng.uniform(0, 6))
                sim.move_to_com()
                sim.steps(5)
                if which != "none":
                    sim.remove({"last": sim.N - 1, "middle": 2, "first-planet": 1}[which])
                fresh = rebound.Simulation()
                fresh.integrator = "janus"
                fresh.ri_janus.order = order
                fresh.ri_janus.scale_pos = sp
                fresh.ri_janus.scale_vel = sv
                fresh.dt = sim.dt
                fresh.t = sim.t
                for p in sim.particles:
                    fresh.add(m=p.m, x=p.x, y=p.y, z=p.z, vx=p.vx, vy=p.vy, vz=p.vz)
                sim.steps(5)
                fresh.steps(5)
                n += 1
                if bits(sim) != bits(fresh):
                    a = struct.unpack("%dd" % (6 * sim.N), bits(sim))
                    b = struct.unpack("%dd" % (6 * fresh.N), bits(fresh))
                    res["violations"].append({"kind": "janus-removal", "order": order, "scale": "2^%d" % sp_e, "removed": which,
                                              "max_difference": max(abs(x - y) for x, y in zip(a, b))})
    res["janus_removals"] = n


def main():
    rows_file, out, seed, tier = sys.argv[1], sys.argv[2], int(sys.argv[3]), sys.argv[4]
    rng = random.Random(seed)
    res = {"order2_chains": 0, "order2_steps": 0, "violations": [], "janus_roundtrips": 0}
    rows = []
    for ln in open(rows_file):
        f = ln.strip()[2:-2].split(",")
        rows.append((int(f[1]), int(f[2]), int(f[3]), f[4].strip('"'), int(f[5]), int(f[6]), int(f[7])))
    order2_replay(rows, res)
    janus_roundtrips(res, rng, tier)
    sym_roundtrips(res, rng, tier)
    time_dependent_roundtrips(res, rng, tier)
    janus_removal(res, rng, tier)
    json.dump(res, open(out, "w"))


if __name__ == "__main__":
    main()
