"""TRACE step machine (spec/TraceStep.tla): model checking, negative model, hook-trace validation.  Used by p_c01."""
import glob
import json
import os
import re

import common
from common import MachineryError

HERE = os.path.dirname(os.path.abspath(__file__))
INVS = ["Covered", "AtMostOneRedo", "Monotone", "Balanced", "RejectIffNew"]


def _cfg(name, n, na, mode, neg=False, trace=False):
    with open(os.path.join(common.SPEC, name + ".cfg"), "w") as fh:
        fh.write("SPECIFICATION %s\nCONSTANTS\n N = %d\n NA = %d\n PeriMode = \"%s\"\n MapFromPost = %s\n" % ("TraceSpec" if trace else "Spec", n, na, mode, "TRUE" if neg else "FALSE"))
        # traces: Covered is collected per trace (UNCOV lines) instead of stopping the run at the first one
        fh.write("".join("INVARIANT %s\n" % i for i in ([i for i in INVS if i != "Covered"] + ["RestoreExact", "BsOverEncounterList"] if trace else INVS)))
        if trace:
            fh.write("CONSTRAINT Report\n")
        fh.write("CHECK_DEADLOCK FALSE\n")


def models(rep, tier):
    shapes = [(4, 3), (4, 4), (3, 2)] if tier == "quick" else [(4, 2), (4, 3), (4, 4), (3, 2), (3, 3), (5, 2)]
    for n, na in shapes:
        for mode in ("PARTIAL_BS", "FULL_BS", "FULL_IAS15"):
            name = "gen_TraceStep_%d_%d_%s" % (n, na, mode)
            _cfg(name, n, na, mode)
            try:
                res = common.run_tlc("TraceStep", name, coverage=False, timeout=3000)
            finally:
                os.remove(os.path.join(common.SPEC, name + ".cfg"))
            if res.violation:
                rep.violation("model:TraceStep:%s" % res.violation, "TraceStep (N=%d, NA=%d, %s) violates %s" % (n, na, mode, res.violation), {"tlc": res.trace[-6:]})
                return False
            if not res.ok:
                raise MachineryError("TraceStep did not complete: %s" % res.out[-1500:])
            rep.add(states=res.distinct, transitions=res.states)
    # the pinned tree's post-check (encounter list rebuilt from the post-step answers only) must violate Covered
    name = "gen_TraceStep_neg"
    _cfg(name, 4, 3, "PARTIAL_BS", neg=True)
    try:
        res = common.run_tlc("TraceStep", name, coverage=False, timeout=3000)
    finally:
        os.remove(os.path.join(common.SPEC, name + ".cfg"))
    if res.violation != "Covered":
        raise MachineryError("negative TraceStep model does not violate Covered (%r)" % res.violation)
    return True


def validate(path, n, na, mode, tag, verbose=False):
    name = "gen_Trace_TraceStep_%s" % tag
    _cfg(name, n, na, mode, neg=True, trace=True)       # the transition the code takes; Covered is the property, reported per trace
    env = {"TRACE_FILE": path}
    if verbose:
        env["VERBOSE"] = "1"
    try:
        res = common.run_tlc("Trace_TraceStep", name, workers=1, env=env, coverage=False, timeout=3000)
    finally:
        os.remove(os.path.join(common.SPEC, name + ".cfg"))
    res.uncov = set(int(m) for m in re.findall(r'<<"UNCOV", (\d+)>>', res.out))
    return set(int(m) for m in re.findall(r'<<"ACC", (\d+)>>', res.out)), res


def check_file(rep, path, sc):
    m = re.match(r"ts_(\w+)_(\d+)_(\d+)\.ndjson", os.path.basename(path))
    mode, n, na = m.group(1), int(m.group(2)), int(m.group(3))
    lines = open(path).read().splitlines()
    if not lines:
        return 0
    acc, res = validate(path, n, na, mode, "b")
    if res.violation:
        st = "\n".join(res.trace[-1:])
        mt = re.search(r"/\\ tid = (\d+)", st)
        tid = int(mt.group(1)) if mt else 0
        tr = json.loads(lines[tid - 1]) if tid else {}
        rep.violation("tracestep:%s:%s:%s" % (res.violation, mode, tr.get("src")),
                      "clause %s of TraceStep violated in a recorded TRACE step (%s, N=%d, N_active=%d, %s switching functions): before the step S true for %s, after it for %s, pericentre switch %s / %s"
                      % (res.violation, mode, n, na, tr.get("src"), tr.get("PreP"), tr.get("PostP"), tr.get("PreC"), tr.get("PostC")),
                      {"clause": res.violation, "trace": tr, "N": n, "NA": na, "peri_mode": mode})
        return len(lines)
    if not res.ok:
        raise MachineryError("TraceStep trace validation did not complete: %s" % res.out[-2000:])
    seen = set()
    for tid in sorted(res.uncov):
        tr = json.loads(lines[tid - 1])
        pre, post = set(map(tuple, tr["PreP"])), set(map(tuple, tr["PostP"]))
        words = [e for e in tr["events"] if e["e"] == "word"]
        posts = [e for e in tr["events"] if e["e"] == "post"]
        lost = []
        if len(words) == 2 and posts and words[1]["w"] != ["Full"]:
            E2 = set(words[1]["bs"]) or {0}
            lost = sorted(p for p in map(tuple, posts[0]["K"]) if not (p[0] in E2 and p[1] in E2))
        # the recorded shape of the known finding: the redo of a rejected step, every lost pair was flagged before the step only
        if lost and all(p in pre and p not in post for p in lost) and post - pre:
            key = "tracestep:redo-drops-pair-flagged-only-before-step"
        else:
            key = "tracestep:uncovered:%s:%s" % (mode, tr.get("src"))
        if key in seen:
            continue
        seen.add(key)
        rep.violation(key, "TRACE step (%s, N=%d, N_active=%d, %s switching functions): a flagged pair is in neither part of the splitting -- before the step S true for %s, after it for %s; "
                      "the step is redone with flags %s over the encounter list %s: the mutual force of %s is skipped by the interaction step and not integrated by the Bulirsch-Stoer step"
                      % (mode, n, na, tr.get("src"), tr["PreP"], tr["PostP"], posts[0]["K"] if posts else None, words[1]["bs"] if len(words) == 2 else None, lost),
                      {"clause": "Covered", "trace": tr, "N": n, "NA": na, "peri_mode": mode})
    bad = [t for t in range(1, len(lines) + 1) if t not in acc]
    for tid in bad[:3]:
        f = os.path.join(sc, "ts_one.ndjson")
        open(f, "w").write(lines[tid - 1] + "\n")
        a1, r1 = validate(f, n, na, mode, "one", verbose=True)
        at = [int(x) for x in re.findall(r'<<"AT", 1, (\d+)>>', r1.out)]
        k = max(at) if at else 1
        tr = json.loads(lines[tid - 1])
        e = tr["events"][k - 1] if k - 1 < len(tr["events"]) else None
        rep.violation("tracestep:deviates:%s:%s:%s" % (mode, tr.get("src"), (e or {}).get("e")),
                      "TRACE step deviates from TraceStep (%s, N=%d, N_active=%d, %s switching functions): before the step S true for %s, after it for %s, pericentre switch %s / %s; first unexplained event #%d %s"
                      % (mode, n, na, tr.get("src"), tr.get("PreP"), tr.get("PostP"), tr.get("PreC"), tr.get("PostC"), k, json.dumps(e)[:300]),
                      {"trace": tr, "event": k, "N": n, "NA": na, "peri_mode": mode})
    return len(lines)


def run(rep, tier, sc):
    if not models(rep, tier):
        return
    out = os.path.join(sc, "ts")
    os.makedirs(out, exist_ok=True)
    env = {common.GUARD: "1", "REBOUND_VERIF_TRACE": os.path.join(sc, "ts_hook.txt")}
    jobs = [["scripted", out, str(common.seed()), "1500" if tier == "quick" else "all", "4", "3"]]
    if tier != "quick":
        jobs += [["scripted", out, str(common.seed()), "3000", "4", "4"], ["scripted", out, str(common.seed()), "all", "4", "2"], ["scripted", out, str(common.seed()), "3000", "5", "3"]]
    jobs.append(["real", out, str(common.seed()), "12" if tier == "quick" else "90"])
    for j in jobs:
        r = common.run_worker(os.path.join(HERE, "w_tracestep.py"), j, env=env, timeout=3000)
        if r.returncode != 0:
            if r.returncode < 0:
                rep.violation("crash:tracestep", "real code crashed (signal %d) in a TRACE step" % -r.returncode, {"stderr": r.stderr[-1500:], "job": j})
                return
            raise MachineryError("w_tracestep failed: %s" % r.stderr[-2500:])
    total = 0
    nreal = 0
    for f in sorted(glob.glob(os.path.join(out, "ts_*.ndjson"))):
        total += check_file(rep, f, sc)
        nreal += sum(1 for ln in open(f) if '"src": "real"' in ln)
    if total < 1000:
        raise MachineryError("only %d TRACE steps recorded" % total)
    rep.add(traces_validated_against_impl=total, evaluations=total)
    rep.cov["trace_steps_validated"] = total
    rep.cov["trace_steps_real_switching"] = nreal
