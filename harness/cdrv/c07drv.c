// C07 driver: reference archives, byte-level crash images, reader + restart observations.
//   c07drv gen   <dir> <integ> <K> <steps> <addAt>
//   c07drv sweep <dir> <integ> <K> <steps> <addAt> <k> <from> <to> <stride> [<k2> <c2>]
// gen   writes <dir>/ref_<b>.bin = file image after snapshot b was saved, prints digests.
// sweep builds, for each byte count c in [from,to) step stride, the image "save k died after c bytes
//       of its write reached the file", and in a forked child: opens it (observation 1), restarts
//       from the last exposed snapshot and re-runs to the end (observation 2).  One JSON line each.
#define _GNU_SOURCE
#include <stdio.h>
#include <stdlib.h>
#include <string.h>
#include <stdint.h>
#include <unistd.h>
#include <sys/wait.h>
#include <sys/stat.h>
#include "rebound.h"

// ---- write-order recorder -------------------------------------------------------------------------------------
// The library writes an archive through stdio.  This executable exports its own fopen / fwrite / fclose (linked with
// -rdynamic, so the calls made inside librebound resolve here); for the stream opened on the reference archive the
// (offset, length) of every fwrite is recorded in call order.  Crash images are built along that order: "the process
// died after c bytes had been written" means the first c bytes of that sequence, wherever in the file they went.
#include <dlfcn.h>
static FILE* rec_stream = NULL; static char rec_name[1024] = ""; static long rec_plan[4096][2]; static int rec_n = 0;
FILE* fopen(const char* fn, const char* mode){
    static FILE* (*real)(const char*, const char*) = NULL; if (!real) real = dlsym(RTLD_NEXT,"fopen");
    FILE* f = real(fn,mode);
    if (f && rec_name[0] && strcmp(fn,rec_name)==0 && (mode[0]=='w' || strchr(mode,'+'))){ rec_stream = f; }
    return f;
}
size_t fwrite(const void* p, size_t sz, size_t n, FILE* f){
    static size_t (*real)(const void*, size_t, size_t, FILE*) = NULL; if (!real) real = dlsym(RTLD_NEXT,"fwrite");
    if (f==rec_stream && f && sz*n>0 && rec_n<4096){ rec_plan[rec_n][0] = ftell(f); rec_plan[rec_n][1] = (long)(sz*n); rec_n++; }
    return real(p,sz,n,f);
}
int fclose(FILE* f){
    static int (*real)(FILE*) = NULL; if (!real) real = dlsym(RTLD_NEXT,"fclose");
    if (f==rec_stream) rec_stream = NULL;
    return real(f);
}

static uint64_t fnv(uint64_t h, const void* p, size_t n){
    const unsigned char* c = p;
    for (size_t i=0;i<n;i++){ h ^= c[i]; h *= 1099511628211ULL; }
    return h;
}
static uint64_t digest(struct reb_simulation* r){
    uint64_t h = 1469598103934665603ULL;
    h = fnv(h,&r->t,sizeof(double)); h = fnv(h,&r->N,sizeof(unsigned int)); h = fnv(h,&r->steps_done,sizeof(r->steps_done));
    h = fnv(h,&r->dt,sizeof(double));
    for (unsigned int i=0;i<r->N;i++){
        h = fnv(h,&r->particles[i].x,12*sizeof(double));   // x..last_collision
        h = fnv(h,&r->particles[i].hash,sizeof(uint32_t));
    }
    return h;
}

static struct reb_simulation* make(int integ){
    struct reb_simulation* r = reb_simulation_create();
    reb_simulation_add_fmt(r,"m",1.0);
    reb_simulation_add_fmt(r,"m a e f",1e-3,1.0,0.05,0.3);
    reb_simulation_add_fmt(r,"m a e f inc",3e-4,1.9,0.1,2.1,0.05);
    reb_simulation_move_to_com(r);
    r->integrator = integ;
    r->dt = 0.03;
    if (integ==REB_INTEGRATOR_JANUS){ r->ri_janus.scale_pos = 1e-16; r->ri_janus.scale_vel = 1e-16; }
    if (integ==REB_INTEGRATOR_MERCURIUS || integ==REB_INTEGRATOR_TRACE){ r->dt = 0.02; }
    return r;
}
// operations that precede snapshot b (b>=1)
static void ops(struct reb_simulation* r, int b, int steps, int addAt){
    reb_simulation_steps(r, steps);
    if (b==addAt){
        reb_simulation_add_fmt(r,"m a e f",1e-5,3.1,0.02,1.0);
    }
    if (b==addAt+1 && r->N>3){
        reb_simulation_remove_particle(r, r->N-1, 1);
    }
}

static unsigned char* slurp(const char* fn, long* n){
    FILE* f = fopen(fn,"rb"); if(!f){*n=0; return NULL;}
    fseek(f,0,SEEK_END); *n = ftell(f); fseek(f,0,SEEK_SET);
    unsigned char* b = malloc(*n+1); if (*n) fread(b,1,*n,f); fclose(f); return b;
}
static void spit(const char* fn, const unsigned char* b, long n){
    FILE* f = fopen(fn,"wb"); if (n) fwrite(b,1,n,f); fclose(f);
}

// structural parse: prints [[nD,haveE,haveT,idx,prev,next,blobbytes],...] and trailing byte count
static void parse(FILE* o, const unsigned char* b, long n, const char* tailkey){
    long pos = 0; int first = 1;
    fprintf(o,"[");
    int sep = 0;
    while (pos<n){
        long start = pos; int nD=0, haveE=0, haveT=0; int32_t tr[3]={0,0,0}; int hdr=1;
        if (first){ if (n-pos<64){ hdr=0; pos=n; } else pos+=64; }
        while (hdr){
            if (pos+16>n) break;
            uint32_t type = *(uint32_t*)(b+pos); uint64_t size = *(uint64_t*)(b+pos+8);
            if (type==9999){ pos+=16; haveE=1; break; }
            if ((uint64_t)pos+16+size>(uint64_t)n) break;
            pos += 16+size; nD++;
        }
        long blobbytes = pos-start;
        if (haveE && pos+12<=n){ memcpy(tr,b+pos,12); haveT=1; pos+=12; }
        fprintf(o,"%s[%d,%d,%d,%d,%d,%d,%ld,%d]", sep?",":"", nD,haveE,haveT,tr[0],tr[1],tr[2],blobbytes,first&&hdr);
        sep=1; first=0;
        if (!haveE || !haveT) break;
    }
    fprintf(o,"],\"%s\":%ld", tailkey, n-pos);
}

int main(int argc, char** argv){
    if (argc<7) return 2;
    const char* dir = argv[2]; int integ = atoi(argv[3]); int K = atoi(argv[4]); int steps = atoi(argv[5]); int addAt = atoi(argv[6]);
    char fn[1024];
    if (strcmp(argv[1],"gen")==0){
        snprintf(fn,1024,"%s/ref.bin",dir); unlink(fn);
        struct reb_simulation* r = make(integ);
        printf("{\"digests\":[");
        for (int b=0;b<K;b++){
            if (b) ops(r,b,steps,addAt);
            strcpy(rec_name, fn); rec_n = 0;
            reb_simulation_save_to_file(r, fn);
            rec_name[0] = 0;
            { char pf[1024]; snprintf(pf,1024,"%s/plan_%d.txt",dir,b); FILE* po = fopen(pf,"w");
              for (int q=0;q<rec_n;q++) fprintf(po,"%ld %ld\n",rec_plan[q][0],rec_plan[q][1]); fclose(po); }
            long n; unsigned char* buf = slurp(fn,&n);
            char g[1024]; snprintf(g,1024,"%s/ref_%d.bin",dir,b); spit(g,buf,n); free(buf);
            printf("%s\"%016llx\"", b?",":"", (unsigned long long)digest(r));
        }
        printf("],\"ref\":");
        long n; unsigned char* buf = slurp(fn,&n);
        parse(stdout,buf,n,"tail");
        // index of the archive-version field among the first blob's fields
        uint32_t vt = reb_binary_field_descriptor_for_name("simulationarchive_version").type;
        long pos = 64; int idx = 0, vat = -1;
        while (pos+16<=n){ uint32_t type = *(uint32_t*)(buf+pos); uint64_t size = *(uint64_t*)(buf+pos+8);
            if (type==9999) break; idx++; if (type==vt){ vat = idx; break; } pos += 16+size; }
        printf(",\"versionAt\":%d}\n", vat);
        reb_simulation_free(r);
        return 0;
    }
    if (argc<11) return 2;
    int k = atoi(argv[7]); long from = atol(argv[8]), to = atol(argv[9]), stride = atol(argv[10]);
    int k2 = argc>12 ? atoi(argv[11]) : -1; long c2 = argc>12 ? atol(argv[12]) : 0;
    long nOld=0, nNew=0; unsigned char *old=NULL, *new_=NULL;
    if (k>0){ snprintf(fn,1024,"%s/ref_%d.bin",dir,k-1); old = slurp(fn,&nOld); }
    snprintf(fn,1024,"%s/ref_%d.bin",dir,k); new_ = slurp(fn,&nNew);
    long start = k>0 ? nOld-12 : 0;           // (sequential model: the write begins ON the previous trailer)
    long wlen = nNew-start;
    // the recorded write order of this save
    long plan[4096][2]; int np = 0;
    { char pf[1024]; snprintf(pf,1024,"%s/plan_%d.txt",dir,k); FILE* pi = fopen(pf,"r");
      if (pi){ while (np<4096 && fscanf(pi,"%ld %ld",&plan[np][0],&plan[np][1])==2) np++; fclose(pi); } }
    if (np==0){ fprintf(stderr,"no write plan for save %d\n",k); return 3; }
    { long tot = 0; for (int q=0;q<np;q++) tot += plan[q][1]; wlen = tot; }
    char img[1024]; snprintf(img,1024,"%s/img_%d.bin",dir,(int)getpid());
    for (long c=from; c<to && c<=wlen; c+=stride){
        // image: old file overlaid by the first c bytes of the recorded write sequence
        long n = nOld; { long left = c; for (int q=0;q<np && left>0;q++){ long l = plan[q][1]<left?plan[q][1]:left; if (plan[q][0]+l>n) n = plan[q][0]+l; left -= l; } }
        unsigned char* im = calloc(n+1,1);
        if (nOld) memcpy(im,old,nOld);
        { long left = c; for (int q=0;q<np && left>0;q++){ long l = plan[q][1]<left?plan[q][1]:left; memcpy(im+plan[q][0],new_+plan[q][0],l); left -= l; } }
        spit(img,im,n);
        int pfd[2]; pipe(pfd);
        fflush(stdout);
        pid_t pid = fork();
        if (pid==0){
            close(pfd[0]);
            FILE* o = fdopen(pfd[1],"w");
            fclose(stderr); stderr = fopen("/dev/null","w");
            // observation 1: open
            struct reb_simulationarchive* sa = reb_simulationarchive_create_from_file(img);
            long nb = 0; int err = 1; int past = 0;
            fprintf(o,"\"dig\":[");
            if (sa && sa->inf && sa->nblobs>0){
                nb = sa->nblobs; err = 0;
                for (long j=0;j<nb;j++){
                    struct reb_simulation* s = reb_simulation_create_from_simulationarchive(sa,j);
                    fprintf(o,"%s\"%016llx\"", j?",":"", s ? (unsigned long long)digest(s) : 0ULL);
                    if (s) reb_simulation_free(s);
                }
                // asking for the snapshot one past the last exposed one (the half-written one) must be refused
                struct reb_simulation* sp = reb_simulation_create_from_simulationarchive(sa,nb);
                if (sp){ past = 1; reb_simulation_free(sp); }
                reb_simulationarchive_free(sa);
            }
            fprintf(o,"],\"past\":%d,\"n\":%ld,\"err\":%d,", past, nb, err);
            fflush(o);
            // observation 2: restart from the last exposed snapshot and run to the end
            long rn = -1;
            if (nb>0){
                struct reb_simulation* r = reb_simulation_create_from_file(img,-1);
                if (r){
                    for (int b=nb;b<K;b++){
                        ops(r,b,steps,addAt);
                        reb_simulation_save_to_file(r,img);
                    }
                    reb_simulation_free(r);
                }
            }else{
                // nothing to restart from: start over with a fresh file
                unlink(img);
                struct reb_simulation* r = make(integ);
                for (int b=0;b<K;b++){ if (b) ops(r,b,steps,addAt); reb_simulation_save_to_file(r,img); }
                reb_simulation_free(r);
            }
            struct reb_simulationarchive* sa2 = reb_simulationarchive_create_from_file(img);
            fprintf(o,"\"rdig\":[");
            if (sa2 && sa2->inf && sa2->nblobs>0){
                rn = sa2->nblobs;
                for (long j=0;j<rn;j++){
                    struct reb_simulation* s = reb_simulation_create_from_simulationarchive(sa2,j);
                    fprintf(o,"%s\"%016llx\"", j?",":"", s ? (unsigned long long)digest(s) : 0ULL);
                    if (s) reb_simulation_free(s);
                }
            }
            fprintf(o,"],\"rn\":%ld,", rn);
            long fnb; unsigned char* fb = slurp(img,&fnb);
            fprintf(o,"\"final\":"); parse(o,fb,fnb,"ftail");
            fflush(o);
            _exit(0);
        }
        close(pfd[1]);
        char buf[65536]; long got=0, rd;
        while ((rd = read(pfd[0],buf+got,sizeof(buf)-1-got))>0) got+=rd;
        buf[got]=0; close(pfd[0]);
        int st; waitpid(pid,&st,0);
        int sig = WIFSIGNALED(st) ? WTERMSIG(st) : 0;
        printf("{\"k\":%d,\"c\":%ld,\"sig\":%d,\"image\":", k, c, sig);
        parse(stdout,im,n,"itail");
        if (sig){
            // drop a possibly incomplete child line; keep what is parseable only if complete
            printf(",\"partial\":1}\n");
        }else{
            printf(",%s}\n", buf);
        }
        free(im);
    }
    unlink(img);
    return 0;
}
