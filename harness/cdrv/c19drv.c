// C19 driver: independent simulations advanced concurrently in separate threads must produce the bits
// they produce one after another.  Built against the library (plain and ThreadSanitizer variants).
// usage: c19drv <rounds> <seed>    prints "MISMATCH kind=<k> round=<r>" lines and "DONE items=<n>"
#include <stdio.h>
#include <stdlib.h>
#include <string.h>
#include <pthread.h>
#include <stdint.h>
#include "rebound.h"

#define NK 14
static uint64_t fnv(const void* p, size_t n, uint64_t h){ const unsigned char* c = p; for (size_t i=0;i<n;i++){ h ^= c[i]; h *= 1099511628211ULL; } return h; }

static struct reb_simulation* build(int kind, int seed){
    struct reb_simulation* r = reb_simulation_create();
    reb_simulation_add_fmt(r, "m", 1.0);
    reb_simulation_add_fmt(r, "m a e f", 1e-3, 1.0, 0.05, 0.3);
    reb_simulation_add_fmt(r, "m a e inc f", 3e-4, 1.9, 0.1, 0.05, 2.1+0.01*seed);
    reb_simulation_move_to_com(r);
    r->dt = 0.01;
    switch(kind){
        case 0: r->integrator = REB_INTEGRATOR_WHFAST; break;
        case 1: r->integrator = REB_INTEGRATOR_WHFAST; r->ri_whfast.safe_mode = 0; r->ri_whfast.corrector = 11; break;
        case 2: r->integrator = REB_INTEGRATOR_IAS15; break;
        case 3: r->integrator = REB_INTEGRATOR_LEAPFROG; break;
        case 4: r->integrator = REB_INTEGRATOR_MERCURIUS; break;
        case 5: r->integrator = REB_INTEGRATOR_SABA; r->ri_saba.safe_mode = 0; break;
        case 6: r->integrator = REB_INTEGRATOR_EOS; break;
        case 7: r->integrator = REB_INTEGRATOR_JANUS; r->ri_janus.order = 2; break;
        case 8: r->integrator = REB_INTEGRATOR_JANUS; r->ri_janus.order = 6; break;
        case 9: r->integrator = REB_INTEGRATOR_JANUS; r->ri_janus.order = 10; break;
        case 10: r->integrator = REB_INTEGRATOR_BS; break;
        case 11: r->integrator = REB_INTEGRATOR_TRACE; break;
        case 12: r->integrator = REB_INTEGRATOR_SEI; r->ri_sei.OMEGA = 1.; break;
        case 13: r->integrator = REB_INTEGRATOR_WHFAST; r->ri_whfast.coordinates = REB_WHFAST_COORDINATES_DEMOCRATICHELIOCENTRIC; break;
    }
    return r;
}

static uint64_t digest(struct reb_simulation* r){
    uint64_t h = 1469598103934665603ULL;
    h = fnv(&r->t, sizeof(double), h);
    for (unsigned int i=0;i<r->N;i++){ h = fnv(&r->particles[i].x, 6*sizeof(double), h); }
    return h;
}

struct item { int kind; int seed; uint64_t out; };
static void* work(void* a){
    struct item* it = a;
    struct reb_simulation* r = build(it->kind, it->seed);
    r->exact_finish_time = it->seed%2;
    reb_simulation_integrate(r, 0.5+0.03*(it->seed%5));
    struct reb_simulation* c = reb_simulation_copy(r);
    reb_simulation_steps(c, 7);
    char* buf = NULL; size_t sz = 0;
    reb_simulation_save_to_stream(c, &buf, &sz);
    struct reb_simulationarchive* sa = NULL; (void)sa;
    uint64_t h = digest(r) ^ (digest(c)*31) ^ fnv(&sz, sizeof(sz), 7);
    free(buf);
    reb_simulation_free(c);
    reb_simulation_free(r);
    it->out = h;
    return NULL;
}

int main(int argc, char** argv){
    int rounds = argc>1?atoi(argv[1]):3; int seed = argc>2?atoi(argv[2]):0;
    int items = 0, bad = 0;
    for (int rd=0; rd<rounds; rd++){
        struct item seq[NK*2], con[NK*2];
        int n = 0;
        for (int k=0;k<NK;k++){ seq[n].kind = k; seq[n].seed = seed*100+rd*7+k; n++; }
        for (int j=0;j<NK;j++){ seq[n].kind = 7+(j%3); seq[n].seed = seed*100+rd*7+50+j; n++; }   // extra JANUS of mixed orders
        memcpy(con, seq, sizeof(seq));
        for (int i=0;i<n;i++) work(&seq[i]);
        pthread_t th[NK*2];
        for (int i=0;i<n;i++) pthread_create(&th[i], NULL, work, &con[i]);
        for (int i=0;i<n;i++) pthread_join(th[i], NULL);
        for (int i=0;i<n;i++){ items++; if (seq[i].out != con[i].out){ bad++; printf("MISMATCH kind=%d round=%d\n", seq[i].kind, rd); } }
    }
    printf("DONE items=%d mismatches=%d\n", items, bad);
    return 0;
}
