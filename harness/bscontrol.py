"""Bulirsch-Stoer order / step-size controller (spec/BSControl.tla): model checking, negative models and hook-trace validation.
Used by p_c08."""
import json
import os
import re

import common
from common import MachineryError

HERE = os.path.dirname(os.path.abspath(__file__))
NEG = {"MC_BSControl_negG": "NoStaleRead", "MC_BSControl_negC": "TargetInRange", "MC_BSControl_negF": "NoRejectAtFloor"}


def validate(path, verbose=False):
    env = {"TRACE_FILE": path}
    if verbose:
        env["VERBOSE"] = "1"
    res = common.run_tlc("Trace_BSControl", "Trace_BSControl", workers=1, env=env, coverage=False, timeout=3000)
    return set(int(m) for m in re.findall(r'<<"ACC", (\d+)>>', res.out)), res


def run(rep, tier, sc):
    res = common.run_tlc("MC_BSControl", "MC_BSControl", coverage=False, timeout=1800)
    if res.violation:
        rep.violation("model:BSControl:" + res.violation, "BSControl violates %s" % res.violation, {"tlc": res.trace[-6:]})
        return
    if not res.ok:
        raise MachineryError("BSControl did not complete: %s" % res.out[-1500:])
    rep.add(states=res.distinct, transitions=res.states)
    for cfg, inv in NEG.items():
        rn = common.run_tlc("MC_BSControl", cfg, coverage=False, timeout=1800)
        if rn.violation != inv:
            raise MachineryError("negative model %s should violate %s, got %r" % (cfg, inv, rn.violation))
    rep.cov["bs_negative_models"] = sorted(NEG)
    out = os.path.join(sc, "bscontrol.ndjson")
    env = {common.GUARD: "1", "REBOUND_VERIF_TRACE": os.path.join(sc, "bs_hook.txt")}
    r = common.run_worker(os.path.join(HERE, "w_bscontrol.py"), [out, str(common.seed()), "40" if tier == "quick" else "400"], env=env, timeout=3000)
    if r.returncode != 0:
        if r.returncode < 0:
            rep.violation("crash:bscontrol", "real code crashed (signal %d) in a Bulirsch-Stoer integration" % -r.returncode, {"stderr": r.stderr[-1500:]})
            return
        raise MachineryError("w_bscontrol failed: %s" % r.stderr[-2500:])
    lines = open(out).read().splitlines()
    calls = sum(1 for ln in lines for e in json.loads(ln)["events"] if e["ev"] == "beg")
    if calls < 300:
        raise MachineryError("only %d controller calls recorded" % calls)
    acc, res = validate(out)
    if res.violation:
        # an invariant of BSControl broken along a recorded trace
        rep.violation("bscontrol:invariant:" + res.violation, "a recorded Bulirsch-Stoer controller trace violates %s of BSControl" % res.violation, {"tlc": res.trace[-4:]})
        return
    if not res.ok:
        raise MachineryError("Trace_BSControl did not complete: %s" % res.out[-2000:])
    kinds = {}
    for ln in lines:
        for e in json.loads(ln)["events"]:
            if e["ev"] == "end":
                k = "%s k=%d %s" % ("reject" if e["rej"] else "accept", e["k"], "/".join(sorted({re.sub(r"\d+(_\d+)?$", "", s) for s in e["srcs"]})))
                kinds[k] = kinds.get(k, 0) + 1
    rep.add(traces_validated_against_impl=len(lines), evaluations=calls)
    rep.cov["bs_controller_calls"] = {"calls": calls, "by_outcome": kinds}
    shown = 0
    for tid in range(1, len(lines) + 1):
        if tid in acc:
            continue
        f = os.path.join(sc, "bs_one.ndjson")
        open(f, "w").write(lines[tid - 1] + "\n")
        a1, r1 = validate(f, verbose=True)
        at = [int(x) for x in re.findall(r'<<"AT", 1, (\d+)>>', r1.out)]
        k = max(at) if at else 1
        tr = json.loads(lines[tid - 1])
        e = tr["events"][k - 1] if k - 1 < len(tr["events"]) else None
        prev = tr["events"][max(0, k - 4):k - 1]
        rep.violation("bscontrol:%s:%s" % (tr["cfg"].get("integrator"), (e or {}).get("ev")),
                      "Bulirsch-Stoer controller deviates from BSControl (%s): event #%d %s is not the specified transition%s"
                      % (json.dumps({x: tr["cfg"][x] for x in tr["cfg"] if x != "script"}), k, json.dumps(e),
                         " (invariant %s)" % r1.violation if r1.violation else ""), {"cfg": tr["cfg"], "init": tr["init"], "event": k, "e": e, "before": prev})
        shown += 1
        if shown >= 3:
            break
