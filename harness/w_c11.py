"""C11 worker: executes the decision table of OrbitArgs through both front ends, the angle-grid read back,
and the Kepler-equation residuals.

 usage: w_c11.py <table.txt> <out.json> <seed> <stride>
"""
import ctypes
import json
import math
import os
import random
import struct
import sys
import warnings

import rebound
from rebound import clibrebound

warnings.simplefilter("ignore")
ATOMS = ["cart", "primary", "a", "P", "e", "inc", "Omega", "omega", "pomega", "f", "M", "E", "l", "theta", "T", "pal"]
VAL = {"a": 1.3, "P": 2.0, "e": 0.1, "inc": 0.2, "Omega": 0.3, "omega": 0.4, "pomega": 0.5, "f": 0.6, "M": 0.7, "E": 0.8, "l": 0.9, "theta": 1.0, "T": 0.25}

MSG = [("exactly to 1", 1), ("greater than or equal to zero", 2), ("bound orbit (a > 0)", 3), ("unbound orbit (a < 0)", 4), ("asymptotes", 5),
       ("primary has no mass", 6), ("mix pal", 7), ("cartesian coordinates and orbital elements", 8), ("need to specify simulation", 9), ("need to pass reb_simulation", 9),
       ("either a semimajor axis or orbital period to", 10), ("either semi-major axis or orbital period to", 10), ("but not both", 11),
       ("squared sum exceeds 4", 12), ("both omega and pomega", 13), ("both (omega, pomega)", 13), ("only pass one longitude", 14)]


def classify(msg):
    m = msg.lower()
    for k, c in MSG:
        if k in m:
            return c
    return -1


def bits(p):
    return struct.pack("7d", p.x, p.y, p.z, p.vx, p.vy, p.vz, p.m)


def nanp(p):
    return any(math.isnan(v) for v in (p.x, p.y, p.z, p.vx, p.vy, p.vz))


def call_c(sim, kw):
    """reb_simulation_add_fmt with the arguments of kw (ordered); returns (class, particle bytes or None, nan?)"""
    fmt = " ".join(kw.keys()).encode()
    args = []
    for k, v in kw.items():
        args.append(v if k == "primary" else ctypes.c_double(v))
    n0 = sim.N
    clibrebound.reb_simulation_add_fmt(ctypes.byref(sim), fmt, *args)
    try:
        sim.process_messages()
    except Exception as e:  # noqa: BLE001
        return classify(str(e)), None, False, str(e)[:80]
    if sim.N != n0 + 1:
        return -2, None, False, "no particle added and no message"
    p = sim.particles[n0]
    b, isn = bits(p), nanp(p)
    sim.remove(index=n0)
    return None, b, isn, ""


def call_py(sim, kw):
    try:
        p = rebound.Particle(simulation=sim, **kw)
    except ValueError as e:
        return classify(str(e)), None, False, str(e)[:80]
    except Exception as e:  # noqa: BLE001
        return -3, None, False, repr(e)[:80]
    return None, bits(p), nanp(p), ""


def build_kw(S, sim, rng):
    kw = {"m": 1e-3}
    for a in ATOMS:
        if a not in S:
            continue
        if a == "cart":
            kw["x"] = 1.0
            if rng.random() < 0.5:
                kw["vy"] = 0.5
        elif a == "primary":
            kw["primary"] = sim.particles[0].copy()
        elif a == "pal":
            kw["h"] = 0.01
            if rng.random() < 0.5:
                kw["ix"] = 0.02
        else:
            kw[a] = VAL[a]
    return kw


def main():
    table, out, seed, stride = sys.argv[1], sys.argv[2], int(sys.argv[3]), int(sys.argv[4])
    rng = random.Random(seed)
    # stderr of the C library (error banner of reb_particle_from_fmt) is not needed
    res = {"rows": 0, "violations": [], "samples": [], "accepted": 0, "values": 0, "grid": 0, "kepler": 0, "classes": {}}
    S_rows, V_rows, G_rows = [], [], []
    for ln in open(table):
        f = ln.strip()[2:-2].split(",")
        if f[0] == '"S"':
            S_rows.append((int(f[1]), int(f[2])))
        elif f[0] == '"V"':
            V_rows.append(tuple(int(x) for x in f[1:]))
        elif f[0] == '"G"':
            G_rows.append(tuple(int(x) for x in f[1:]))
    sim = rebound.Simulation()
    sim.add(m=1.0)
    sim.t = 0.5

    def viol(kind, **kw):
        if len(res["violations"]) < 40:
            res["violations"].append(dict(kind=kind, **kw))

    # ---- structural decision table
    for n, want in S_rows:
        S = {ATOMS[i] for i in range(16) if (n >> i) & 1}
        if not (len(S) <= 3 or n % stride == seed % stride):
            continue
        kw = build_kw(S, sim, rng)
        cc, cb, cn, cm = call_c(sim, kw)
        pc, pb, pn, pm = call_py(sim, kw)
        res["rows"] += 1
        wantc = None if want in (0, 100, 101) else want
        res["classes"][str(want)] = res["classes"].get(str(want), 0) + 1
        key = sorted(S)
        if cc != wantc:
            viol("table-c", args=key, spec=want, c=cc if cc is not None else "accepted", msg=cm)
        if pc != wantc:
            viol("table-py", args=key, spec=want, py=pc if pc is not None else "accepted", msg=pm)
        if cc is None and pc is None:
            res["accepted"] += 1
            if cn or pn:
                viol("nan", args=key, c_nan=cn, py_nan=pn)
            elif cb != pb and not ({"P", "T"} & S):
                viol("bits", args=key, note="C and Python build different particles from the same arguments")
            elif cb != pb:
                # P or T converted on both sides: rounding only
                a = struct.unpack("7d", cb)
                b = struct.unpack("7d", pb)
                if max(abs(x - y) for x, y in zip(a, b)) > 1e-12:
                    viol("bits", args=key, note="C and Python differ by more than rounding (P/T conversion)", c=a, py=b)
        # accepted classical calls: the same argument set with a retrograde, eccentric orbit and with a hyperbolic one
        if want == 100 and cc is None and pc is None:
            for variant in ("retro", "hyper"):
                kw2 = dict(kw)
                if variant == "retro":
                    if "inc" not in kw2:
                        continue
                    kw2["inc"] = 2.5
                    kw2["e"] = 0.3 if "e" in kw2 else kw2.get("e", 0.3)
                    if "e" not in kw:
                        kw2.pop("e")
                else:
                    if "a" not in kw2 or "e" not in kw2:
                        continue
                    kw2["a"] = -1.3
                    kw2["e"] = 1.5
                    for ang in ("f", "theta"):
                        if ang in kw2:
                            kw2[ang] = 0.2
                c2, b2, n2, m2 = call_c(sim, kw2)
                p2, q2, pn2, pm2 = call_py(sim, kw2)
                res["accepted"] += 1
                if c2 != p2:
                    viol("variant-class", args=key, variant=variant, c=c2 if c2 is not None else "accepted", py=p2 if p2 is not None else "accepted")
                elif c2 is None:
                    if n2 or pn2:
                        viol("nan", args=key, variant=variant, c_nan=n2, py_nan=pn2)
                    elif b2 != q2:
                        a_ = struct.unpack("7d", b2)
                        b_ = struct.unpack("7d", q2)
                        lim = 1e-12 if ({"P", "T"} & S) else 0.0
                        if max(abs(x - y) for x, y in zip(a_, b_)) > lim:
                            viol("bits", args=key, note="C and Python build different particles (%s variant)" % variant, c=a_, py=b_)
        if len(res["samples"]) < 3 and want in (100, 14):
            res["samples"].append({"args": key, "spec": want, "c": cc, "py": pc})
    # ---- Galilean invariance of the constructors: the same elements around a primary at rest at the origin and around a displaced,
    #      moving primary (distinct components) give the same relative state; both front ends, classical and Pal element sets
    prim0 = rebound.Particle(m=1.0, x=0.0, y=0.0, z=0.0, vx=0.0, vy=0.0, vz=0.0)
    prim1 = rebound.Particle(m=1.0, x=1.5, y=-2.25, z=0.75, vx=0.25, vy=-0.5, vz=1.25)
    elsets = [{"a": 1.3, "e": 0.2, "inc": 0.4, "Omega": 0.7, "omega": 1.9, "f": 2.3}, {"a": 0.8, "e": 0.05, "inc": 2.6, "Omega": 4.0, "omega": 0.3, "M": 1.1},
              {"a": -2.0, "e": 1.7, "inc": 0.9, "Omega": 1.0, "omega": 2.0, "f": 0.4}, {"P": 3.0, "e": 0.1, "inc": 0.2, "l": 1.0, "pomega": 0.5, "Omega": 0.2},
              {"a": 1.3, "h": 0.12, "k": -0.07, "l": 0.9, "ix": 0.05, "iy": -0.11}, {"a": 2.1, "h": -0.2, "k": 0.1, "l": 4.0, "ix": -0.3, "iy": 0.02}, {"a": 1.0, "l": 2.0, "h": 0.3}]
    for els in elsets:
        for front in (call_c, call_py):
            outs = []
            for prim in (prim0, prim1):
                kw = dict({"m": 1e-3}, **els)
                kw["primary"] = prim
                c, b, isn, msg = front(sim, kw)
                outs.append((c, b, isn, msg))
            res["accepted"] += 1
            if outs[0][0] is not None or outs[1][0] is not None:
                viol("galilean-refused", elements=els, front="c" if front is call_c else "python", messages=[outs[0][3], outs[1][3]])
                continue
            r0 = struct.unpack("7d", outs[0][1])
            r1 = struct.unpack("7d", outs[1][1])
            pv = (prim1.x, prim1.y, prim1.z, prim1.vx, prim1.vy, prim1.vz)
            bad = [k for k in range(6) if abs(r1[k] - (pv[k] + r0[k])) > 4 * math.ulp(max(abs(pv[k]), abs(r0[k]), 1.0))]
            if bad or r0[6] != r1[6]:
                viol("galilean", elements=els, front="c" if front is call_c else "python", components=["x", "y", "z", "vx", "vy", "vz"][bad[0]] if bad else "m",
                     at_rest=r0, moving_primary=r1, primary=pv)
    # ---- range of the Pal inclination components: accepted iff ix^2 + iy^2 <= 4, by both front ends alike (no NaN particle either way)
    for ixv, iyv in ((0.0, 2.5), (-2.0, 2.0), (0.1, 3.0), (0.0, -2.1), (2.5, 0.0), (1.5, 1.5), (3.0, 0.1), (1.9, 0.5), (1.5, 1.3), (-1.2, 1.5), (0.5, -1.9), (0.3, 0.2), (2.0, 0.0), (0.0, -2.0)):
        kw = {"m": 1e-3, "a": 1.3, "h": 0.1, "k": -0.05, "l": 0.7, "ix": ixv, "iy": iyv, "primary": sim.particles[0].copy()}
        valid = ixv * ixv + iyv * iyv <= 4.0
        for front in (call_c, call_py):
            c, b, isn, msg = front(sim, kw)
            res["values"] += 1
            if (c is None) != valid or (c is None and isn):
                viol("pal-range", ix=ixv, iy=iyv, front="c" if front is call_c else "python", specified="accepted" if valid else "rejected",
                     got="accepted" if c is None else "rejected (%s)" % msg, nan=isn)
    # ---- value classes of a structurally valid classical call
    for e2, ap, by, pm, want in V_rows:
        e = e2 / 2.0
        a = 1.3 if ap else -1.3
        f = math.pi if by else 0.3
        if by and e2 <= 2:
            continue            # e*cos(f) < -1 needs e > 1
        prim = sim.particles[0].copy()
        prim.m = float(pm)
        kw = {"m": 1e-3, "a": a, "e": e, "f": f, "primary": prim}
        cc, cb, cn, cm = call_c(sim, kw)
        pc, pb, pn, pmm = call_py(sim, kw)
        res["values"] += 1
        wantc = None if want == 100 else want
        if cc != wantc or pc != wantc:
            viol("values", e=e, a=a, f=f, primary_mass=pm, spec=want, c=cc if cc is not None else "accepted", py=pc if pc is not None else "accepted")
        elif cc is None and (cn or pn):
            viol("nan", e=e, a=a, f=f, primary_mass=pm)
    for big in (False, True):
        kw = {"m": 1e-3, "a": 1.3, "ix": 1.8 if big else 0.3, "iy": 1.0 if big else 0.2}
        cc, _, _, _ = call_c(sim, kw)
        pc, _, _, _ = call_py(sim, kw)
        want = 12 if big else None
        res["values"] += 1
        if cc != want or pc != want:
            viol("values-pal", big=big, c=cc, py=pc)
    # ---- angle grid read back (Canon): pomega and theta indices, ranges, defining relations
    q = math.pi / 4
    tol = 1e-9

    def idx(x):
        return int(round(x / q)) % 8

    for inc_i, Om, om, f, wp, wt in G_rows:
        if (inc_i * 37 + Om * 11 + om * 5 + f) % max(1, stride // 4) and stride > 1:
            continue
        for e in (0.0, 0.5):
            for front in ("c", "py"):
                kw = {"m": 1e-3, "a": 1.3, "e": e, "inc": inc_i * q, "Omega": Om * q, "omega": om * q, "f": f * q, "primary": sim.particles[0].copy()}
                if front == "py":
                    try:
                        p = rebound.Particle(simulation=sim, **kw)
                    except Exception as ex:  # noqa: BLE001
                        viol("grid-rejected", front=front, cfg=[inc_i, Om, om, f, e], msg=str(ex)[:80])
                        continue
                    o = p.orbit(primary=sim.particles[0], G=sim.G)
                else:
                    n0 = sim.N
                    cc, cb, cn, cm = None, None, None, None
                    fmt = " ".join(kw.keys()).encode()
                    clibrebound.reb_simulation_add_fmt(ctypes.byref(sim), fmt, *[v if k == "primary" else ctypes.c_double(v) for k, v in kw.items()])
                    try:
                        sim.process_messages()
                    except Exception as ex:  # noqa: BLE001
                        viol("grid-rejected", front=front, cfg=[inc_i, Om, om, f, e], msg=str(ex)[:80])
                        continue
                    o = sim.particles[n0].orbit(primary=sim.particles[0])
                    sim.remove(index=n0)
                res["grid"] += 1
                vals = {k: getattr(o, k) for k in ("a", "e", "inc", "Omega", "omega", "pomega", "f", "M", "l", "theta")}
                if any(math.isnan(v) for v in vals.values()):
                    viol("grid-nan", front=front, cfg=[inc_i, Om, om, f, e], vals=vals)
                    continue
                bad = []
                if abs(vals["a"] - 1.3) > 1e-9 or abs(vals["e"] - e) > 1e-9 or abs(vals["inc"] - inc_i * q) > 1e-7:
                    bad.append("a/e/inc")
                if not (-1e-12 <= vals["inc"] <= math.pi + 1e-12):
                    bad.append("inc range")
                # theta (true longitude) is always defined; pomega when e > 0
                def near_idx(x, want):
                    d = (x - want * q) % (2 * math.pi)
                    return min(d, 2 * math.pi - d) < 1e-7
                if inc_i != 2:       # exactly polar: prograde / retrograde convention is a rounding matter (cos(pi/2) = 6e-17)
                    if not near_idx(vals["theta"], wt):
                        bad.append("theta")
                    if e > 0 and not near_idx(vals["pomega"], wp):
                        bad.append("pomega")
                # defining relations among the reported elements (mod 2 pi)
                s = -1.0 if math.cos(vals["inc"]) <= 0 and inc_i > 2 else 1.0
                def rel(x):
                    d = x % (2 * math.pi)
                    return min(d, 2 * math.pi - d) < 1e-7
                if inc_i != 2:
                    if not rel(vals["pomega"] - (vals["Omega"] + s * vals["omega"])):
                        bad.append("pomega = Omega +- omega")
                    if not rel(vals["theta"] - (vals["pomega"] + s * vals["f"])):
                        bad.append("theta = pomega +- f")
                    if e > 0:
                        if not rel(vals["l"] - (vals["pomega"] + s * vals["M"])):
                            bad.append("l = pomega +- M")
                    elif not rel(vals["l"] - vals["theta"]):
                        # circular orbit: the pericentre (and with it M, f, omega individually) is undefined; l = theta must hold
                        bad.append("l = theta for e = 0")
                if bad:
                    viol("grid", front=front, cfg={"inc": inc_i, "Omega": Om, "omega": om, "f": f, "e": e}, failed=bad, vals=vals, want={"pomega_idx": wp, "theta_idx": wt})
    # ---- time of pericentre passage round trip (elliptic: modulo the period; hyperbolic: exactly one passage)
    for a, e in ((1.3, 0.2), (0.7, 0.6), (-1.3, 1.5), (-0.4, 3.0)):
        for T in (-0.7, 0.1, 0.45, 0.9, 2.3):
            for inc in (0.3, 2.6):
                p = rebound.Particle(simulation=sim, m=1e-3, a=a, e=e, inc=inc, Omega=0.4, omega=1.1, T=T, primary=sim.particles[0])
                n0 = sim.N
                sim.add(p)
                o = sim.particles[n0].orbit(primary=sim.particles[0])
                sim.remove(index=n0)
                res["values"] += 1
                if math.isnan(o.T):
                    viol("T-nan", a=a, e=e, T=T)
                    continue
                d = o.T - T
                if a > 0:
                    P = abs(o.P)
                    d = (d + P / 2) % P - P / 2
                if abs(d) > 1e-9:
                    viol("T-roundtrip", a=a, e=e, inc=inc, T_given=T, T_read=o.T, t=sim.t)
    # ---- Kepler's equation residuals
    clibrebound.reb_M_to_E.restype = ctypes.c_double
    clibrebound.reb_M_to_f.restype = ctypes.c_double
    clibrebound.reb_E_to_f.restype = ctypes.c_double
    Ms = [k * q for k in range(-16, 17)] + [0.0, 1e-300, -1e-300, 1e-12, -1e-12, 2 * math.pi, -2 * math.pi, 100 * math.pi, 1e6, -1e6, 0.1, -0.1, 3.0, -3.0]
    for e in (0.0, 1e-8, 0.1, 0.5, 0.79, 0.8, 0.95, 0.999, 1.001, 1.1, 1.5, 3.0, 10.0, 1e3):
        for M in Ms:
            E = clibrebound.reb_M_to_E(ctypes.c_double(e), ctypes.c_double(M))
            fC = clibrebound.reb_M_to_f(ctypes.c_double(e), ctypes.c_double(M))
            Ep = rebound.M_to_E(e, M)
            res["kepler"] += 1
            if math.isnan(E) or math.isinf(E) or math.isnan(fC):
                viol("kepler-nan", e=e, M=M, E=E, f=fC)
                continue
            if struct.pack("d", E) != struct.pack("d", Ep):
                viol("kepler-front-ends", e=e, M=M, c=E, py=Ep)
            if e < 1:
                r = E - e * math.sin(E) - M
                r = (r + math.pi) % (2 * math.pi) - math.pi
                scale = 1e-9 * max(1.0, abs(M) * 1e-6)
            else:
                r = e * math.sinh(E) - E - M
                scale = 1e-9 * max(1.0, abs(M))
            if abs(r) > scale:
                viol("kepler-residual", e=e, M=M, E=E, residual=r)
            # f from E consistent: tan(f/2) relation
            if e < 1 and abs(math.cos(E) - 1 / e if e > 0 else 1) > 0:
                fe = 2 * math.atan2(math.sqrt(1 + e) * math.sin(E / 2), math.sqrt(1 - e) * math.cos(E / 2))
                d = (fC - fe) % (2 * math.pi)
                if min(d, 2 * math.pi - d) > 1e-7:
                    viol("kepler-f", e=e, M=M, f=fC, expected=fe)
    json.dump(res, open(out, "w"))


if __name__ == "__main__":
    main()
