"""Record a confirmed seeded change under /verif/seeded/<ID>_<m>/ (patch.diff, demo, meta.json)."""
import json, os, shutil, sys
pid, m, caught = sys.argv[1], sys.argv[2], sys.argv[3]
checks = sys.argv[4] if len(sys.argv) > 4 else ""
# optional: source base directory (round 2: /tmp/seed2/out) and the name to keep it under (m3, m4)
base = sys.argv[5] if len(sys.argv) > 5 else "/tmp/seed/out"
keep = sys.argv[6] if len(sys.argv) > 6 else m
src = "%s/%s/%s" % (base, pid, m)
dst = "/verif/seeded/%s_%s" % (pid, keep)
os.makedirs(dst, exist_ok=True)
for f in ("patch.diff", "demo.py", "demo.c", "notes.md"):
    if os.path.exists(os.path.join(src, f)):
        shutil.copy(os.path.join(src, f), dst)
cf = os.path.join(src, "confirm_mine.txt") if os.path.exists(os.path.join(src, "confirm_mine.txt")) else os.path.join(src, "confirm.txt")
conf = open(cf).read().strip() if os.path.exists(cf) else ""
notes = open(os.path.join(src, "notes.md")).read() if os.path.exists(os.path.join(src, "notes.md")) else ""
meta = {"property": pid, "id": "%s_%s" % (pid, keep), "round": 4 if "seed4" in base else 3 if "seed3" in base else (2 if "seed2" in base else 1),
        "needs_to_manifest": notes[:1500],
        "confirmed": conf,
        "what_i_ran": ["scratch worktree /tmp/seed/wt_confirm (confirm.sh): build pristine, demo.py (rc 0), git apply patch.diff + rebuild, demo.py (rc != 0), full pytest suite (873 passed, same failures as baseline)",
                       "git -C /repo apply patch.diff; ./check %s --tier quick; git -C /repo checkout -- ." % pid],
        "detected_by_check": caught, "how": checks}
json.dump(meta, open(os.path.join(dst, "meta.json"), "w"), indent=1)
print("kept", dst)
