"""C14 -- particle bookkeeping under any add/remove/hash history.

 E1  TLC exhaustively checks ParticleStore (design + invariants) for small constants.
 E2  the dumped state graph is walked against the real code (C API through ctypes, and the Python
     particles container): for every (state, action) the implementation reaches, its projected
     state must be a spec successor for that action.
 E3  long seeded random histories on the real code (crossing the 128/256 growth boundaries) are
     validated by TLC against Trace_ParticleStore with all invariants on.
 E5  binding self-test (thorough): a corrupted trace must be rejected.
"""
import json
import os
import re
import shutil

import common
from common import MachineryError

LEVEL = "model_checking"
HERE = os.path.dirname(os.path.abspath(__file__))

ACTIONS = ["Add", "RemoveCore", "RemoveIdx", "RemoveHash", "SetHash", "Lookup", "RemoveAll"]


def write_cfg(path, consts, invariants, props, spec="Spec", constraint=None, extra=""):
    with open(path, "w") as fh:
        fh.write("SPECIFICATION %s\nCONSTANTS\n" % spec)
        for k, v in consts.items():
            fh.write("  %s = %s\n" % (k, v))
        if constraint:
            fh.write("CONSTRAINT %s\n" % constraint)
        for i in invariants:
            fh.write("INVARIANT %s\n" % i)
        for p in props:
            fh.write("PROPERTY %s\n" % p)
        fh.write("CHECK_DEADLOCK FALSE\n" + extra)


INVS = ["ExactlyExpected", "OrderPreserved", "NActiveRange", "NActiveAsDocumented", "LookupOK", "GetIdxOK", "AllocCovers"]
PROPS = ["FailUnchanged", "InvalidFails"]


def tlabool(b):
    return "TRUE" if b else "FALSE"


def model_run(rep, tag, tree, hybrid, maxn, depth, dump):
    cfgname = "gen_MC_ParticleStore_%s" % tag
    write_cfg(os.path.join(common.SPEC, cfgname + ".cfg"),
              {"MaxN": maxn, "MaxId": maxn + 1, "Hashes": "{0, 1, 2}", "TreeMode": tlabool(tree),
               "Hybrid": tlabool(hybrid), "BaseAlloc": 2, "MaxDepth": depth},
              INVS, PROPS, constraint="Depth")
    res = common.run_tlc("MC_ParticleStore", cfgname, dump=dump, timeout=3000)
    os.remove(os.path.join(common.SPEC, cfgname + ".cfg"))
    if res.violation:
        rep.violation("model:%s:%s" % (tag, res.violation),
                      "ParticleStore design violates %s in config %s" % (res.violation, tag),
                      {"tlc_trace": res.trace[-12:]})
        return res
    common.tlc_must_pass(res, "ParticleStore/" + tag)
    rep.add(states=res.distinct, transitions=res.states)
    return res


def graph_replay(rep, tag, tree, hybrid, dot, api, budget):
    sc = os.path.dirname(dot)
    out = os.path.join(sc, "walk_%s_%s.json" % (tag, api))
    cfg = {"TreeMode": tree, "Hybrid": hybrid}
    r = common.run_worker(os.path.join(HERE, "w_c14.py"), ["graph", dot, json.dumps(cfg), out, api, str(budget)],
                          timeout=budget + 600)
    if r.returncode != 0 or not os.path.exists(out):
        # a crash of the real code while replaying a spec behaviour is a violation of the
        # "no operation touches memory outside the particle storage" clause only if it is a signal
        if r.returncode < 0:
            rep.violation("crash:%s:%s" % (tag, api), "real code crashed (signal %d) replaying ParticleStore graph %s/%s" % (-r.returncode, tag, api),
                          {"stderr": r.stderr[-2000:], "cfg": cfg, "api": api})
            return
        raise MachineryError("graph worker failed: %s" % (r.stderr[-2000:],))
    res = json.load(open(out))
    rep.add(traces_validated_against_impl=res["checked"], evaluations=res["checked"])
    rep.cov.setdefault("graph_replays", []).append({"cfg": tag, "api": api, "pairs_checked": res["checked"],
                                                     "spec_pairs": res["pairs_total"], "reached_nodes": res["reached_nodes"],
                                                     "spec_nodes": res["nodes"], "truncated": res["truncated"]})
    for s in res["samples"][:2]:
        rep.sample({"kind": "spec->code replay", "cfg": tag, "api": api, **s})
    for v in res["violations"]:
        rep.violation("%s:%s" % (tag, v["key"]),
                      "implementation state after %s is not a ParticleStore successor (cfg %s, api %s): impl=%s spec allows %s"
                      % (v["history"][-1], tag, api, v.get("impl"), v.get("spec_allows")), v)
    if res["checked"] < 50:
        raise MachineryError("graph replay covered only %d pairs" % res["checked"])


def validate_traces(rep, tracefile, tree, hybrid, tag, expect_reject=False):
    """Run TLC on Trace_ParticleStore for all traces in the ndjson file.  Returns set of accepted ids."""
    n = sum(1 for _ in open(tracefile))
    cfgname = "gen_Trace_ParticleStore_%s" % tag
    write_cfg(os.path.join(common.SPEC, cfgname + ".cfg"),
              {"MaxN": 100000, "MaxId": 100000, "Hashes": "{0}", "TreeMode": tlabool(tree),
               "Hybrid": tlabool(hybrid), "BaseAlloc": 128},
              [i for i in INVS if i != "AllocCovers"], PROPS, spec="TraceSpec", constraint="Report")
    res = common.run_tlc("Trace_ParticleStore", cfgname, workers=1, env={"TRACE_FILE": tracefile},
                         coverage=False, timeout=3000)
    os.remove(os.path.join(common.SPEC, cfgname + ".cfg"))
    acc = set(int(m) for m in re.findall(r'<<"ACC", (\d+)>>', res.out))
    if res.violation and not expect_reject:
        # an invariant failed on a state of a real trace
        rep.violation("trace-invariant:%s:%s" % (tag, res.violation),
                      "invariant %s violated on a recorded implementation history (%s)" % (res.violation, tag),
                      {"tlc_trace": res.trace[-6:], "tracefile": tracefile})
    elif not res.violation and not res.ok:
        raise MachineryError("trace validation did not complete: %s" % res.out[-2000:])
    return acc, n, res


def first_rejected_event(tracefile, tid, tree, hybrid, tag):
    """Re-run a single rejected trace to find the longest accepted prefix."""
    lines = open(tracefile).read().splitlines()
    tr = json.loads(lines[tid - 1])
    lo, hi = 0, len(tr["events"])
    sc = os.path.dirname(tracefile)
    # binary search over prefix length
    while lo < hi:
        mid = (lo + hi + 1) // 2
        f = os.path.join(sc, "prefix.ndjson")
        with open(f, "w") as fh:
            fh.write(json.dumps({"events": tr["events"][:mid]}) + "\n")
        rep = common.Reporter("C14", "quick", LEVEL)
        rep.known = []
        acc, _, _ = validate_traces(rep, f, tree, hybrid, tag + "_bisect", expect_reject=True)
        if 1 in acc:
            lo = mid
        else:
            hi = mid - 1
    return lo, tr


def random_traces(rep, tag, tree, hybrid, api, ntraces, length, sc, seed_off=0):
    cfg = {"TreeMode": tree, "Hybrid": hybrid, "MaxN": 300 if not tree else 60, "NHashes": 7}
    f = os.path.join(sc, "rand_%s_%s.ndjson" % (tag, api))
    r = common.run_worker(os.path.join(HERE, "w_c14.py"),
                          ["random", json.dumps(cfg), f, str(common.seed() * 1000 + seed_off), str(ntraces), str(length), api],
                          timeout=1800)
    if r.returncode != 0:
        if r.returncode < 0:
            rep.violation("crash-random:%s:%s" % (tag, api), "real code crashed (signal %d) in a random history" % -r.returncode,
                          {"stderr": r.stderr[-2000:]})
            return
        raise MachineryError("random worker failed: %s" % r.stderr[-2000:])
    acc, n, res = validate_traces(rep, f, tree, hybrid, tag)
    rep.add(traces_validated_against_impl=n, evaluations=n, states=res.distinct, transitions=res.states)
    rep.cov.setdefault("random_histories", []).append({"cfg": tag, "api": api, "traces": n, "events_each": length, "accepted": len(acc)})
    line = open(f).readline()
    ev = json.loads(line)["events"]
    rep.sample({"kind": "code->spec trace (first 5 events of one history)", "cfg": tag, "api": api,
                "events": [{k: e[k] for k in ("a", "args", "ret", "err", "nActive")} for e in ev[:5]]})
    if not res.violation:
        for tid in range(1, n + 1):
            if tid not in acc:
                k, tr = first_rejected_event(f, tid, tree, hybrid, tag)
                e = tr["events"][k] if k < len(tr["events"]) else None
                rep.violation("trace:%s:%s:%s" % (tag, api, e["a"] if e else "?"),
                              "recorded history is not a behaviour of ParticleStore: first unmatched event #%d %s (cfg %s, api %s)"
                              % (k + 1, json.dumps(e)[:300], tag, api),
                              {"history": [[x["a"]] + x["args"] for x in tr["events"][:k + 1]], "event": e, "cfg": cfg, "api": api})
                break
    return f


def self_test(rep, f, tree, hybrid, tag, sc):
    """E5: corrupt one logged field / drop one event of an accepted trace -> must be rejected."""
    line = open(f).readline()
    tr = json.loads(line)
    ev = tr["events"]
    # corruption 1: swap two particles in a logged post-state
    k = next((i for i, e in enumerate(ev) if len(e["ps"]) >= 2 and e["ps"][0] != e["ps"][1]), None)
    # corruption 2: drop an Add event
    d = next((i for i, e in enumerate(ev) if e["a"] == "Add"), None)
    if k is None or d is None:
        raise MachineryError("self-test could not find a corruptible event")
    bad1 = json.loads(line)
    bad1["events"][k]["ps"][0], bad1["events"][k]["ps"][1] = bad1["events"][k]["ps"][1], bad1["events"][k]["ps"][0]
    bad2 = json.loads(line)
    del bad2["events"][d]
    g = os.path.join(sc, "selftest.ndjson")
    with open(g, "w") as fh:
        fh.write(json.dumps(bad1) + "\n" + json.dumps(bad2) + "\n" + line.strip() + "\n")
    r2 = common.Reporter("C14", "quick", LEVEL)
    r2.known = []
    acc, n, res = validate_traces(r2, g, tree, hybrid, tag + "_selftest", expect_reject=True)
    if 1 in acc or 2 in acc:
        raise MachineryError("binding self-test failed: corrupted trace accepted (%s)" % sorted(acc))
    rep.cov["binding_self_test"] = "2 corrupted traces rejected"


def run(tier, rep):
    common.build()
    sc = common.scratch("c14")
    quick = tier == "quick"
    configs = [("plain", False, False), ("tree", True, False), ("hybrid", False, True)]
    depth = 5 if quick else 6
    maxn = 3
    for tag, tree, hybrid in configs:
        dot = os.path.join(sc, "ps_%s.dot" % tag)
        res = model_run(rep, tag, tree, hybrid, maxn, depth, dot)
        if res.violation:
            continue
        for api in ("c", "py"):
            graph_replay(rep, tag, tree, hybrid, dot, api, 60 if quick else 900)
        os.remove(dot)
    if not quick:
        # deeper design check without dumping the graph
        model_run(rep, "plain_deep", False, False, 4, 7, None)
    nt, ln = (6, 250) if quick else (40, 1200)
    f = None
    for tag, tree, hybrid in configs:
        for api in ("c", "py"):
            g = random_traces(rep, tag, tree, hybrid, api, nt if api == "c" else max(2, nt // 3), ln, sc)
            if tag == "plain" and api == "c":
                f = g
    if f and not rep.violations:
        self_test(rep, f, False, False, "plain", sc)
    # storage-growth boundaries: state consistency in every tier, memory safety under ASan in the thorough tier
    go = os.path.join(sc, "growth.json")
    r = common.run_worker(os.path.join(HERE, "w_c14.py"), ["growth", go], timeout=1800)
    if r.returncode != 0:
        if r.returncode < 0:
            rep.violation("crash:growth", "real code crashed (signal %d) at a storage-growth boundary" % -r.returncode, {"stderr": r.stderr[-1500:]})
        else:
            raise MachineryError("growth worker failed: %s" % r.stderr[-2000:])
    else:
        g = json.load(open(go))
        rep.add(evaluations=g["ops"])
        for pb in g["problems"]:
            if pb["boundary"] == 0:
                rep.violation("names:%s" % ("hash" if "murmur3" in pb else "lookup"), "look-up / removal by name: %s" % json.dumps({k: v for k, v in pb.items() if k not in ("hybrid", "boundary")}), pb)
                continue
            rep.violation("growth:%s:%d" % ("hybrid" if pb["hybrid"] else "plain", pb["boundary"]), "particle array wrong after removals / additions around N == N_allocated == %d: %s" % (pb["boundary"], pb), pb)
    if not quick:
        common.build("asan")
        r = common.run_worker(os.path.join(HERE, "w_c14.py"), ["growth", go], variant="asan", env=common.asan_env(), timeout=1800)
        if r.returncode != 0 and ("AddressSanitizer" in r.stderr or "runtime error" in r.stderr):
            head, where = common.asan_where(r.stderr)
            rep.violation("asan:growth", "sanitizer report at a storage-growth boundary (N == N_allocated): %s in %s" % (head, where), {"stderr": r.stderr[-3000:]})
        elif r.returncode != 0:
            rep.cov["asan_growth"] = "not run: %s" % r.stderr[-200:]
        else:
            rep.cov["asan_growth"] = "growth boundaries 128 / 256, plain and hybrid, clean under ASan+UBSan"
    # ASan/UBSan execution of the random histories (memory-safety clause), thorough only
    if not quick:
        cfg = {"TreeMode": False, "Hybrid": False, "MaxN": 300, "NHashes": 7}
        d = common.build("asan")
        out = os.path.join(sc, "asan.ndjson")
        r = common.run_worker(os.path.join(HERE, "w_c14.py"), ["random", json.dumps(cfg), out, str(common.seed() + 7), "6", "800", "c"],
                              variant="asan", env=common.asan_env(), timeout=1800)
        if r.returncode != 0 and ("AddressSanitizer" in r.stderr or "runtime error" in r.stderr):
            head, where = common.asan_where(r.stderr)
            rep.violation("asan", "sanitizer report while executing a random history: %s in %s" % (head, where), {"stderr": r.stderr[-3000:]})
        elif r.returncode != 0:
            rep.cov["asan"] = "not run: %s" % r.stderr[-200:]
        else:
            rep.cov["asan"] = "6 histories x 800 events clean under ASan+UBSan"
    rep.add(distinct_nontrivial=sum(x["reached_nodes"] for x in rep.cov.get("graph_replays", [])),
            rule="E2: every (spec state, action) pair reachable by the implementation in the dumped TLC graph; "
                 "distinct = distinct spec states reached by the implementation. E3: seeded random histories.",
            exhaustive=all(not x["truncated"] for x in rep.cov.get("graph_replays", [])))
    rep.assumptions += ["ids are carried in the particle mass; hashes 0..6 map to fixed 32-bit values (0 stays 0)",
                        "with a tree, N_active is not used (SetNActive disabled in TreeMode)",
                        "qsort order among equal hashes is abstracted: any entry with the hash may be found"]
    shutil.rmtree(sc, ignore_errors=True)
