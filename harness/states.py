"""Reachable simulation states used by C05/C17/C09 drivers (all built through the public Python API)."""
import warnings

import rebound


def base(n=3, seed=0, massive=True):
    sim = rebound.Simulation()
    sim.add(m=1.0)
    sim.add(m=1e-3 if massive else 0.0, a=1.0, e=0.05 + 0.01 * seed, f=0.3)
    if n >= 3:
        sim.add(m=3e-4, a=1.9, e=0.1, inc=0.05, f=2.1 + 0.1 * seed)
    if n >= 4:
        sim.add(m=1e-5, a=3.1, e=0.02, f=1.0)
    sim.move_to_com()
    sim.dt = 0.03
    return sim


def st_whfast_unsync():
    sim = base()
    sim.integrator = "whfast"
    sim.ri_whfast.safe_mode = 0
    sim.steps(4)
    return sim


def st_whfast_corr():
    sim = base()
    sim.integrator = "whfast"
    sim.ri_whfast.corrector = 11
    sim.ri_whfast.safe_mode = 0
    sim.steps(3)
    return sim


def st_whfast_dh():
    sim = base()
    sim.integrator = "whfast"
    sim.ri_whfast.coordinates = "democraticheliocentric"
    sim.steps(3)
    return sim


def st_whfast_kernel():
    sim = base()
    sim.integrator = "whfast"
    sim.ri_whfast.kernel = "lazy"
    sim.ri_whfast.corrector = 17
    sim.ri_whfast.safe_mode = 0
    sim.steps(3)
    return sim


def st_ias15():
    sim = base()
    sim.integrator = "ias15"
    sim.steps(5)
    return sim


def st_ias15_opts():
    sim = base()
    sim.integrator = "ias15"
    sim.ri_ias15.epsilon = 1e-8
    sim.ri_ias15.min_dt = 1e-4
    sim.ri_ias15.adaptive_mode = 1
    sim.steps(4)
    return sim


def st_mercurius():
    sim = base()
    sim.integrator = "mercurius"
    sim.dt = 0.02
    sim.steps(4)
    return sim


def st_mercurius_unsync():
    sim = base()
    sim.integrator = "mercurius"
    sim.dt = 0.02
    sim.ri_mercurius.safe_mode = 0
    sim.steps(4)
    return sim


def st_trace():
    sim = base()
    sim.integrator = "trace"
    sim.dt = 0.02
    sim.steps(4)
    return sim


def st_trace_peri():
    sim = base()
    sim.integrator = "trace"
    sim.dt = 0.02
    sim.ri_trace.peri_crit_eta = 0.5
    sim.steps(3)
    return sim


def st_janus():
    sim = base()
    sim.integrator = "janus"
    sim.ri_janus.scale_pos = 1e-16
    sim.ri_janus.scale_vel = 1e-16
    sim.ri_janus.order = 4
    sim.steps(4)
    return sim


def st_saba():
    sim = base()
    sim.integrator = "saba"
    sim.ri_saba.type = "(10,6,4)"
    sim.ri_saba.safe_mode = 0
    sim.steps(4)
    return sim


def st_saba_keep():
    sim = base()
    sim.integrator = "saba"
    sim.ri_saba.type = "cl4"
    sim.ri_saba.safe_mode = 0
    sim.ri_saba.keep_unsynchronized = 1
    sim.steps(3)
    return sim


def st_eos():
    sim = base()
    sim.integrator = "eos"
    sim.ri_eos.phi0 = "lf4"
    sim.ri_eos.phi1 = "lf4_2"
    sim.ri_eos.n = 3
    sim.ri_eos.safe_mode = 0
    sim.steps(3)
    return sim


def st_bs():
    sim = base()
    sim.integrator = "bs"
    sim.ri_bs.eps_rel = 1e-9
    sim.ri_bs.eps_abs = 1e-10
    sim.steps(3)
    return sim


def st_leapfrog():
    sim = base()
    sim.integrator = "leapfrog"
    sim.steps(4)
    return sim


def st_sei():
    sim = rebound.Simulation()
    sim.integrator = "sei"
    sim.ri_sei.OMEGA = 1.0
    sim.dt = 0.01
    sim.add(m=0, x=0.1, y=0.2, vy=-0.15)
    sim.add(m=0, x=-0.3, y=0.1, vy=0.45)
    sim.steps(4)
    return sim


def st_variational():
    sim = base()
    sim.integrator = "ias15"
    sim.add_variation()
    v = sim.add_variation(order=1)
    sim.steps(3)
    return sim


def st_variational2():
    sim = base()
    sim.integrator = "ias15"
    v1 = sim.add_variation()
    v2 = sim.add_variation()
    v12 = sim.add_variation(order=2, first_order=v1, first_order_2=v2)
    sim.steps(2)
    return sim


def st_megno():
    sim = base()
    sim.integrator = "whfast"
    sim.init_megno()
    sim.steps(5)
    return sim


def st_tree():
    sim = rebound.Simulation()
    sim.configure_box(20.)
    sim.gravity = "tree"
    sim.collision = "tree"
    sim.collision_resolve = "hardsphere"
    sim.integrator = "leapfrog"
    sim.dt = 0.01
    for k in range(6):
        sim.add(m=1e-3, r=0.01, x=-3 + 1.1 * k, y=0.3 * k - 1, z=0.1 * k, vx=0.01 * k)
    sim.steps(3)
    return sim


def st_linetree():
    """line-tree collision search with direct gravity: the tree exists for the collision search only; two particles are about to touch"""
    sim = rebound.Simulation()
    sim.configure_box(20.)
    sim.gravity = "basic"
    sim.collision = "linetree"
    sim.collision_resolve = "hardsphere"
    sim.integrator = "leapfrog"
    sim.dt = 0.01
    for k in range(5):
        sim.add(m=1e-3, r=0.01, x=-3 + 1.1 * k, y=0.3 * k - 1, z=0.1 * k, vx=0.01 * k)
    sim.add(m=1e-3, r=0.02, x=4.0, y=3.0, z=0.0, vx=-1.0)
    sim.add(m=1e-3, r=0.02, x=3.9, y=3.0, z=0.0, vx=1.0)       # closing at 2 per unit time, gap 0.06: touch during the 3rd step from here
    sim.steps(1)
    return sim


def st_treecoll():
    """tree collision search with direct gravity, a collision pending"""
    sim = st_linetree.__wrapped__() if hasattr(st_linetree, "__wrapped__") else None
    sim = rebound.Simulation()
    sim.configure_box(20.)
    sim.gravity = "basic"
    sim.collision = "tree"
    sim.collision_resolve = "hardsphere"
    sim.integrator = "leapfrog"
    sim.dt = 0.01
    for k in range(5):
        sim.add(m=1e-3, r=0.01, x=-3 + 1.1 * k, y=0.3 * k - 1, z=0.1 * k, vx=0.01 * k)
    sim.add(m=1e-3, r=0.02, x=4.0, y=3.0, z=0.0, vx=-1.0)
    sim.add(m=1e-3, r=0.02, x=3.9, y=3.0, z=0.0, vx=1.0)
    sim.steps(1)
    return sim


def st_collided():
    sim = rebound.Simulation()
    sim.integrator = "ias15"
    sim.collision = "direct"
    sim.collision_resolve = "merge"
    sim.add(m=1.0, r=0.01)
    sim.add(m=1e-3, r=0.05, x=1.0, vy=1.0)
    sim.add(m=1e-3, r=0.05, x=1.12, vy=1.0, vx=-0.2)
    sim.move_to_com()
    sim.integrate(1.0)
    return sim


def st_testparticles():
    sim = base(4)
    sim.N_active = 2
    sim.testparticle_type = 1
    sim.integrator = "whfast"
    sim.steps(3)
    return sim


def st_rejected_bs():
    sim = base()
    sim.integrator = "bs"
    sim.dt = 5.0          # forces step rejections
    sim.steps(2)
    return sim


def st_display():
    sim = base()
    sim.integrator = "whfast"
    try:
        from ctypes import byref
        rebound.clibrebound.reb_simulation_add_display_settings(byref(sim))
    except Exception:
        pass
    sim.steps(2)
    return sim


STATES = [(f.__name__[3:], f) for f in [
    st_whfast_unsync, st_whfast_corr, st_whfast_dh, st_whfast_kernel, st_ias15, st_ias15_opts, st_mercurius,
    st_mercurius_unsync, st_trace, st_trace_peri, st_janus, st_saba, st_saba_keep, st_eos, st_bs, st_leapfrog,
    st_sei, st_variational, st_variational2, st_megno, st_tree, st_linetree, st_treecoll, st_collided, st_testparticles, st_rejected_bs,
    st_display]]


def make(name):
    with warnings.catch_warnings():
        warnings.simplefilter("ignore")
        return dict(STATES)[name]()
