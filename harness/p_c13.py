"""C13 -- collisions are detected completely and resolved conservatively.

 E1  TLC checks the resolve loop (Collisions.tla: pending list, removals sorted / swap / deferred,
     index fix-ups) for every overlap graph with <= 2-3 edges on <= 4-5 particles, every orientation
     set the searches can produce, EVERY order of the list and every resolver answer 0..3 (plus the
     built-in merge policy): pending entries keep naming the identities they were found with, no live
     pair is dropped, the array holds exactly the survivors (order kept when requested), nobody is
     handed to the resolver after removal, merge at most once per step.
 E4  CollisionGeom: TLC classifies ~20000 two-sphere lattice configurations in periodic boxes (cubic and non-cubic root-box layouts)
     (Required / Boundary) for the point and the line criterion; each is run through direct, tree,
     line and linetree searches.
 E3  hook traces of real reb_collision_search calls on clusters (chains, triangles, stars, nested
     index pairs, disjoint pairs) in all four search modes, keep_sorted on/off, random resolver
     answers, random shuffle seeds, built-in merge (exact totals on a lattice) and hard-sphere
     resolvers are validated by TLC against Trace_Collisions.
 E5  binding self-test.
"""
import json
import os
import re
import shutil

import common
from common import MachineryError

LEVEL = "model_checking"
HERE = os.path.dirname(os.path.abspath(__file__))
INVS = ["PendingTracksIdentity", "NoCollisionLost", "ExactlySurvivors", "CallsNameLive", "MergedAtMostOnce"]


def model(rep, tag, maxn, edges, orient, policy, timeout=3000):
    name = "gen_MC_Collisions_%s" % tag
    with open(os.path.join(common.SPEC, name + ".cfg"), "w") as fh:
        fh.write("SPECIFICATION Spec\nCONSTANTS\n  MaxN = %d\n  MaxEdges = %d\n  Orient = \"%s\"\n  Policy = \"%s\"\n" % (maxn, edges, orient, policy))
        fh.write("".join("INVARIANT %s\n" % i for i in INVS) + "CHECK_DEADLOCK FALSE\n")
    try:
        res = common.run_tlc("Collisions", name, timeout=timeout)
    finally:
        os.remove(os.path.join(common.SPEC, name + ".cfg"))
    if res.violation:
        rep.violation("model:%s:%s" % (tag, res.violation), "Collisions design violates %s (%s)" % (res.violation, tag), {"tlc_trace": res.trace[-8:]})
        return
    common.tlc_must_pass(res, "Collisions/" + tag, require_actions=["Skip"])
    rep.add(states=res.distinct, transitions=res.states)
    rep.cov.setdefault("models", []).append({"cfg": tag, "distinct": res.distinct, "wall_s": round(res.wall, 1)})


def validate(tracefile, policy, tag, verbose=False):
    name = "gen_Trace_Collisions_%s" % tag
    with open(os.path.join(common.SPEC, name + ".cfg"), "w") as fh:
        fh.write("SPECIFICATION TraceSpec\nCONSTANTS\n  MaxN = 100\n  MaxEdges = 100\n  Orient = \"both\"\n  Policy = \"%s\"\nCONSTRAINT Report\n" % policy)
        fh.write("".join("INVARIANT %s\n" % i for i in INVS + ["MassMomentumCOM", "BounceConservesAndSeparates"]) + "CHECK_DEADLOCK FALSE\n")
    env = {"TRACE_FILE": tracefile}
    if verbose:
        env["VERBOSE"] = "1"
    try:
        res = common.run_tlc("Trace_Collisions", name, workers=1, env=env, coverage=False, timeout=3000)
    finally:
        os.remove(os.path.join(common.SPEC, name + ".cfg"))
    acc = set(int(m) for m in re.findall(r'<<"ACC", (\d+)>>', res.out))
    return acc, res


def check_traces(rep, tracefile, policy, sc, expect_reject=False):
    n = sum(1 for _ in open(tracefile))
    if n == 0:
        return set(), 0, None
    acc, res = validate(tracefile, policy, policy)
    lines = open(tracefile).read().splitlines()
    if res.violation:
        st = "\n".join(res.trace[-1:])
        m = re.search(r"/\\ tid = (\d+)", st)
        tid = int(m.group(1)) if m else 0
        tr = json.loads(lines[tid - 1]) if tid else {}
        ml = re.search(r"/\\ l = (\d+)", st)
        ll = int(ml.group(1)) if ml else 0
        if not expect_reject:
            rep.violation("trace:%s:%s:%s:%s" % (policy, tr.get("shape"), tr.get("mode"), res.violation),
                          "clause %s violated in a recorded resolve loop: %s cluster, %s search, keep_sorted=%s, resolver %s, rand_seed %s, after call #%d"
                          % (res.violation, tr.get("shape"), tr.get("mode"), tr.get("ks"), tr.get("policy"), tr.get("rand_seed"), ll - 1),
                          {"clause": res.violation, "trace": tr, "tlc_state": res.trace[-1:]})
        return acc, n, res
    if not res.ok:
        raise MachineryError("trace validation did not complete: %s" % res.out[-2000:])
    if not expect_reject:
        for tid in range(1, n + 1):
            if tid in acc:
                continue
            f = os.path.join(sc, "one.ndjson")
            open(f, "w").write(lines[tid - 1] + "\n")
            a1, r1 = validate(f, policy, "one", verbose=True)
            at = [int(m) for m in re.findall(r'<<"AT", 1, (\d+)>>', r1.out)]
            k = max(at) if at else 1
            tr = json.loads(lines[tid - 1])
            e = tr["events"][k - 1] if k - 1 < len(tr["events"]) else None
            rep.violation("trace:%s:%s:%s:ks%s" % (policy, tr["shape"], tr["mode"], tr["ks"]),
                          "resolve loop deviates from Collisions: %s cluster, %s search, keep_sorted=%s, resolver %s, rand_seed %s: pending list %s, particles %s; first unexplained event #%d %s"
                          % (tr["shape"], tr["mode"], tr["ks"], tr["policy"], tr["rand_seed"], tr["pend"], tr["arr"], k, json.dumps(e)[:400]),
                          {"trace": tr, "unmatched_event": e})
            if len(rep.violations) >= 6:
                break
    return acc, n, res


def self_test(rep, tracefile, sc):
    good = None
    for ln in open(tracefile):
        tr = json.loads(ln)
        rs = [e for e in tr["events"] if e["e"] == "resolve"]
        if len(rs) >= 2 and any(e["out"] in (1, 2, 3) and e["pend"] for e in rs) and not tr["tree"]:
            good = tr
            break
    if good is None:
        raise MachineryError("self-test: no suitable trace")
    bads = []
    b = json.loads(json.dumps(good))
    e = next(e for e in b["events"] if e["e"] == "resolve" and e["out"] in (1, 2, 3) and e["pend"])
    e["pend"][0][1] += 1                       # a wrong index after the fix-up
    bads.append(b)
    b = json.loads(json.dumps(good))
    e = next(e for e in b["events"] if e["e"] == "resolve" and e["out"] in (1, 2, 3))
    e["arr"] = e["arr"] + [e["arr"][0]] if e["arr"] else [1]   # a duplicated particle
    bads.append(b)
    b = json.loads(json.dumps(good))
    del b["events"][0]                         # a resolver call that never happened
    bads.append(b)
    for kx, bad in enumerate(bads):
        g = os.path.join(sc, "st.ndjson")
        open(g, "w").write(json.dumps(bad) + "\n")
        acc, res = validate(g, "free", "st")
        if 1 in acc and not res.violation:
            raise MachineryError("binding self-test failed: corrupted trace #%d accepted" % (kx + 1))
    g = os.path.join(sc, "st.ndjson")
    open(g, "w").write(json.dumps(good) + "\n")
    acc, res = validate(g, "free", "st")
    if 1 not in acc:
        raise MachineryError("binding self-test: uncorrupted trace rejected: %s" % res.out[-800:])
    rep.cov["binding_self_test"] = "3 corrupted traces rejected (wrong fixed-up index, duplicated particle, missing resolver call), original accepted"


def run(tier, rep):
    common.build()
    sc = common.scratch("c13")
    quick = tier == "quick"
    # E1
    model(rep, "both2", 4, 2, "both", "free")
    model(rep, "once3", 4, 3, "once", "free")
    model(rep, "some2", 4, 2, "some", "free")
    if not quick:
        model(rep, "both3merge", 4, 3, "both", "merge")
        model(rep, "both2n5", 5, 2, "both", "free")
        model(rep, "once3n5", 5, 3, "once", "free")
    if rep.violations:
        return
    # E4 geometry oracle
    res = common.run_tlc("CollisionGeom", "CollisionGeom", workers=1, coverage=False, timeout=1800)
    if res.violation:
        rep.violation("model:CollisionGeom:" + res.violation, "geometry oracle inconsistent: " + res.violation, {})
        return
    if not res.ok:
        raise MachineryError("CollisionGeom did not complete: %s" % res.out[-1500:])
    gf = os.path.join(sc, "geom.txt")
    tuples = sorted(set(re.sub(r"\s+", "", m) for m in re.findall(r'<<\s*"G",[^>]*>>', res.out)))
    if len(tuples) < 20000:
        raise MachineryError("CollisionGeom printed only %d configurations" % len(tuples))
    open(gf, "w").write("\n".join(tuples) + "\n")
    go = os.path.join(sc, "geom_out.json")
    r = common.run_worker(os.path.join(HERE, "w_c13.py"), ["geom", gf, go, "7" if quick else "1"], timeout=3000)
    if r.returncode != 0:
        if r.returncode < 0:
            rep.violation("crash:geom", "real code crashed (signal %d) in a collision search" % -r.returncode, {"stderr": r.stderr[-1500:]})
            return
        raise MachineryError("geom worker failed: %s" % r.stderr[-2500:])
    g = json.load(open(go))
    rep.add(evaluations=g["checked"])
    rep.cov["detection_lattice"] = {"searches": g["checked"], "required": g["required"], "boundary": g["boundary"], "fly_throughs": g.get("fly_throughs"), "exhaustive": not quick}
    for s in g["samples"][:1]:
        rep.sample({"kind": "lattice detection", **s})
    for v in g["violations"]:
        rep.violation("detect:%s:%s" % (v["mode"], "missed" if v["required"] else "spurious"),
                      "%s search %s the pair in lattice configuration (x1,y1,z1,x2,y2,z2,vx,vy,vz,r1,r2,Lx,Ly,Lz,ghost_z)=%s (periodic box)"
                      % (v["mode"], "misses" if v["required"] else "reports (though it neither overlaps nor touches)", v["cfg"]), v)
    # sampled: polydisperse crowds, insertion order of the radii (the tree search's opening margin is the second largest radius)
    co = os.path.join(sc, "cluster_out.json")
    r = common.run_worker(os.path.join(HERE, "w_c13.py"), ["cluster", co, str(common.seed()), "12" if quick else "150"], timeout=3000)
    if r.returncode != 0:
        if r.returncode < 0:
            rep.violation("crash:cluster", "real code crashed (signal %d) in a collision search over a polydisperse crowd" % -r.returncode, {"stderr": r.stderr[-1500:]})
            return
        raise MachineryError("cluster worker failed: %s" % r.stderr[-2500:])
    cl = json.load(open(co))
    rep.add(evaluations=cl["trials"])
    rep.cov["polydisperse_crowds"] = {"searches": cl["trials"], "planted_pairs": cl["pairs"]}
    rep.cov["bounce_rows"] = cl.get("bounce_rows")
    for v in cl["violations"]:
        if v.get("bounce"):
            rep.violation("bounce:%s:%s" % (v["mode"], v["order"]), "hard-sphere resolve after a %s search, pair %s: %s" % (v["mode"], v["order"], v["bounce"]), v)
            continue
        rep.violation("crowd:%s:%s:%s" % (v["mode"], v["order"], "missed" if v["missed"] else "spurious"),
                      "%s search over a polydisperse crowd inserted in %s radius order: misses planted pairs %s (radii %s), reports unplanted pairs %s (seed %s, trial %s)"
                      % (v["mode"], v["order"], v["missed"], v["radii"], v["spurious"], v["seed"], v["trial"]), v)
    # E3 resolve-loop traces
    ff, fm = os.path.join(sc, "free.ndjson"), os.path.join(sc, "merge.ndjson")
    env = {common.GUARD: "1", "REBOUND_VERIF_TRACE": os.path.join(sc, "hook.txt")}
    ntr = 400 if quick else 4000
    r = common.run_worker(os.path.join(HERE, "w_c13.py"), ["loop", ff, fm, str(common.seed()), str(ntr)], env=env, timeout=3000)
    if r.returncode != 0:
        if r.returncode < 0:
            rep.violation("crash:loop", "real code crashed (signal %d) in the resolve loop" % -r.returncode, {"stderr": r.stderr[-1500:]})
            return
        raise MachineryError("loop worker failed: %s" % r.stderr[-2500:])
    if not os.path.getsize(os.path.join(sc, "hook.txt")):
        raise MachineryError("no hook output (hook layer not compiled in?)")
    tot = 0
    for f, pol in ((ff, "free"), (fm, "merge")):
        acc, n, res = check_traces(rep, f, pol, sc)
        tot += n
        if res is not None:
            rep.add(states=res.distinct, transitions=res.states)
        rep.cov.setdefault("loop_traces", {})[pol] = {"traces": n, "accepted": len(acc)}
    rep.add(traces_validated_against_impl=tot)
    tr = json.loads(open(ff).readline())
    rep.sample({"kind": "code->spec resolve loop", "shape": tr["shape"], "mode": tr["mode"], "ks": tr["ks"], "pending": tr["pend"],
                "first_event": tr["events"][0]})
    if not rep.violations:
        self_test(rep, ff, sc)
    rep.add(distinct_nontrivial=len(set((json.loads(l)["shape"], json.loads(l)["mode"], json.loads(l)["ks"], json.loads(l)["policy"], str(json.loads(l)["pend"]))
                                        for f in (ff, fm) for l in open(f))),
            rule="E3: one trace per reb_collision_search call on a cluster; distinct = (shape, search mode, keep_sorted, resolver, shuffled pending list); "
                 "E4: every lattice configuration of CollisionGeom x 4 search modes (quick: every 7th)",
            exhaustive=False)
    rep.assumptions += ["touching spheres / zero approach speed are don't-care (Boundary)", "merge accounting exact on a 1/8 lattice with unit masses",
                        "hard-sphere momentum/energy to 1e-11 relative (A5)", "radii are given when particles are added (max_radius bookkeeping)"]
    shutil.rmtree(sc, ignore_errors=True)


def replay(path):
    print(json.dumps(json.load(open(path)), indent=1)[:4000])
    return 0
