"""C06 cadence clause: Cadence.tla exhaustively + TLC-simulated behaviours replayed on real code."""
import glob
import json
import os

import common
from common import MachineryError

HERE = os.path.dirname(os.path.abspath(__file__))


def run(tier, rep, sc):
    res = common.run_tlc("Cadence", "MC_Cadence", timeout=900)
    if res.violation:
        rep.violation("model:Cadence:" + res.violation, "Cadence design violates " + res.violation, {"tlc_trace": res.trace[-10:]})
        return
    common.tlc_must_pass(res, "Cadence", require_actions=["Integrate", "AttachInterval", "AttachStep", "Manual", "Restart"])
    rep.add(states=res.distinct, transitions=res.states)
    # behaviours
    n = 150 if tier == "quick" else 1500
    d = os.path.join(sc, "cadsim")
    os.makedirs(d, exist_ok=True)
    sim = common.run_tlc("Cadence", "MC_Cadence", workers=1, simulate="file=%s/tr,num=%d" % (d, n), depth=9,
                         seed_=common.seed() + 11, coverage=False, timeout=900)
    files = sorted(glob.glob(os.path.join(d, "tr_*")))
    if not files:
        raise MachineryError("no simulated Cadence behaviours: %s" % sim.out[-1500:])
    behs = [common.parse_sim_trace(f) for f in files]
    behs = [b for b in behs if len(b) > 2]
    bf = os.path.join(sc, "cad_behaviours.json")
    json.dump(behs, open(bf, "w"))
    out = os.path.join(sc, "cad_out.json")
    r = common.run_worker(os.path.join(HERE, "w_c06_cad.py"), [bf, out, sc], timeout=1800)
    if r.returncode != 0:
        if r.returncode < 0:
            rep.violation("crash:cadence", "real code crashed replaying a Cadence behaviour", {"stderr": r.stderr[-2000:]})
            return
        raise MachineryError("cadence worker failed: %s" % r.stderr[-2500:])
    o = json.load(open(out))
    rep.add(traces_validated_against_impl=o["replayed"], evaluations=o["replayed"])
    rep.cov["cadence_replay"] = {"behaviours": o["replayed"], "actions": o["actions"]}
    for s in o["samples"][:1]:
        rep.sample({"kind": "spec->code Cadence behaviour", "actions": s})
    for v in o["violations"]:
        lastact = v["history"][-1][0]
        rep.violation("cadence:%s" % lastact, "real archive cadence differs from Cadence spec after %s: got %s want %s" % (
            v["history"], json.dumps(v["got"])[:300], json.dumps(v["want"])[:300]), v)
