"""Callback order of reb_simulation_step (spec/StepPipeline.tla).  usage: w_pipeline.py <out.ndjson> <seed> <tier>
Python callbacks (pre / additional forces / post / collision resolve) log what they see; the harness writes markers
around every step and turns the observations into the boolean fields Trace_StepPipeline demands."""
import ctypes
import itertools
import json
import random
import struct
import sys
import warnings

import rebound

warnings.simplefilter("ignore")
DELTA = 0.1       # shift applied by the pre callback (much larger than any drift within one step)


def bits(x):
    return struct.pack("d", x)


def digest(sim):
    return b"".join(bits(v) for p in sim.particles for v in (p.x, p.y, p.z, p.vx, p.vy, p.vz, p.m))


FAMILIES = [
    ("whfast", {}, True), ("whfast", {"safe_mode": 0}, True), ("whfast", {"coordinates": "democraticheliocentric", "safe_mode": 0}, True),
    ("whfast", {"coordinates": "whds"}, True), ("whfast", {"corrector": 11, "safe_mode": 0}, False), ("whfast", {"kernel": "lazy"}, False),
    ("saba", {}, False), ("saba", {"safe_mode": 0}, False), ("leapfrog", {}, True), ("sei", {}, True), ("ias15", {}, False), ("eos", {}, False), ("eos", {"safe_mode": 0}, False),
    ("bs", {}, False), ("mercurius", {}, False), ("mercurius", {"safe_mode": 0}, False), ("mercurius-enc", {}, False), ("trace", {}, False), ("janus", {}, False),
]


def synced(sim, fam):
    if fam == "whfast":
        return bool(sim.ri_whfast.is_synchronized)
    if fam == "saba":
        return bool(sim.ri_saba.is_synchronized)
    if fam.startswith("mercurius"):
        return bool(sim.ri_mercurius.is_synchronized)
    if fam == "eos":
        return bool(sim.ri_eos.is_synchronized)
    return True


def build(fam, opts, rng, with_coll):
    sim = rebound.Simulation()
    sim.add(m=1.0)
    sim.add(m=1e-4, a=1.0, e=0.05, f=rng.uniform(0, 6))
    sim.add(m=2e-4, a=1.9, e=0.02, f=rng.uniform(0, 6))
    if fam == "mercurius-enc":
        # a third planet next to the first: inside the changeover region from the start
        p1 = sim.particles[1]
        sim.add(m=1e-4, x=p1.x + 0.004, y=p1.y, z=p1.z + 0.001, vx=p1.vx, vy=p1.vy * 1.001, vz=p1.vz)
    if with_coll:
        # two small overlapping, approaching bodies far outside
        sim.add(m=1e-9, r=0.05, x=9.0, y=0.0, vx=0.0, vy=0.33)
        sim.add(m=1e-9, r=0.05, x=9.06, y=0.0, vx=-0.01, vy=0.33)
        sim.collision = "direct"
    sim.move_to_com()
    integ = "mercurius" if fam == "mercurius-enc" else fam
    sim.integrator = integ
    sim.dt = 1e-3
    if fam == "janus":
        sim.ri_janus.scale_pos = 1e-16
        sim.ri_janus.scale_vel = 1e-16
    if fam == "sei":
        sim.ri_sei.OMEGA = 1.0
    sub = {"whfast": sim.ri_whfast, "saba": sim.ri_saba, "mercurius": sim.ri_mercurius, "eos": sim.ri_eos}.get(integ)
    for k, v in opts.items():
        setattr(sub, k, v)
    return sim


def run_one(fam, opts, single, has, rng, nsteps):
    with_coll = has["coll"] and fam not in ("mercurius", "mercurius-enc", "trace", "janus", "sei")
    has = dict(has, coll=with_coll)
    sim = build(fam, opts, rng, with_coll)
    log = []
    st = {}

    def mode():
        return bool(sim.ri_mercurius.mode) if fam.startswith("mercurius") else (sim.ri_trace._mode in (1, 3) if fam == "trace" else False)

    def pre(sp):
        log.append({"ev": "pre", "t": sim.t, "sync": synced(sim, fam), "dig": digest(sim) == st["dig0"], "steps": sim.steps_done})
        sim.particles[2].x += DELTA
        if fam == "janus":
            sim.ri_janus.recalculate_integer_coordinates_this_timestep = 1     # documented requirement after changing particles

    def af(sp):
        log.append({"ev": "af", "t": sim.t, "x2": sim.particles[2].x, "steps": sim.steps_done, "inner": mode()})

    def post(sp):
        inner = mode()
        e = {"ev": "post", "t": sim.t, "sync": synced(sim, fam), "steps": sim.steps_done, "inner": inner}
        if not inner:
            sim.particles[1].vy += 1e-7
            st["vy1"] = sim.particles[1].vy
            if fam == "janus":
                sim.ri_janus.recalculate_integer_coordinates_this_timestep = 1
        log.append(e)

    def coll(sp, c):
        log.append({"ev": "coll", "t": sim.t, "vy1": sim.particles[1].vy, "inner": mode()})
        return 0
    if has["pre"]:
        sim.pre_timestep_modifications = pre
    if has["af"]:
        sim.additional_forces = af
    if has["post"]:
        sim.post_timestep_modifications = post
    if with_coll:
        sim.collision_resolve = coll
    events = []
    for _ in range(nsteps):
        st.clear()
        st.update({"dig0": digest(sim), "t0": sim.t, "steps0": sim.steps_done, "x2": sim.particles[2].x, "sync0": synced(sim, fam)})
        del log[:]
        sim.step()
        t1 = sim.t
        events.append({"ev": "begin", "sync0": st["sync0"]})
        seen_pre = False
        for e in log:
            if e["ev"] == "pre":
                seen_pre = True
                events.append({"ev": "pre", "t_is_begin": e["t"] == st["t0"], "sync": e["sync"], "state_is_begin": e["dig"] or not st["sync0"] or fam == "janus", "steps_same": e["steps"] == st["steps0"]})
            elif e["ev"] == "af":
                sees = (abs(e["x2"] - st["x2"] - DELTA) < DELTA / 4) if has["pre"] else (abs(e["x2"] - st["x2"]) < DELTA / 4)
                events.append({"ev": "af", "inner": e["inner"], "before_pre": has["pre"] and not seen_pre, "sync0": st["sync0"], "sees_pre": sees, "steps_same": e["steps"] == st["steps0"], "num": [e["x2"], st["x2"]]})
            elif e["ev"] == "post":
                events.append({"ev": "post", "inner": e["inner"], "t_is_end": e["t"] == t1, "sync": e["sync"], "steps_same": e["steps"] == st["steps0"]})
            else:
                events.append({"ev": "coll", "inner": e["inner"], "t_is_end": e["t"] == t1, "sees_post": (e["vy1"] == st["vy1"]) if "vy1" in st else True})
        events.append({"ev": "end", "steps_plus_one": sim.steps_done == st["steps0"] + 1, "post_kept": (sim.particles[1].vy == st["vy1"]) if "vy1" in st else True})
    return {"cfg": {"fam": fam, "opts": opts}, "has": has, "single": single, "events": events}


def main():
    out, seed, tier = sys.argv[1], int(sys.argv[2]), sys.argv[3]
    rng = random.Random(seed)
    combos = [dict(zip(("pre", "af", "post", "coll"), c)) for c in itertools.product((False, True), repeat=4)]
    with open(out, "w") as fh:
        for i, (fam, opts, single) in enumerate(FAMILIES):
            chosen = combos if tier != "quick" else [combos[15], combos[(i + seed) % 15], combos[(3 * i + 7 + seed) % 15]]
            for has in chosen:
                fh.write(json.dumps(run_one(fam, opts, single, has, rng, 3)) + "\n")


if __name__ == "__main__":
    main()
