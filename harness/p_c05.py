"""C05 -- a saved simulation restores bit-for-bit and continues bit-for-bit.

 E1/E4  TLC enumerates the lattice of valid option combinations (Lattice.tla: 11 integrators x
     their options x gravity x test-particle type x variational order; 1988 points) and checks the
     lattice's own theorems.
 E2+E3  every point (thorough: x 4 restore routes; quick: seeded sample) is built as a real
     simulation, advanced to a save point (incl. unsynchronised states, after a removal), reproduced
     through pickle / file / archive index / archive getSimulation, re-saved, and original and
     restored are stepped 17 times in lock step.  The resulting Stream-shaped traces are validated
     by TLC against Trace_Stream: objects holding the same term must have bit-identical persisted
     content after every action, and must compare equal.
 E4  persistence audit: the descriptor-table audit of C17 plus every scalar member of the
     integrator structs in src/rebound.h that is NOT in the descriptor table: is it influential?
"""
import json
import os
import random
import re
import shutil
from concurrent.futures import ThreadPoolExecutor

import common
import p_c17
import p_c06
from common import MachineryError

LEVEL = "model_checking"
HERE = os.path.dirname(os.path.abspath(__file__))
ROUTES = ["pickle", "file", "archive", "getsim"]


def lattice(rep):
    res = common.run_tlc("Lattice", "MC_Lattice", workers=1, coverage=False, timeout=900)
    if res.violation:
        rep.violation("model:Lattice:" + res.violation, "Lattice violates " + res.violation, {})
        return []
    if not res.ok:
        raise MachineryError("Lattice did not complete: %s" % "\n".join(res.errors[:2]))
    pts = []
    seen = set()
    for m in re.finditer(r'<<"PT", "((?:[^"\\]|\\.)*)">>', res.out):
        s = m.group(1).encode().decode("unicode_escape")
        if s not in seen:
            seen.add(s)
            pts.append(json.loads(s))
    rep.add(states=res.distinct, transitions=res.states)
    if len(pts) < 500:
        raise MachineryError("lattice enumeration returned only %d points" % len(pts))
    return pts


def scan(rep, sc, lf, tier):
    out = os.path.join(sc, "scan.json")
    r = common.run_worker(os.path.join(HERE, "w_c05scan.py"), [out, str(common.seed()), tier, lf], timeout=3000)
    if r.returncode != 0:
        if r.returncode < 0:
            rep.violation("crash:scan", "real code crashed (signal %d) in the save-point scan of the adaptive schemes" % -r.returncode, {"stderr": r.stderr[-1500:]})
            return
        raise MachineryError("w_c05scan failed: %s" % r.stderr[-2000:])
    res = json.load(open(out))
    n = 0
    for e in res:
        n += e["savepoints"]
        # a class of its own: with a tree in use the particle ORDER of a restored run differs from the uninterrupted one.  The tree update moves a
        # particle that left its cell (or waits for removal) to the end of the array; the restored simulation starts from a freshly built tree in
        # which nobody has left a cell.  Same particles, same bits per particle, different indices.
        usetree = e["cfg"].get("coll") in ("tree", "linetree") or e["cfg"].get("grav") == "tree"
        cls = [b for b in e["bad"] if (b.get("order_only") or b.get("same_particles_to_rounding")) and usetree]
        if cls:
            rep.violation("scan:tree-order:%s" % e["cfg"].get("coll"),
                          "run %s with a tree, saved after step %d (route %s): the restored run holds the same particles in a different order than the uninterrupted run (bit for bit the same without gravity, to rounding with it: the order of summation changes)"
                          % (json.dumps(e["cfg"]), cls[0]["k"] + 1, cls[0]["route"]), e)
        rest = [b for b in e["bad"] if b not in cls]
        if rest:
            b = rest[0]
            rep.violation("scan:%s:%s" % (e["cfg"]["integ"], b.get("route")),
                          "adaptive run %s: %d of %d save points do not continue bit for bit like the uninterrupted run (first: saved after step %d, route %s, differs %s)"
                          % (json.dumps(e["cfg"]), len(rest), e["savepoints"], b["k"] + 1, b.get("route"), ("after %d more steps" % b["after"]) if "after" in b else b.get("what")), e)
    rep.add(evaluations=n, traces_validated_against_impl=len(res))
    rep.cov["savepoint_scan"] = {"configurations": len(res), "save_points": n}


def run(tier, rep):
    common.build()
    sc = common.scratch("c05")
    quick = tier == "quick"
    lf, lay = p_c17.get_layout(sc)
    pts = lattice(rep)
    rng = random.Random(common.seed() + 5)
    jobs = []
    if quick:
        # every integrator is represented; sample within
        by = {}
        for p in pts:
            by.setdefault(p["integ"], []).append(p)
        for integ, ps in sorted(by.items()):
            rng.shuffle(ps)
            for p in ps[:60 if integ in ("whfast", "saba", "eos") else 25]:
                jobs.append((p, rng.choice(ROUTES)))
    else:
        for p in pts:
            for r in ROUTES:
                jobs.append((p, r))
    rep.cov["lattice_points"] = len(pts)
    rep.cov["experiments"] = len(jobs)
    nchunks = common.NCPU
    chunks = [jobs[i::nchunks] for i in range(nchunks)]

    def do(i):
        jf = os.path.join(sc, "pts_%d.json" % i)
        of = os.path.join(sc, "out_%d.ndjson" % i)
        d = os.path.join(sc, "w%d" % i)
        os.makedirs(d, exist_ok=True)
        of = os.path.join(d, "out.ndjson")
        json.dump(chunks[i], open(jf, "w"))
        r = common.run_worker(os.path.join(HERE, "w_c05.py"), [jf, of, lf, str(common.seed() * 31 + i)], timeout=3000)
        return i, r, of
    traces = os.path.join(sc, "traces.ndjson")
    with ThreadPoolExecutor(max_workers=nchunks) as ex:
        results = list(ex.map(do, range(nchunks)))
    with open(traces, "w") as fh:
        for i, r, of in results:
            if r.returncode != 0:
                if r.returncode < 0:
                    done = sum(1 for _ in open(of)) if os.path.exists(of) else 0
                    pt = chunks[i][done] if done < len(chunks[i]) else None
                    rep.violation("crash:%s" % (pt[0]["integ"] if pt else "?"), "real code crashed (signal %d) at lattice point %s" % (-r.returncode, json.dumps(pt)), {"point": pt, "stderr": r.stderr[-2500:]})
                else:
                    raise MachineryError("w_c05 failed: %s" % r.stderr[-2000:])
            if os.path.exists(of):
                fh.write(open(of).read())
    lines = open(traces).read().splitlines()
    tcfg = "gen_Trace_Stream_c05_%d" % os.getpid()
    with open(os.path.join(common.SPEC, tcfg + ".cfg"), "w") as fh:
        fh.write('SPECIFICATION TraceSpec\nCONSTANTS\n Objs = {"A", "B", "C"}\n First = "A"\n Fields = {"G"}\n WallFields = {}\n'
                 ' Routes = {"copy", "pickle", "file", "archive", "getsim"}\n MaxTerms = 1000\n MaxDepth = 1000\nCONSTRAINT Report\nCHECK_DEADLOCK FALSE\n')
    res = common.run_tlc("Trace_Stream", tcfg, workers=1, env={"TRACE_FILE": traces}, coverage=False, timeout=3000)
    os.remove(os.path.join(common.SPEC, tcfg + ".cfg"))
    if not res.ok and not res.violation:
        raise MachineryError("Trace_Stream did not complete: %s" % "\n".join(res.errors[:2])[:1500])
    acc = set(int(m) for m in re.findall(r'<<"ACC", (\d+)>>', res.out))
    rep.add(traces_validated_against_impl=len(lines), evaluations=len(lines), states=res.distinct, transitions=res.states)
    kinds = set()
    for tid, ln in enumerate(lines, 1):
        tr = json.loads(ln)
        kinds.add(json.dumps(tr["point"], sort_keys=True))
        if tid <= 2:
            rep.sample({"point": tr["point"], "route": tr["route"], "savept": tr["savept"], "n_events": len(tr["events"])})
        if tid in acc:
            continue
        why, k = p_c17.explain(tr["events"])
        pt = tr["point"]
        key = "point:%s:%s:%s" % (pt["integ"], tr["route"], why.split(":")[0])
        rep.violation(key, "lattice point %s, route %s, save point %s: %s (event %d of %d)" % (json.dumps(pt), tr["route"], tr["savept"], why, k, len(tr["events"])),
                      {"point": pt, "route": tr["route"], "savept": tr["savept"], "why": why, "event": k})
    # every step of an adaptive run is a save point (states right behind rejected steps included)
    scan(rep, sc, lf, tier)
    # persistence audit over the descriptor table (shared with C17)
    p_c17.audit(rep, sc, lf)
    # the default route Simulation(filename) / sa[-1] on an archive longer than the reader's initial index (1024 snapshots)
    p_c06.long_archive(rep, sc)
    import p_c05_audit
    p_c05_audit.run(rep, sc, lf, quick)
    rep.add(distinct_nontrivial=len(kinds),
            rule="one experiment = (lattice point, restore route, seeded save point); distinct_nontrivial = distinct lattice points executed",
            exhaustive=not quick)
    rep.assumptions += ["callbacks re-attached by the harness", "three fixed few-body systems; the lattice is exhaustive over options, not over initial conditions"]
    shutil.rmtree(sc, ignore_errors=True)
