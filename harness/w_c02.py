"""C02 worker: extracts the implementation's term matrix by unit-mass probing and compares it with Gravity.tla's sets.

 usage: w_c02.py <table.ndjson> <out.json> <stride>
"""
import ctypes
import itertools
import json
import math
import sys
import warnings

import rebound
from rebound import clibrebound

warnings.simplefilter("ignore")


def pos(i):
    # integer lattice, pairwise distinct separations
    return (float(i * i + 1), float((3 * i) % 7 + 0.5 * (i % 2)), float((5 * i) % 4 - 1))


def kernel(dx, dy, dz, s2):
    r2 = dx * dx + dy * dy + dz * dz + s2
    r = math.sqrt(r2)
    f = -1.0 / (r2 * r)
    return (f * dx, f * dy, f * dz)


def rel_ok(got, want, tol=1e-12):
    scale = max(abs(w) for w in want) or 1.0
    return all(abs(g - w) <= tol * scale for g, w in zip(got, want))


def make(n, routine, na, ty, ig, soft, box=None):
    sim = rebound.Simulation()
    sim.G = 1.0
    sim.softening = soft
    if box:
        sim.configure_box(box[0], box[1], box[2], box[3])
        sim.boundary = "periodic"
        sim.N_ghost_x = sim.N_ghost_y = sim.N_ghost_z = 1
    elif routine == "tree":
        sim.configure_box(256.0)
    sim.gravity = routine             # before adding: particles enter the tree when they are added
    for i in range(n):
        x, y, z = pos(i)
        if box:
            x, y, z = (x % 5) - 2.0, (y % 5) - 2.2, (z * 1.5) % 6 - 3.0
        sim.add(m=0.0, x=x, y=y, z=z)
    sim.N_active = na
    sim.testparticle_type = ty
    sim.testparticle_hidewarnings = 1
    sim.gravity_ignore = ig
    if routine == "tree":
        sim.opening_angle2 = 0.0
        clibrebound.reb_simulation_update_tree(ctypes.byref(sim))
    return sim


def accel(sim, routine):
    if routine == "tree":
        clibrebound.reb_simulation_update_tree(ctypes.byref(sim))
        clibrebound.reb_simulation_update_tree_gravity_data(ctypes.byref(sim))
    clibrebound.reb_simulation_update_acceleration(ctypes.byref(sim))
    return [(p.ax, p.ay, p.az) for p in sim.particles]


def images(sim):
    if sim.N_ghost_x == 0:
        return [(0.0, 0.0, 0.0)]
    b = sim.boxsize
    return [(gx * b.x, gy * b.y, gz * b.z) for gx in (-1, 0, 1) for gy in (-1, 0, 1) for gz in (-1, 0, 1)]


def probe(res, cfg, acts, routine, soft, box=None):
    n, na, ty, ig = cfg["n"], cfg["na"], cfg["type"], cfg["ign"]
    sim = make(n, routine, na, ty, ig, soft, box)
    A = set(map(tuple, acts))
    s2 = soft * soft
    for j in range(n):
        for k in range(n):
            sim.particles[k].m = 1.0 if k == j else 0.0
        acc = accel(sim, routine)
        res["probes"] += 1
        for i in range(n):
            if (i, j) in A:
                want = [0.0, 0.0, 0.0]
                for gb in images(sim):
                    kx = kernel(gb[0] + sim.particles[i].x - sim.particles[j].x, gb[1] + sim.particles[i].y - sim.particles[j].y,
                                gb[2] + sim.particles[i].z - sim.particles[j].z, s2)
                    want = [want[0] + kx[0], want[1] + kx[1], want[2] + kx[2]]
                ok = rel_ok(acc[i], want)
            else:
                want = [0.0, 0.0, 0.0]
                ok = acc[i] == (0.0, 0.0, 0.0)
            if not ok and len(res["violations"]) < 30:
                res["violations"].append({"routine": routine, "cfg": cfg, "softening": soft, "box": box, "source": j, "target": i,
                                          "in_specified_set": (i, j) in A, "got": acc[i], "want": want})
    # all active: mass-weighted accelerations cancel (Newton's third law), sampled with distinct masses
    if (na == -1 or na == n) and n >= 2 and ig == 0:
        for k in range(n):
            sim.particles[k].m = float(1 + (k * 7) % 5)
        acc = accel(sim, routine)
        tot = [sum(sim.particles[k].m * acc[k][c] for k in range(n)) for c in range(3)]
        mag = max(max(abs(sim.particles[k].m * acc[k][c]) for k in range(n)) for c in range(3)) or 1.0
        if max(abs(t) for t in tot) > 1e-12 * mag and len(res["violations"]) < 30:
            res["violations"].append({"routine": routine, "cfg": cfg, "box": box, "clause": "mass-weighted accelerations sum to zero", "sum": tot, "scale": mag})


def DC(k):
    return ((k * 5) % 7 + 1) / 16.0      # per-body critical radius, not monotonic in the index


LFN = ctypes.CFUNCTYPE(ctypes.c_double, ctypes.POINTER(rebound.Simulation), ctypes.c_double, ctypes.c_double)


def merc_probe(res, cfg, merc0, mode):
    """MERCURIUS weights: custom switching function L(d, dcrit) = dcrit, per-particle dcrit = (k+1)/16, so the weight of a pair
    reveals which critical radius the routine used; mode 1 runs over an encounter map that is not the identity."""
    n, na, ty = cfg["n"], cfg["na"], cfg["type"]
    if n < 2:
        return
    sim = rebound.Simulation()
    sim.G = 1.0
    sim.add(m=1.0)
    for i in range(1, n):
        x, y, z = pos(i)
        sim.add(m=1e-3, x=x, y=y, z=z, vy=0.1)
    sim.N_active = na
    sim.testparticle_type = ty
    sim.testparticle_hidewarnings = 1
    sim.integrator = "mercurius"
    sim.dt = 1e-6
    sim.step()                       # allocates dcrit, encounter map
    sim.synchronize()
    rim = sim.ri_mercurius
    keep = LFN(lambda s, d, dc: dc)
    rim._L = keep
    for k in range(n):
        rim._dcrit[k] = DC(k)
    sim.particles[0].x = sim.particles[0].y = sim.particles[0].z = 0.0
    for i in range(1, n):
        x, y, z = pos(i)
        p = sim.particles[i]
        p.x, p.y, p.z = x, y, z
    sim.gravity = "mercurius"
    S0 = set(map(tuple, merc0))
    Na = n if na == -1 else na
    if mode == 0:
        rim.mode = 0
        for j in range(n):
            for k in range(n):
                sim.particles[k].m = 1.0 if k == j else 0.0
            clibrebound.reb_simulation_update_acceleration(ctypes.byref(sim))
            res["probes"] += 1
            for i in range(n):
                got = (sim.particles[i].ax, sim.particles[i].ay, sim.particles[i].az)
                if (i, j) in S0:
                    w = max(DC(i), DC(j))
                    k3 = kernel(sim.particles[i].x - sim.particles[j].x, sim.particles[i].y - sim.particles[j].y, sim.particles[i].z - sim.particles[j].z, 0.0)
                    want = [w * c for c in k3]
                    ok = rel_ok(got, want)
                else:
                    want = [0.0, 0.0, 0.0]
                    ok = got == (0.0, 0.0, 0.0)
                if not ok and len(res["violations"]) < 30:
                    res["violations"].append({"routine": "mercurius mode 0", "cfg": cfg, "source": j, "target": i, "in_specified_set": (i, j) in S0, "got": got, "want": want,
                                              "clause": "weight L(max(dcrit_i, dcrit_j)) on planet pairs, nothing else"})
    else:
        # encounter list: star + every second body (+ all test particles); positions in the list differ from particle indices
        act = [k for k in range(1, Na) if k % 2 == 0 or k == Na - 1]
        tps = [k for k in range(max(Na, 1), n)]
        emap = [0] + act + tps
        if len(emap) < 2:
            return
        rim.mode = 1
        rim._encounter_N = len(emap)
        rim._encounter_N_active = 1 + len(act)
        for q, k in enumerate(emap):
            rim._encounter_map[q] = k
        for j in emap:
            for k in range(n):
                sim.particles[k].m = 1.0 if k == j else 0.0
                sim.particles[k].ax = sim.particles[k].ay = sim.particles[k].az = 0.0
            clibrebound.reb_simulation_update_acceleration(ctypes.byref(sim))
            res["probes"] += 1
            for i in emap:
                if i == 0:
                    continue
                got = (sim.particles[i].ax, sim.particles[i].ay, sim.particles[i].az)
                k3 = kernel(sim.particles[i].x - sim.particles[j].x, sim.particles[i].y - sim.particles[j].y, sim.particles[i].z - sim.particles[j].z, 0.0) if i != j else (0, 0, 0)
                if j == 0:
                    want = list(k3)                                   # the star, full weight
                elif (i, j) in S0 and i != j:
                    w = 1.0 - max(DC(i), DC(j))     # complementary weight with the SAME critical radius
                    want = [w * c for c in k3]
                else:
                    want = [0.0, 0.0, 0.0]
                if not rel_ok(got, want) and len(res["violations"]) < 30:
                    res["violations"].append({"routine": "mercurius mode 1", "cfg": cfg, "encounter_map": emap, "source": j, "target": i, "got": got, "want": want,
                                              "clause": "star term with full weight; planet pairs with weight 1 - L(max(dcrit_i, dcrit_j)) (the two modes add up to the Newtonian pair force)"})
    rim._L = ctypes.cast(clibrebound.reb_integrator_mercurius_L_mercury, type(rim._L))
    del sim
    return keep


def main():
    table, out, stride = sys.argv[1], sys.argv[2], int(sys.argv[3])
    res = {"cfgs": 0, "probes": 0, "violations": [], "samples": []}
    for k, ln in enumerate(open(table)):
        row = json.loads(ln)
        cfg = row["cfg"]
        if cfg["n"] < 1 or (k % stride and cfg["n"] > 3):
            continue
        res["cfgs"] += 1
        for routine in ("basic", "compensated"):
            probe(res, cfg, row["acts"], routine, 0.0)
        if cfg["n"] >= 3 and cfg["ign"] == 0:
            probe(res, cfg, row["acts"], "basic", 0.75)                     # softening
            probe(res, cfg, row["acts"], "basic", 0.0, (8.0, 1, 1, 2))      # ghost images, non-cubic box
        if cfg["na"] in (-1, cfg["n"]) and cfg["ign"] == 0 and cfg["type"] == 0 and cfg["n"] >= 2:
            probe(res, cfg, row["acts"], "tree", 0.0)
            probe(res, cfg, row["acts"], "tree", 0.75)
            if cfg["n"] >= 3:
                probe(res, cfg, row["acts"], "tree", 0.0, (8.0, 1, 1, 2))
        if cfg["ign"] == 0 and cfg["n"] >= 3 and (cfg["na"] == -1 or cfg["na"] >= 1):
            merc_probe(res, cfg, row["merc0"], 0)
            merc_probe(res, cfg, row["merc0"], 1)
        if len(res["samples"]) < 2 and cfg["n"] == 4 and cfg["na"] == 2:
            res["samples"].append({"cfg": cfg, "specified_acts": row["acts"]})
    json.dump(res, open(out, "w"))


if __name__ == "__main__":
    main()
