"""C02 worker: extracts the implementation's term matrix by unit-mass probing and compares it with Gravity.tla's sets.

 usage: w_c02.py <table.ndjson> <out.json> <stride>
"""
import ctypes
import itertools
import json
import math
import sys
import warnings

import rebound
from rebound import clibrebound

warnings.simplefilter("ignore")


def pos(i):
    # integer lattice, pairwise distinct separations
    return (float(i * i + 1), float((3 * i) % 7 + 0.5 * (i % 2)), float((5 * i) % 4 - 1))


def kernel(dx, dy, dz, s2):
    r2 = dx * dx + dy * dy + dz * dz + s2
    r = math.sqrt(r2)
    f = -1.0 / (r2 * r)
    return (f * dx, f * dy, f * dz)


def rel_ok(got, want, tol=1e-12):
    scale = max(abs(w) for w in want) or 1.0
    return all(abs(g - w) <= tol * scale for g, w in zip(got, want))


def make(n, routine, na, ty, ig, soft, box=None, G=1.0):
    sim = rebound.Simulation()
    sim.G = G
    sim.softening = soft
    if box:
        sim.configure_box(box[0], box[1], box[2], box[3])
        sim.boundary = "periodic"
        sim.N_ghost_x = sim.N_ghost_y = sim.N_ghost_z = 1
    elif routine == "tree":
        sim.configure_box(256.0)
    sim.gravity = routine             # before adding: particles enter the tree when they are added
    for i in range(n):
        x, y, z = pos(i)
        if box:
            x, y, z = (x % 5) - 2.0, (y % 5) - 2.2, (z * 1.5) % 6 - 3.0
        sim.add(m=0.0, x=x, y=y, z=z)
    sim.N_active = na
    sim.testparticle_type = ty
    sim.testparticle_hidewarnings = 1
    sim.gravity_ignore = ig
    if routine == "tree":
        sim.opening_angle2 = 0.0
        clibrebound.reb_simulation_update_tree(ctypes.byref(sim))
    return sim


def accel(sim, routine):
    if routine == "tree":
        clibrebound.reb_simulation_update_tree(ctypes.byref(sim))
        clibrebound.reb_simulation_update_tree_gravity_data(ctypes.byref(sim))
    clibrebound.reb_simulation_update_acceleration(ctypes.byref(sim))
    return [(p.ax, p.ay, p.az) for p in sim.particles]


def images(sim):
    if sim.N_ghost_x == 0:
        return [(0.0, 0.0, 0.0)]
    b = sim.boxsize
    return [(gx * b.x, gy * b.y, gz * b.z) for gx in (-1, 0, 1) for gy in (-1, 0, 1) for gz in (-1, 0, 1)]


def probe(res, cfg, acts, routine, soft, box=None, G=1.0):
    n, na, ty, ig = cfg["n"], cfg["na"], cfg["type"], cfg["ign"]
    sim = make(n, routine, na, ty, ig, soft, box, G)
    A = set(map(tuple, acts))
    s2 = soft * soft
    for j in range(n):
        for k in range(n):
            sim.particles[k].m = 1.0 if k == j else 0.0
        acc = accel(sim, routine)
        res["probes"] += 1
        for i in range(n):
            if (i, j) in A:
                want = [0.0, 0.0, 0.0]
                for gb in images(sim):
                    kx = kernel(gb[0] + sim.particles[i].x - sim.particles[j].x, gb[1] + sim.particles[i].y - sim.particles[j].y,
                                gb[2] + sim.particles[i].z - sim.particles[j].z, s2)
                    want = [want[0] + G * kx[0], want[1] + G * kx[1], want[2] + G * kx[2]]
                ok = rel_ok(acc[i], want)
            else:
                want = [0.0, 0.0, 0.0]
                ok = acc[i] == (0.0, 0.0, 0.0)
            if not ok and len(res["violations"]) < 30:
                res["violations"].append({"routine": routine + ("" if G == 1.0 else " (G = %g)" % G), "cfg": cfg, "softening": soft, "box": box, "source": j, "target": i,
                                          "in_specified_set": (i, j) in A, "got": acc[i], "want": want})
    # all active: mass-weighted accelerations cancel (Newton's third law), sampled with distinct masses
    if (na == -1 or na == n) and n >= 2 and ig == 0:
        for k in range(n):
            sim.particles[k].m = float(1 + (k * 7) % 5)
        acc = accel(sim, routine)
        tot = [sum(sim.particles[k].m * acc[k][c] for k in range(n)) for c in range(3)]
        mag = max(max(abs(sim.particles[k].m * acc[k][c]) for k in range(n)) for c in range(3)) or 1.0
        if max(abs(t) for t in tot) > 1e-12 * mag and len(res["violations"]) < 30:
            res["violations"].append({"routine": routine, "cfg": cfg, "box": box, "clause": "mass-weighted accelerations sum to zero", "sum": tot, "scale": mag})


def DC(k):
    return ((k * 5) % 7 + 1) / 16.0      # per-body critical radius, not monotonic in the index


LFN = ctypes.CFUNCTYPE(ctypes.c_double, ctypes.POINTER(rebound.Simulation), ctypes.c_double, ctypes.c_double)


def merc_probe(res, cfg, merc0, mode):
    """MERCURIUS weights: custom switching function L(d, dcrit) = dcrit, per-particle dcrit = (k+1)/16, so the weight of a pair
    reveals which critical radius the routine used; mode 1 runs over an encounter map that is not the identity."""
    n, na, ty = cfg["n"], cfg["na"], cfg["type"]
    if n < 2:
        return
    sim = rebound.Simulation()
    GG = 2.0 if (n + (0 if na == -1 else na)) % 2 else 1.0       # the constant of gravity enters every term once
    sim.G = GG
    sim.add(m=1.0)
    for i in range(1, n):
        x, y, z = pos(i)
        sim.add(m=1e-3, x=x, y=y, z=z, vy=0.1)
    sim.N_active = na
    sim.testparticle_type = ty
    sim.testparticle_hidewarnings = 1
    sim.integrator = "mercurius"
    sim.dt = 1e-6
    sim.step()                       # allocates dcrit, encounter map
    sim.synchronize()
    rim = sim.ri_mercurius
    keep = LFN(lambda s, d, dc: dc)
    rim._L = keep
    for k in range(n):
        rim._dcrit[k] = DC(k)
    sim.particles[0].x = sim.particles[0].y = sim.particles[0].z = 0.0
    for i in range(1, n):
        x, y, z = pos(i)
        p = sim.particles[i]
        p.x, p.y, p.z = x, y, z
    sim.gravity = "mercurius"
    S0 = set(map(tuple, merc0))
    Na = n if na == -1 else na
    if mode == 0:
        rim.mode = 0
        for j in range(n):
            for k in range(n):
                sim.particles[k].m = 1.0 if k == j else 0.0
            clibrebound.reb_simulation_update_acceleration(ctypes.byref(sim))
            res["probes"] += 1
            for i in range(n):
                got = (sim.particles[i].ax, sim.particles[i].ay, sim.particles[i].az)
                if (i, j) in S0:
                    w = max(DC(i), DC(j))
                    k3 = kernel(sim.particles[i].x - sim.particles[j].x, sim.particles[i].y - sim.particles[j].y, sim.particles[i].z - sim.particles[j].z, 0.0)
                    want = [GG * w * c for c in k3]
                    ok = rel_ok(got, want)
                else:
                    want = [0.0, 0.0, 0.0]
                    ok = got == (0.0, 0.0, 0.0)
                if not ok and len(res["violations"]) < 30:
                    res["violations"].append({"routine": "mercurius mode 0", "cfg": cfg, "source": j, "target": i, "in_specified_set": (i, j) in S0, "got": got, "want": want,
                                              "clause": "weight L(max(dcrit_i, dcrit_j)) on planet pairs, nothing else"})
    else:
        # encounter list: star + every second body (+ all test particles); positions in the list differ from particle indices
        act = [k for k in range(1, Na) if k % 2 == 0 or k == Na - 1]
        tps = [k for k in range(max(Na, 1), n)]
        emap = [0] + act + tps
        if len(emap) < 2:
            return
        rim.mode = 1
        rim._encounter_N = len(emap)
        rim._encounter_N_active = 1 + len(act)
        for q, k in enumerate(emap):
            rim._encounter_map[q] = k
        for j in emap:
            for k in range(n):
                sim.particles[k].m = 1.0 if k == j else 0.0
                sim.particles[k].ax = sim.particles[k].ay = sim.particles[k].az = 0.0
            clibrebound.reb_simulation_update_acceleration(ctypes.byref(sim))
            res["probes"] += 1
            for i in emap:
                if i == 0:
                    continue
                got = (sim.particles[i].ax, sim.particles[i].ay, sim.particles[i].az)
                k3 = kernel(sim.particles[i].x - sim.particles[j].x, sim.particles[i].y - sim.particles[j].y, sim.particles[i].z - sim.particles[j].z, 0.0) if i != j else (0, 0, 0)
                if j == 0:
                    want = [GG * c for c in k3]                        # the star, full weight
                elif (i, j) in S0 and i != j:
                    w = 1.0 - max(DC(i), DC(j))     # complementary weight with the SAME critical radius
                    want = [GG * w * c for c in k3]
                else:
                    want = [0.0, 0.0, 0.0]
                if not rel_ok(got, want) and len(res["violations"]) < 30:
                    res["violations"].append({"routine": "mercurius mode 1", "cfg": cfg, "encounter_map": emap, "source": j, "target": i, "got": got, "want": want,
                                              "clause": "star term with full weight; planet pairs with weight 1 - L(max(dcrit_i, dcrit_j)) (the two modes add up to the Newtonian pair force)"})
    rim._L = ctypes.cast(clibrebound.reb_integrator_mercurius_L_mercury, type(rim._L))
    del sim
    return keep


def trace_probe(res, row):
    """TRACE: interaction mode sums exactly the unflagged planet pairs, Kepler mode the star term of the encounter list plus the
    flagged pairs between its members (Gravity.tla TraceIntLoop / TraceKepStar / TraceKepPairs); two encounter lists per K."""
    cfg = row["cfg"]
    n, na, ty = cfg["n"], cfg["na"], cfg["type"]
    Na = n if na == -1 else na
    sim = rebound.Simulation()
    GG = 2.0 if row["v"] % 2 else 1.0
    sim.G = GG
    sim.add(m=1.0)
    for i in range(1, n):
        sim.add(m=1e-3 if i < Na else 0.0, x=10.0 * i, vy=0.3 / math.sqrt(i))
    sim.N_active = na
    sim.testparticle_type = ty
    sim.testparticle_hidewarnings = 1
    sim.integrator = "trace"
    sim.dt = 1e-6
    sim.step()                       # allocates current_Ks (N x N) and the encounter map
    rit = sim.ri_trace
    sim.particles[0].x = sim.particles[0].y = sim.particles[0].z = 0.0      # heliocentric coordinates
    for i in range(1, n):
        x, y, z = pos(i)
        p = sim.particles[i]
        p.x, p.y, p.z = x, y, z
    sim.gravity = "trace"
    K = set(map(tuple, row["K"]))
    for a in range(n):
        for b in range(n):
            rit._current_Ks[a * n + b] = 1 if (a, b) in K else 0
    # ---- interaction mode
    want_int = set(map(tuple, row["int"]))
    rit._mode = 0
    for j in range(n):
        for k in range(n):
            sim.particles[k].m = 1.0 if k == j else 0.0
        clibrebound.reb_simulation_update_acceleration(ctypes.byref(sim))
        res["probes"] += 1
        for i in range(n):
            got = (sim.particles[i].ax, sim.particles[i].ay, sim.particles[i].az)
            if (i, j) in want_int:
                want = list(GG * c_ for c_ in kernel(sim.particles[i].x - sim.particles[j].x, sim.particles[i].y - sim.particles[j].y, sim.particles[i].z - sim.particles[j].z, 0.0))
                ok = rel_ok(got, want)
            else:
                want = [0.0, 0.0, 0.0]
                ok = got == (0.0, 0.0, 0.0)
            if not ok and len(res["violations"]) < 30:
                res["violations"].append({"routine": "trace interaction mode", "cfg": cfg, "flagged_pairs": sorted(K), "source": j, "target": i,
                                          "in_specified_set": (i, j) in want_int, "got": got, "want": want, "clause": "every planet pair that is not flagged, nothing else"})
    # ---- Kepler mode, over the minimal encounter list and over the list of all bodies
    for E, key in ((sorted(row["E"]), "kep"), (list(range(n)), "kepfull")):
        if len(E) < 2:
            continue
        want_kep = set(map(tuple, row[key]))
        rit._mode = 1
        rit._encounter_N = len(E)
        rit._encounter_N_active = len([k for k in E if k < Na])
        for q, k in enumerate(E):
            rit._encounter_map[q] = k
        for j in E:
            for k in range(n):
                sim.particles[k].m = 1.0 if k == j else 0.0
                sim.particles[k].ax = sim.particles[k].ay = sim.particles[k].az = 0.0
            clibrebound.reb_simulation_update_acceleration(ctypes.byref(sim))
            res["probes"] += 1
            for i in E:
                got = (sim.particles[i].ax, sim.particles[i].ay, sim.particles[i].az)
                if i == 0:
                    want = [0.0, 0.0, 0.0]                      # heliocentric: the star feels nothing
                elif j == 0 or (i, j) in want_kep:
                    want = list(GG * c_ for c_ in kernel(sim.particles[i].x - sim.particles[j].x, sim.particles[i].y - sim.particles[j].y, sim.particles[i].z - sim.particles[j].z, 0.0))
                else:
                    want = [0.0, 0.0, 0.0]
                if not rel_ok(got, want) and len(res["violations"]) < 30:
                    res["violations"].append({"routine": "trace kepler mode", "cfg": cfg, "flagged_pairs": sorted(K), "encounter_map": E, "source": j, "target": i,
                                              "in_specified_set": j == 0 or (i, j) in want_kep, "got": got, "want": want,
                                              "clause": "star term for every member of the encounter list, flagged pairs between members, nothing else (the two modes add up to every pair once)"})
    del sim


def jacobi_row(res, row):
    """REB_GRAVITY_JACOBI against GravityJacobi.tla's exact term lists (bodies on the line (2,3,6) * s_k)"""
    from fractions import Fraction
    m, sites, terms = row["m"], row["s"], row["terms"]
    n = len(m)
    spec = [sum((Fraction(t[0], t[1]) for t in terms[i]), Fraction(0)) for i in range(n)]
    if sum(m[i] * spec[i] for i in range(n)) != 0:
        raise RuntimeError("GravityJacobi.tla: specified force does not conserve momentum for %r" % row)
    for G in (1.0, 2.5):
        sim = rebound.Simulation()
        sim.G = G
        sim.integrator = "whfast"
        sim.gravity = "jacobi"
        for k in range(n):
            sim.add(m=float(m[k]), x=2.0 * sites[k], y=3.0 * sites[k], z=6.0 * sites[k])
        clibrebound.reb_simulation_update_acceleration(ctypes.byref(sim))
        res["probes"] += 1
        scale = max([abs(float(Fraction(t[0], t[1]))) for i in range(n) for t in terms[i]] or [1.0]) * G / 343.0
        for i in range(n):
            want = [G * float(spec[i] * c / 343) for c in (2, 3, 6)]
            got = (sim.particles[i].ax, sim.particles[i].ay, sim.particles[i].az)
            if not all(abs(g - w) <= 1e-13 * scale * 6 for g, w in zip(got, want)) and len(res["violations"]) < 30:
                res["violations"].append({"routine": "jacobi", "cfg": {"n": n, "na": -1, "type": 0, "ign": 0}, "masses": m, "abscissae": sites, "G": G, "target": i,
                                          "source": -1, "got": got, "want": want,
                                          "clause": "gradient of the Wisdom-Holman interaction Hamiltonian (direct terms except {0,1} plus Jacobi terms)"})
        del sim


def jacobi_equivalence(res, seed, nsys):
    """the Jacobi term added inside the WHFast interaction step (gravity BASIC, ignore_terms 1) is the same as the one the JACOBI
    routine computes: one default-kernel WHFast run with each routine, sampled systems incl. massless test particles"""
    import random
    rng = random.Random(seed)
    worst = 0.0
    for _ in range(nsys):
        n = rng.randrange(3, 7)
        ntp = rng.randrange(0, 2)
        specs = [(10 ** rng.uniform(-6, -3), 1.0 + 0.6 * k + 0.2 * rng.random(), 0.1 * rng.random(), 0.1 * rng.random(), 6 * rng.random()) for k in range(n - 1)]
        out = []
        for grav in ("basic", "jacobi"):
            sim = rebound.Simulation()
            sim.add(m=1.0)
            for k, (mm, a, e, inc, f) in enumerate(specs):
                sim.add(m=0.0 if k >= n - 1 - ntp else mm, a=a, e=e, inc=inc, f=f)
            if ntp:
                sim.N_active = n - ntp
            sim.move_to_com()
            sim.integrator = "whfast"
            sim.gravity = grav
            sim.dt = 0.02
            sim.steps(60)
            sim.synchronize()
            out.append([(p.x, p.y, p.z, p.vx, p.vy, p.vz) for p in sim.particles])
            grav_after = sim.gravity
        d = max(abs(a - b) for p, q in zip(*out) for a, b in zip(p, q))
        worst = max(worst, d)
        res["probes"] += 1
        if not d <= 1e-11 and len(res["violations"]) < 30:
            res["violations"].append({"routine": "jacobi vs whfast interaction step", "cfg": {"n": n, "na": n - ntp, "type": 0, "ign": 1}, "source": -1, "target": -1,
                                      "got": d, "want": 1e-11, "clause": "WHFast (default kernel) with REB_GRAVITY_JACOBI and with REB_GRAVITY_BASIC + explicit Jacobi term agree to rounding",
                                      "system": specs})
    res["jacobi_equivalence_worst"] = worst


def tree_reference(res, seed, n, soft, theta, box=100.0):
    """finite opening angle, decided: an independent oct-tree (cells halved about their centre until they hold one particle; total
    mass and centre of mass per cell) walked with the documented acceptance rule  w^2 > theta^2 d^2 -> open, otherwise the
    monopole at the centre of mass with the softened kernel, leaves with the same softened kernel.  The library's accelerations
    must be this sum to rounding."""
    import random
    rng = random.Random(seed + 17 * n)
    pts = [(rng.uniform(0.5, 1.5), rng.uniform(-0.45, 0.45) * box, rng.uniform(-0.45, 0.45) * box, rng.uniform(-0.45, 0.45) * box) for _ in range(n)]
    s2 = soft * soft

    def build(ids, cx, cy, cz, w):
        if len(ids) == 1:
            i = ids[0]
            return ("leaf", i, pts[i][0], pts[i][1], pts[i][2], pts[i][3], w)
        m = sum(pts[i][0] for i in ids)
        mx = sum(pts[i][0] * pts[i][1] for i in ids) / m
        my = sum(pts[i][0] * pts[i][2] for i in ids) / m
        mz = sum(pts[i][0] * pts[i][3] for i in ids) / m
        kids = []
        for o in range(8):
            sx, sy, sz = (1 if o & 1 else -1), (1 if o & 2 else -1), (1 if o & 4 else -1)
            sub = [i for i in ids if ((pts[i][1] >= cx) == (sx > 0)) and ((pts[i][2] >= cy) == (sy > 0)) and ((pts[i][3] >= cz) == (sz > 0))]
            if sub:
                kids.append(build(sub, cx + sx * w / 4, cy + sy * w / 4, cz + sz * w / 4, w / 2))
        return ("cell", kids, m, mx, my, mz, w)

    root = build(list(range(n)), 0.0, 0.0, 0.0, box)

    def walk(node, i, acc):
        x, y, z = pts[i][1], pts[i][2], pts[i][3]
        if node[0] == "leaf":
            if node[1] == i:
                return
            dx, dy, dz = x - node[3], y - node[4], z - node[5]
            rr = math.sqrt(dx * dx + dy * dy + dz * dz + s2)
            f = -node[2] / (rr * rr * rr)
            acc[0] += f * dx; acc[1] += f * dy; acc[2] += f * dz   # noqa: E702
            return
        _, kids, m, mx, my, mz, w = node
        dx, dy, dz = x - mx, y - my, z - mz
        r2 = dx * dx + dy * dy + dz * dz
        if w * w > theta * theta * r2:
            for k in kids:
                walk(k, i, acc)
        else:
            rr = math.sqrt(r2 + s2)
            f = -m / (rr * rr * rr)
            acc[0] += f * dx; acc[1] += f * dy; acc[2] += f * dz   # noqa: E702

    sim = rebound.Simulation()
    sim.G = 1.0
    sim.configure_box(box)
    sim.gravity = "tree"
    sim.softening = soft
    sim.opening_angle2 = theta * theta
    for mm, x, y, z in pts:
        sim.add(m=mm, x=x, y=y, z=z)
    clibrebound.reb_simulation_update_tree(ctypes.byref(sim))
    clibrebound.reb_simulation_update_tree_gravity_data(ctypes.byref(sim))
    clibrebound.reb_simulation_update_acceleration(ctypes.byref(sim))
    res["probes"] += 1
    worst = 0.0
    for i in range(n):
        acc = [0.0, 0.0, 0.0]
        walk(root, i, acc)
        p = sim.particles[i]
        scale = math.sqrt(acc[0] ** 2 + acc[1] ** 2 + acc[2] ** 2) or 1.0
        e = math.sqrt((p.ax - acc[0]) ** 2 + (p.ay - acc[1]) ** 2 + (p.az - acc[2]) ** 2) / scale
        worst = max(worst, e)
        if e > 1e-11 and len(res["violations"]) < 30:
            res["violations"].append({"routine": "tree", "cfg": {"n": n, "na": -1, "type": 0, "ign": 0}, "source": -1, "target": i, "got": [p.ax, p.ay, p.az], "want": acc,
                                      "clause": "tree force at opening angle %g, softening %g differs from the reference walk (relative %.2e)" % (theta, soft, e)})
            break
    res.setdefault("tree_reference_worst", 0.0)
    res["tree_reference_worst"] = max(res["tree_reference_worst"], worst)


def tree_angle(res, seed, n):
    """finite opening angle (sampled): a cell of width w is used as a monopole at its centre of mass only if w < theta d, every
    particle of it lies within s <= sqrt(3) w of that point, so with x = sqrt(3) theta < 1 the error of each accepted cell is at most
    (3 x^2 - 2 x^3) / (1 - x)^2 of its G M / d^2 (dipole vanishes about the centre of mass); normalised by the sum of the
    magnitudes of the individual forces the error must stay below that bound, and it must shrink when theta does."""
    import random
    rng = random.Random(seed + 11)
    pts = []
    for k in range(n):
        if k % 3 == 0:
            c = (20.0, -10.0, 5.0)
            pts.append((rng.uniform(0.5, 1.5), c[0] + rng.gauss(0, 3), c[1] + rng.gauss(0, 3), c[2] + rng.gauss(0, 3)))
        else:
            pts.append((rng.uniform(0.5, 1.5), rng.uniform(-45, 45), rng.uniform(-45, 45), rng.uniform(-45, 45)))
    direct, mags = [], []
    for i, (mi, xi, yi, zi) in enumerate(pts):
        ax = ay = az = sm = 0.0
        for j, (mj, xj, yj, zj) in enumerate(pts):
            if i == j:
                continue
            dx, dy, dz = xj - xi, yj - yi, zj - zi
            r2 = dx * dx + dy * dy + dz * dz
            f = mj / (r2 * math.sqrt(r2))
            ax += f * dx
            ay += f * dy
            az += f * dz
            sm += mj / r2
        direct.append((ax, ay, az))
        mags.append(sm)
    errs = {}
    for theta in (0.8, 0.5, 0.4, 0.2, 0.1, 0.0):
        sim = rebound.Simulation()
        sim.G = 1.0
        sim.configure_box(100.0)
        sim.gravity = "tree"
        sim.opening_angle2 = theta * theta
        for mm, x, y, z in pts:
            sim.add(m=mm, x=x, y=y, z=z)
        clibrebound.reb_simulation_update_tree(ctypes.byref(sim))
        clibrebound.reb_simulation_update_tree_gravity_data(ctypes.byref(sim))
        clibrebound.reb_simulation_update_acceleration(ctypes.byref(sim))
        res["probes"] += 1
        e = 0.0
        for i in range(n):
            p = sim.particles[i]
            e = max(e, math.sqrt((p.ax - direct[i][0]) ** 2 + (p.ay - direct[i][1]) ** 2 + (p.az - direct[i][2]) ** 2) / mags[i])
        errs[theta] = e
        x = math.sqrt(3) * theta
        bound = (3 * x * x - 2 * x ** 3) / (1 - x) ** 2 if x < 1 else None
        if theta == 0.0:
            bound = 1e-12
        if bound is not None and not e <= bound + 1e-12 and len(res["violations"]) < 30:
            res["violations"].append({"routine": "tree", "cfg": {"n": n, "na": -1, "type": 0, "ign": 0}, "source": -1, "target": -1, "got": e, "want": bound,
                                      "clause": "multipole bound at opening angle %g (error normalised by the sum of the magnitudes of the individual forces)" % theta})
        del sim
    if not (errs[0.1] <= errs[0.4] / 4 + 1e-13 and errs[0.2] <= errs[0.8] / 4 + 1e-13) and len(res["violations"]) < 30:
        res["violations"].append({"routine": "tree", "cfg": {"n": n, "na": -1, "type": 0, "ign": 0}, "source": -1, "target": -1, "got": errs[0.1], "want": errs[0.4] / 4,
                                  "clause": "tree error shrinks at least like theta when the opening angle is reduced by 4 (observed %r)" % errs})
    res["tree_angle_errors"] = errs


def main():
    table, out, stride = sys.argv[1], sys.argv[2], int(sys.argv[3])
    res = {"cfgs": 0, "probes": 0, "violations": [], "samples": []}
    for k, ln in enumerate(open(table)):
        row = json.loads(ln)
        if "terms" in row:
            res["jacobi_rows"] = res.get("jacobi_rows", 0) + 1
            jacobi_row(res, row)
            continue
        if "K" in row:
            if True:
                res["trace_rows"] = res.get("trace_rows", 0) + 1
                trace_probe(res, row)
            continue
        cfg = row["cfg"]
        if cfg["n"] < 1 or (k % stride and cfg["n"] > 3):
            continue
        res["cfgs"] += 1
        for routine in ("basic", "compensated"):
            probe(res, cfg, row["acts"], routine, 0.0)
            if stride == 1 or k % 2:
                probe(res, cfg, row["acts"], routine, 0.0, G=2.5)        # the constant of gravity enters every term once
        if cfg["n"] >= 3 and cfg["ign"] == 0:
            probe(res, cfg, row["acts"], "basic", 0.75)                     # softening
            probe(res, cfg, row["acts"], "basic", 0.0, (8.0, 1, 1, 2))      # ghost images, non-cubic box
        if cfg["na"] in (-1, cfg["n"]) and cfg["ign"] == 0 and cfg["type"] == 0 and cfg["n"] >= 2:
            probe(res, cfg, row["acts"], "tree", 0.0)
            probe(res, cfg, row["acts"], "tree", 0.75, G=2.5)
            if cfg["n"] >= 3:
                probe(res, cfg, row["acts"], "tree", 0.0, (8.0, 1, 1, 2))
        if cfg["ign"] == 0 and cfg["n"] >= 3 and (cfg["na"] == -1 or cfg["na"] >= 1):
            merc_probe(res, cfg, row["merc0"], 0)
            merc_probe(res, cfg, row["merc0"], 1)
        if len(res["samples"]) < 2 and cfg["n"] == 4 and cfg["na"] == 2:
            res["samples"].append({"cfg": cfg, "specified_acts": row["acts"]})
    tree_angle(res, int(sys.argv[4]) if len(sys.argv) > 4 else 0, 120 if stride > 1 else 400)
    for soft in (0.0, 2.0, 8.0):
        for theta in (0.3, 0.5, 0.9):
            tree_reference(res, int(sys.argv[4]) if len(sys.argv) > 4 else 0, 60 if stride > 1 else 200, soft, theta)
    jacobi_equivalence(res, int(sys.argv[4]) if len(sys.argv) > 4 else 0, 10 if stride > 1 else 60)
    json.dump(res, open(out, "w"))


if __name__ == "__main__":
    main()
