"""C14 worker: runs with the freshly built library importable as `rebound`.

 graph  <dot> <cfg-json> <out-json>   E2: walk TLC's state graph, drive the real code along every
                                      (state, action) pair the implementation can reach, and require
                                      the projected implementation state to be one of the spec's
                                      successors for that action.
 random <cfg-json> <out-ndjson>       E3: seeded random long histories on the real code, recorded as
                                      traces for Trace_ParticleStore.
"""
import ctypes
import json
import random
import sys
import time
import warnings
from ctypes import byref, c_int, c_uint32, POINTER

import common
import rebound
from rebound import clibrebound, Particle

clibrebound.reb_simulation_particle_by_hash.restype = POINTER(Particle)
clibrebound.reb_simulation_remove_particle.restype = c_int
clibrebound.reb_simulation_remove_particle_by_hash.restype = c_int

NAMES = {0: None, 1: "alpha", 2: "beta", 3: "gamma"}


def hval(h):
    """model hash -> real 32-bit hash"""
    if h == 0:
        return 0
    if h in NAMES:
        return rebound.hash(NAMES[h]).value
    return (h * 2654435761) & 0xffffffff or 1


class Impl:
    """One real simulation + the projection to ParticleStore's variables."""

    def __init__(self, cfg, api):
        self.cfg, self.api = cfg, api
        sim = rebound.Simulation()
        if cfg["TreeMode"]:
            sim.configure_box(64.)
            sim.gravity = "tree"
        if cfg["Hybrid"]:
            sim.integrator = "mercurius"
        self.sim = sim
        self.ret, self.err = 1, False
        self.hmap = {}  # real hash -> model hash
        self.nid = 1
        # the release hook for data attached to a particle (free_particle_ap): must be called exactly once for every particle that
        # leaves the simulation, and for that particle (the id is carried in m)
        self.freed = []
        self.apok = True

        def fpa(pp, freed=self.freed):
            freed.append(int(pp.contents.m) if pp.contents.m == pp.contents.m else -1)
        sim.free_particle_ap = fpa

    def _live(self):
        return sorted(int(self.sim._particles[k].m) for k in range(self.sim.N) if self.sim._particles[k].y == self.sim._particles[k].y)

    def _msgs(self):
        err = False
        with warnings.catch_warnings():
            warnings.simplefilter("ignore")
            try:
                self.sim.process_messages()
            except RuntimeError:
                err = True
                # drain the rest
                try:
                    self.sim.process_messages()
                except RuntimeError:
                    pass
        return err

    def apply(self, act):
        before = self._live()
        del self.freed[:]
        self._apply(act)
        after = self._live()
        gone = list(before)
        for i in after:
            if i in gone:
                gone.remove(i)
        # (documented for sim.remove only: remove-all and the deferred tree removal are not held to it)
        if act[0] in ("RemoveIdx", "RemoveHash") and sorted(self.freed) != sorted(gone):
            self.apok = False
            self.apinfo = {"action": list(act), "left_the_simulation": gone, "release_hook_called_for": list(self.freed)}

    def _apply(self, act):
        sim, api = self.sim, self.api
        name = act[0]
        if name not in ("SetHash", "SetNActive", "TreeFlush"):
            self.err = False
        if name == "Add":
            h = act[1]
            i = self.nid
            self.nid += 1
            hv = hval(h)
            self.hmap[hv] = h
            # id carried in m; distinct positions inside the box (tree needs them distinct)
            x, y, z = (i % 7) * 3.0 - 9.5, ((i // 7) % 7) * 3.0 - 9.25, (i // 49) * 3.0 - 9.125
            if api == "py":
                with warnings.catch_warnings():
                    warnings.simplefilter("ignore")
                    try:
                        if h == 0:
                            sim.add(m=float(i), x=x, y=y, z=z)
                        elif h in NAMES:
                            sim.add(m=float(i), x=x, y=y, z=z, hash=NAMES[h])
                        else:
                            sim.add(m=float(i), x=x, y=y, z=z, hash=hv)
                    except RuntimeError:
                        self.err = True
            else:
                p = Particle(m=float(i), x=x, y=y, z=z)
                p.hash = c_uint32(hv)
                clibrebound.reb_simulation_add(byref(sim), p)
                self.err = self._msgs()
            self.ret = 1
        elif name == "RemoveIdx":
            idx, ks = act[1], 1 if act[2] else 0
            if api == "py":
                n0 = sim.N
                with warnings.catch_warnings():
                    warnings.simplefilter("ignore")
                    try:
                        sim.remove(idx, keep_sorted=ks)
                        self.ret = 1
                    except RuntimeError:
                        self.ret, self.err = 0, True
            else:
                self.ret = clibrebound.reb_simulation_remove_particle(byref(sim), c_int(idx), c_int(ks))
                self.err = self._msgs()
        elif name == "RemoveHash":
            h, ks = act[1], 1 if act[2] else 0
            hv = hval(h)
            if api == "py":
                with warnings.catch_warnings():
                    warnings.simplefilter("ignore")
                    try:
                        if h in NAMES and h != 0:
                            sim.remove(hash=NAMES[h], keep_sorted=ks)
                        else:
                            sim.remove(hash=hv, keep_sorted=ks)
                        self.ret = 1
                    except RuntimeError:
                        self.ret, self.err = 0, True
            else:
                self.ret = clibrebound.reb_simulation_remove_particle_by_hash(byref(sim), c_uint32(hv), c_int(ks))
                self.err = self._msgs()
        elif name == "SetHash":
            i, h = act[1], act[2]
            hv = hval(h)
            self.hmap[hv] = h
            if api == "py":
                if h in NAMES and h != 0:
                    sim.particles[i].hash = NAMES[h]
                else:
                    sim.particles[i].hash = hv
            else:
                sim._particles[i].hash = c_uint32(hv)
        elif name == "Lookup":
            h = act[1]
            hv = hval(h)
            if api == "py":
                try:
                    if h in NAMES and h != 0:
                        p = sim.particles[NAMES[h]]
                    else:
                        p = sim.particles[c_uint32(hv)]
                    self.ret = p.index
                except rebound.ParticleNotFound:
                    self.ret = -1
            else:
                ptr = clibrebound.reb_simulation_particle_by_hash(byref(sim), c_uint32(hv))
                if ptr:
                    off = ctypes.addressof(ptr.contents) - ctypes.addressof(sim._particles.contents)
                    self.ret = off // ctypes.sizeof(Particle)
                else:
                    self.ret = -1
        elif name == "GetIdx":
            k = act[1]
            if api == "py":
                try:
                    p = sim.particles[k]
                    off = ctypes.addressof(p) - ctypes.addressof(sim._particles.contents)
                    self.ret = off // ctypes.sizeof(Particle)
                except AttributeError:          # the documented failure
                    self.ret, self.err = -2, True
                except Exception as ex:          # anything else is not the documented behaviour
                    self.ret, self.err = -3, True
            else:
                # the C API has no checked accessor: documented contract evaluated on N
                n = sim.N
                ok = -n <= k < n
                self.ret, self.err = ((k + n) % n if ok else -2), (not ok)
        elif name == "RemoveAll":
            if api == "py":
                del sim.particles
            else:
                clibrebound.reb_simulation_remove_all_particles(byref(sim))
            self.ret = 1
        elif name == "SetNActive":
            sim.N_active = act[1]
        elif name == "TreeFlush":
            clibrebound.reb_simulation_update_tree(byref(sim))
        else:
            raise common.MachineryError("unknown action %r" % (act,))

    def project(self):
        sim = self.sim
        n = sim.N
        ps = []
        for k in range(n):
            p = sim._particles[k]
            hv = p.hash.value if hasattr(p.hash, "value") else int(p.hash)
            ps.append((int(p.m) if p.m == p.m else -1, self.hmap.get(hv, hv if hv < 16 else -hv), p.y != p.y))
        tbl = []
        nl = sim.N_lookup
        if nl and sim._particle_lookup_table:
            for q in range(nl):
                e = sim._particle_lookup_table[q]
                hv = int(e.hash)
                tbl.append((self.hmap.get(hv, hv if hv < 16 else -hv), int(e.index)))
        return {"ps": tuple(ps), "nActive": int(sim.N_active), "ret": int(self.ret), "err": bool(self.err),
                "tbl": tuple(sorted(tbl)), "nAlloc": int(sim.N_allocated), "apok": self.apok, "apinfo": getattr(self, "apinfo", None)}


def spec_proj(st, with_tbl=True):
    ps = tuple((p["id"], p["hash"], p["dead"]) for p in st["ps"])
    tbl = tuple(sorted((e["hash"], e["idx"]) for e in st["tbl"]))
    return (ps, st["nActive"], st["ret"], st["err"], tbl if with_tbl else None)


def impl_key(pr, with_tbl=True):
    return (pr["ps"], pr["nActive"], pr["ret"], pr["err"], pr["tbl"] if with_tbl else None)


def act_of(st):
    return tuple(st["last"])


def graph_walk(dot, cfg, out, api, budget_s):
    nodes, edges, inits = common.parse_dot(dot)
    succ = {}
    for s, t, lab in edges:
        succ.setdefault(s, {}).setdefault(act_of(nodes[t]), set()).add(t)
    # only compare ret when the spec action defines it (Add/Remove*/Lookup/RemoveAll set it; others leave it)
    init = next(iter(inits))
    path = {init: ()}
    queue = [init]
    checked = 0
    pairs_total = sum(len(a) for a in succ.values())
    violations = []
    t0 = time.time()
    seen_keys = set()
    qi = 0
    truncated = False
    samples = []
    while qi < len(queue):
        s = queue[qi]
        qi += 1
        if time.time() - t0 > budget_s:
            truncated = True
            break
        for act, targets in sorted(succ.get(s, {}).items(), key=lambda kv: repr(kv[0])):
            im = Impl(cfg, api)
            try:
                for a in path[s]:
                    im.apply(a)
                im.apply(act)
                pr = im.project()
            except common.MachineryError:
                raise
            k = impl_key(pr)
            match = None
            for t in targets:
                if spec_proj(nodes[t]) == k:
                    match = t
                    break
            checked += 1
            if len(samples) < 4 and len(path[s]) >= 3:
                samples.append({"history": [list(a) for a in path[s] + (act,)], "impl_state": pr})
            if not pr["apok"]:
                violations.append({"key": "ap-hook:%s" % act[0], "history": [list(a) for a in path[s] + (act,)], "impl": pr, "spec_allows": ["release hook called exactly for the particles that left"],
                                   "cfg": cfg, "api": api})
            if pr["nAlloc"] < len(pr["ps"]):
                violations.append({"key": "alloc", "history": [list(a) for a in path[s] + (act,)], "impl": pr})
            if match is None:
                exp = [spec_proj(nodes[t]) for t in targets]
                violations.append({"key": "%s:%s" % (api, "/".join(str(x) for x in act)),
                                   "history": [list(a) for a in path[s] + (act,)],
                                   "impl": pr, "spec_allows": [repr(e) for e in exp][:4], "cfg": cfg, "api": api})
                if len(violations) > 200:
                    break
                continue
            if match not in path:
                path[match] = path[s] + (act,)
                queue.append(match)
        if len(violations) > 200:
            break
    res = {"checked": checked, "pairs_total": pairs_total, "nodes": len(nodes), "edges": len(edges),
           "reached_nodes": len(path), "violations": violations, "truncated": truncated, "samples": samples}
    json.dump(res, open(out, "w"), default=str)


def random_traces(cfg, out, seed, ntraces, length, api):
    """E3: long random histories; each event logs the action and the full projected state."""
    rng = random.Random(seed)
    nh = cfg.get("NHashes", 6)
    with open(out, "w") as fh:
        for tr in range(ntraces):
            im = Impl(cfg, api)
            maxn = cfg.get("MaxN", 40)
            events = []
            for step in range(length):
                n = im.sim.N
                r = rng.random()
                if r < 0.34 and n < maxn:
                    act = ("Add", rng.randrange(nh))
                elif r < 0.5:
                    act = ("RemoveIdx", rng.randrange(-1, n + 2), rng.random() < 0.5)
                elif r < 0.62:
                    act = ("RemoveHash", rng.randrange(nh), rng.random() < 0.5)
                elif r < 0.74 and n > 0:
                    act = ("SetHash", rng.randrange(n), rng.randrange(nh))
                elif r < 0.84:
                    act = ("Lookup", rng.randrange(nh))
                elif r < 0.9:
                    act = ("GetIdx", rng.randrange(-2 * n - 2, 2 * n + 2))
                elif r < 0.92:
                    act = ("RemoveAll",)
                elif r < 0.97 and not cfg["TreeMode"]:
                    act = ("SetNActive", rng.randrange(0, n + 1))
                elif cfg["TreeMode"]:
                    act = ("TreeFlush",)
                else:
                    continue
                if cfg["TreeMode"] and act[0] != "TreeFlush" and any(p.y != p.y for p in im.sim.particles):
                    act = ("TreeFlush",)   # spec precondition: requests only on a flushed tree
                if act[0] == "TreeFlush" and not any(p.y != p.y for p in im.sim.particles):
                    continue
                im.apply(act)
                pr = im.project()
                events.append({"a": act[0], "args": [int(x) if not isinstance(x, bool) else x for x in act[1:]],
                               "ps": [[p[0], p[1], bool(p[2])] for p in pr["ps"]], "nActive": pr["nActive"],
                               "ret": pr["ret"], "err": pr["err"], "tbl": [list(e) for e in pr["tbl"]],
                               "nAlloc": pr["nAlloc"]})
            fh.write(json.dumps({"cfg": cfg, "api": api, "events": events}) + "\n")


def growth_mode(out):
    """storage growth boundaries (meant to run under ASan): the particle array exactly full (N == N_allocated = 128, 256) when particles are
    removed in either way, added again across the reallocation, looked up by hash -- plain and hybrid (MERCURIUS keeps a parallel dcrit array)"""
    res = {"ops": 0, "problems": []}
    for hybrid in (False, True):
        for B in (128, 256):
            sim = rebound.Simulation()
            if hybrid:
                sim.integrator = "mercurius"
                sim.dt = 1e-3
            sim.add(m=1.0, hash=1)
            k = 1
            while sim.N < B:
                k += 1
                sim.add(m=1e-9, a=1.0 + 0.01 * k, hash=k)
            if hybrid:
                sim.step()                         # allocates dcrit for B particles
            assert sim.N == B and sim.N_allocated == B, (sim.N, sim.N_allocated)
            ids0 = [sim.particles[i].hash.value for i in range(sim.N)]
            sim.remove(5, keep_sorted=True)        # shift loop over a full array
            ids0.pop(5)
            sim.remove(0 if not hybrid else 7, keep_sorted=False)
            if hybrid:
                ids0.pop(7)                          # (the hybrid integrator forces the order-preserving variant)
            else:
                ids0[0] = ids0.pop()
            sim.remove(sim.N - 1, keep_sorted=True)
            ids0.pop()
            for j in range(5):                     # across the reallocation
                k += 1
                sim.add(m=1e-9, a=1.0 + 0.01 * k, hash=k)
                ids0.append(k)
            sim.remove(hash=k - 2)
            ids0.remove(k - 2)                      # (removal by hash keeps the order by default)
            res["ops"] += 10
            got = [sim.particles[i].hash.value for i in range(sim.N)]
            if got != ids0:
                res["problems"].append({"hybrid": hybrid, "boundary": B, "got_tail": got[-8:], "want_tail": ids0[-8:], "N": sim.N, "want_N": len(ids0)})
            for h in (ids0[3], ids0[-1]):
                if sim.particles[ctypes.c_uint32(h)].hash.value != h:
                    res["problems"].append({"hybrid": hybrid, "boundary": B, "lookup": h})
            if hybrid:
                sim.step()
            del sim
    names(res)
    json.dump(res, open(out, "w"))


def murmur3_32(data, seed):
    """MurmurHash3_x86_32 (public-domain reference algorithm), independent of the library"""
    c1, c2 = 0xcc9e2d51, 0x1b873593
    h = seed & 0xffffffff
    n = len(data)
    for i in range(0, n - n % 4, 4):
        k = int.from_bytes(data[i:i + 4], "little")
        k = (k * c1) & 0xffffffff
        k = ((k << 15) | (k >> 17)) & 0xffffffff
        k = (k * c2) & 0xffffffff
        h ^= k
        h = ((h << 13) | (h >> 19)) & 0xffffffff
        h = (h * 5 + 0xe6546b64) & 0xffffffff
    tail = data[n - n % 4:]
    k = 0
    if len(tail) >= 3:
        k ^= tail[2] << 16
    if len(tail) >= 2:
        k ^= tail[1] << 8
    if len(tail) >= 1:
        k ^= tail[0]
        k = (k * c1) & 0xffffffff
        k = ((k << 15) | (k >> 17)) & 0xffffffff
        k = (k * c2) & 0xffffffff
        h ^= k
    h ^= n
    h ^= h >> 16
    h = (h * 0x85ebca6b) & 0xffffffff
    h ^= h >> 13
    h = (h * 0xc2b2ae35) & 0xffffffff
    h ^= h >> 16
    return h


def names(res):
    """look-up and removal by name: string keys of every length class (0..3 mod 4), names that differ by a transposition of their
    last characters; the key of a name is MurmurHash3 (seed 1983) of its bytes, and every name finds exactly its own particle"""
    import random
    rng = random.Random(5)
    pool = ["a", "ab", "p12", "p21", "moon_12", "moon_21", "earth", "saturn", "planet 9", "xyz", "zyx", "yxz", "abcdefg", "abcdegf", "abcdefghijk", "abcdefghikj"]
    for ln in range(1, 14):
        pool.append("".join(rng.choice("abcXYZ019_ ") for _ in range(ln)))
    pool = sorted(set(pool))
    for nm in pool:
        res["ops"] += 1
        got = rebound.hash(nm).value
        want = murmur3_32(nm.encode(), 1983)
        if got != want:
            res["problems"].append({"hybrid": False, "boundary": 0, "name": nm, "hash": got, "murmur3": want})
    sim = rebound.Simulation()
    for i, nm in enumerate(pool):
        sim.add(m=float(i + 1), x=float(i), hash=nm)
    for i, nm in enumerate(pool):
        res["ops"] += 1
        if sim.particles[nm].m != float(i + 1):
            res["problems"].append({"hybrid": False, "boundary": 0, "name": nm, "lookup_returns_mass": sim.particles[nm].m, "want": float(i + 1)})
    for i, nm in enumerate(pool):
        if i % 3 == 0:
            sim.remove(hash=nm)
    left = [float(i + 1) for i, nm in enumerate(pool) if i % 3]
    if [p.m for p in sim.particles] != left:
        res["problems"].append({"hybrid": False, "boundary": 0, "after_remove_by_name": [p.m for p in sim.particles][:10], "want": left[:10]})


if __name__ == "__main__":
    mode = sys.argv[1]
    if mode == "growth":
        growth_mode(sys.argv[2])
        sys.exit(0)
    if mode == "graph":
        cfg = json.loads(sys.argv[3])
        graph_walk(sys.argv[2], cfg, sys.argv[4], sys.argv[5], float(sys.argv[6]))
    elif mode == "random":
        cfg = json.loads(sys.argv[2])
        random_traces(cfg, sys.argv[3], int(sys.argv[4]), int(sys.argv[5]), int(sys.argv[6]), sys.argv[7])
