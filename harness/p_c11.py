"""C11 -- orbital elements and Cartesian coordinates are consistent in both directions.

 E4  OrbitArgs.tla is the argument contract written once from the documented rules: TLC evaluates the
     decision for all 65536 presence sets of the 16 argument classes, the value classes of a
     structurally valid call, and the read-back relations on the pi/4 angle grid (5120 points), and
     prints the table.  Every row (quick: all sets of <= 3 arguments plus every 8th other) is executed
     through BOTH front ends (reb_simulation_add_fmt via a variadic ctypes call, rebound.Particle):
     both must give the specified class (error number or acceptance), accepted particles contain no
     NaN and are bit-identical between the front ends (to rounding when P or T is converted).
     Grid: particles built on the grid are read back (C orbit routine through Python and through C
     add): theta and pomega on the specified grid index, ranges, the defining relations
     pomega = Omega +- omega, theta = pomega +- f, l = pomega +- M.
     Kepler's equation: for e in 14 classes and M in 47 values (multiples of pi/4, 0, tiny, huge) the
     returned E is substituted back; NaN anywhere is a violation.
"""
import json
import os
import re
import shutil

import common
from common import MachineryError

LEVEL = "model_checking"
HERE = os.path.dirname(os.path.abspath(__file__))


def run(tier, rep):
    common.build()
    sc = common.scratch("c11")
    quick = tier == "quick"
    res = common.run_tlc("OrbitArgs", "OrbitArgs", workers=1, coverage=False, timeout=1800)
    if res.violation:
        rep.violation("model:OrbitArgs:" + res.violation, "OrbitArgs table violates " + res.violation, {})
        return
    if not res.ok:
        raise MachineryError("OrbitArgs did not complete: %s" % res.out[-1500:])
    rows = sorted(set(re.sub(r"\s+", "", m) for m in re.findall(r'<<\s*"[SVG]",[^>]*>>', res.out)))
    ns = sum(1 for r in rows if r.startswith('<<"S"'))
    if ns != 65536:
        raise MachineryError("OrbitArgs printed %d structural rows (expected 65536)" % ns)
    rep.add(states=res.distinct, transitions=res.states)
    tf = os.path.join(sc, "table.txt")
    open(tf, "w").write("\n".join(rows) + "\n")
    out = os.path.join(sc, "out.json")
    r = common.run_worker(os.path.join(HERE, "w_c11.py"), [tf, out, str(common.seed()), "8" if quick else "1"], timeout=3000)
    if r.returncode != 0:
        if r.returncode < 0:
            rep.violation("crash", "real code crashed (signal %d) executing the argument table" % -r.returncode, {"stderr": r.stderr[-1500:]})
            return
        raise MachineryError("worker failed: %s" % r.stderr[-2500:])
    o = json.load(open(out))
    rep.add(evaluations=o["rows"] + o["values"] + o["grid"] + o["kepler"], traces_validated_against_impl=o["rows"] + o["values"] + o["grid"])
    rep.cov.update({"table_rows_executed": o["rows"], "of_table_rows": 65536, "accepted_rows_bit_compared": o["accepted"], "value_class_rows": o["values"],
                    "grid_readbacks": o["grid"], "kepler_points": o["kepler"], "rows_by_spec_class": o["classes"]})
    for s in o["samples"]:
        rep.sample({"kind": "decision-table row", **s})
    for v in o["violations"]:
        k = v["kind"]
        if k in ("table-c", "table-py"):
            key = "%s:%s:spec%s" % (k, "+".join(v["args"]), v["spec"])
            desc = "%s front end %s the argument set {%s}: specified class %s, got %s (%s)" % (
                "C" if k == "table-c" else "Python", "mis-decides", ", ".join(v["args"]), v["spec"], v.get("c", v.get("py")), v.get("msg", ""))
        elif k == "bits":
            key = "bits:%s" % "+".join(v["args"])
            desc = "arguments {%s}: %s" % (", ".join(v["args"]), v["note"])
        elif k.startswith("kepler"):
            key = "%s:e%s" % (k, ">1" if v["e"] > 1 else "<1")
            desc = "%s: e=%r M=%r -> %s" % (k, v["e"], v["M"], {x: v[x] for x in v if x not in ("kind", "e", "M")})
        elif k.startswith("grid"):
            key = "%s:%s" % (k, "+".join(v.get("failed", [])) or v.get("front"))
            desc = "read-back on the pi/4 grid (%s front end) %s: failed %s; reported %s; specified indices %s" % (
                v.get("front"), v.get("cfg"), v.get("failed", v.get("msg")), {a: round(b, 6) for a, b in v.get("vals", {}).items()}, v.get("want"))
        else:
            key = "%s:%s" % (k, json.dumps({x: v[x] for x in v if x != "kind"}, sort_keys=True)[:60])
            desc = "%s: %s" % (k, json.dumps(v)[:400])
        rep.violation(key, desc, v)
    rep.add(distinct_nontrivial=o["rows"] + o["grid"], rule="rows of the TLC-emitted table (presence sets, value classes, grid points); all distinct", exhaustive=not quick)
    rep.assumptions += ["one representative value per argument; value classes only for the classical-elements branch and ix,iy magnitude",
                        "grid read-back tolerances 1e-7 rad; inc = pi/2 excluded from the sign-dependent relations", "off-grid round trips are not assessed (A5 not built)"]
    shutil.rmtree(sc, ignore_errors=True)


def replay(path):
    print(json.dumps(json.load(open(path)), indent=1)[:4000])
    return 0
