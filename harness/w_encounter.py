"""MERCURIUS encounter bookkeeping worker (spec/Encounter.tla).  usage: w_encounter.py <rows.ndjson> <out.json> <stride> <seed>
Every row of the TLC table is built as a real simulation (clusters of co-moving bodies at a prescribed fraction of the
critical radius, which the physical-radius criterion pins to exactly 2 r_i), advanced by one MERCURIUS step, and the
predictor's results (encounter_N, encounter_N_active, tponly_encounter, compacted encounter_map) are compared with the row."""
import json
import math
import sys
import warnings

import rebound

warnings.simplefilter("ignore")
TETRA = [(0.0, 0.0, 0.0), (1.0, 0.0, 0.0), (0.5, math.sqrt(3) / 2, 0.0), (0.5, 1 / (2 * math.sqrt(3)), math.sqrt(2.0 / 3.0))]


def build(row, variant):
    n, na, tt, cl, sep = row["n"], row["na"], row["tt"], row["cl"], row["sep"]
    sim = rebound.Simulation()
    sim.integrator = "mercurius"
    sim.dt = 1e-3 * (-1 if variant.get("neg") else 1)
    sim.testparticle_type = tt
    G = variant.get("G", 1.0)
    sim.G = G
    sim.add(m=1.0 / G, r=1e-4)
    rad = [0.0] + [0.02 * (1.0 + 0.1 * i) for i in range(1, n)]
    act = lambda i: na == -1 or i < na          # noqa: E731
    leaders = {}
    pos = {}
    for i in range(1, n):
        c = cl[i - 1]
        members = [j for j in range(1, n) if cl[j - 1] == c]
        if c not in leaders:
            a = 1.0 + 0.7 * (c - 1)
            th = 2.0 * c + variant.get("phase", 0.0)
            v = math.sqrt(1.0 / a)
            leaders[c] = ((a * math.cos(th), a * math.sin(th), 0.0), (-v * math.sin(th), v * math.cos(th), 0.0))
        if len(members) == 2:
            d = sep / 100.0 * 2.0 * max(rad[j] for j in members)
        else:
            d = sep / 100.0 * 2.0 * min(rad[j] for j in members)
        k = members.index(i)
        off = TETRA[k]
        p0, v0 = leaders[c]
        m = (1e-7 * (1 + 0.3 * i) if act(i) else (1e-9 if tt == 1 else 0.0)) / G
        sim.add(m=m, r=rad[i], x=p0[0] + d * off[0], y=p0[1] + d * off[1], z=p0[2] + d * off[2], vx=v0[0], vy=v0[1], vz=v0[2])
        pos[i] = i
    if na != -1:
        sim.N_active = na
    if variant.get("moving"):
        for p in sim.particles:
            p.vx += 0.3
            p.y += 5.0
    else:
        sim.move_to_com()
    return sim, rad


def flyby_rows(viol):
    """fast fly-bys: two planets on the same circle, one prograde and one retrograde, meet inside the first step while both end points of
    the step are far outside the critical radius -- only the interpolation of the separation between the end points can find the
    encounter.  The relative motion is a straight line to a very good approximation, so the pair must be flagged exactly when the
    impact parameter is below 1.1 critical radii, whichever of the two roots of the interpolation polynomial the minimum is."""
    n = 0
    for sgn in (1, -1):
        for tau in (0.25, 0.5, 0.75):
            for b in (0.3, 0.8, 2.0, 3.0):
                for axis in ("z", "r"):
                    dt = 0.1 * sgn
                    sim = rebound.Simulation()
                    sim.integrator = "mercurius"
                    sim.dt = dt
                    sim.add(m=1.0, r=1e-4)
                    rad = 0.02
                    dc = 2.0 * rad
                    th = 1.0 * tau * dt            # mean motion 1 at a = 1
                    off = b * dc
                    a2 = 1.0 + (off if axis == "r" else 0.0)
                    v2 = math.sqrt(1.0 / a2)
                    sim.add(m=1e-7, r=rad, x=math.cos(-th), y=math.sin(-th), z=0.0, vx=-math.sin(-th), vy=math.cos(-th), vz=0.0)
                    sim.add(m=1e-7, r=rad, x=a2 * math.cos(th), y=a2 * math.sin(th), z=(off if axis == "z" else 0.0),
                            vx=v2 * math.sin(th), vy=-v2 * math.cos(th), vz=0.0)
                    sim.move_to_com()
                    try:
                        sim.step()
                    except Exception as e:   # noqa: BLE001
                        viol.append({"row": {"n": 3, "na": -1, "tt": 0, "cl": [1, 1], "sep": int(100 * b)}, "variant": {"flyby": True, "dt": dt, "tau": tau, "offset": axis}, "clause": "error", "what": str(e)[:100]})
                        continue
                    n += 1
                    rim = sim.ri_mercurius
                    want = 3 if b < 1.1 else 1
                    if int(rim._encounter_N) != want:
                        viol.append({"row": {"n": 3, "na": -1, "tt": 0, "cl": [1, 1], "sep": int(100 * b)},
                                     "variant": {"flyby": True, "dt": dt, "closest_approach_at_fraction_of_step": tau, "offset": axis},
                                     "clause": "bookkeeping", "got": {"encN": int(rim._encounter_N)}, "want": {"encN": want}})
    return n


def main():
    rows = [json.loads(l) for l in open(sys.argv[1]) if l.strip()]
    out, stride, seed = sys.argv[2], int(sys.argv[3]), int(sys.argv[4])
    viol, done = [], 0
    variants = [{}, {"neg": True}, {"moving": True, "G": 4.0}, {"phase": 1.3, "second": True}]
    for idx, row in enumerate(rows):
        if (idx + seed) % stride:
            continue
        variant = variants[(idx // stride + seed) % len(variants)]
        sim, rad = build(row, variant)
        rim = sim.ri_mercurius
        try:
            sim.step()
            if variant.get("second"):
                sim.step()          # the bookkeeping of a second step starts from the compacted map of the first
        except Exception as e:   # noqa: BLE001
            viol.append({"row": row, "variant": variant, "clause": "error", "what": str(e)[:100]})
            continue
        done += 1
        # the critical radii must be the pinned ones, otherwise the row was not realised
        dc = [rim._dcrit[i] for i in range(row["n"])]
        if any(abs(dc[i] - 2.0 * rad[i]) > 1e-15 for i in range(1, row["n"])):
            viol.append({"row": row, "variant": variant, "clause": "driver", "what": "critical radii are not 2 r_i: %s" % dc})
            continue
        got = {"encN": int(rim._encounter_N), "tponly": bool(rim._tponly_encounter)}
        exp = {"encN": row["encN"], "tponly": row["tponly"]}
        if row["encN"] >= 2:
            got["encNA"] = int(rim._encounter_N_active)
            got["map"] = [int(rim._encounter_map[i]) for i in range(min(int(rim._encounter_N), row["n"]))]
            exp["encNA"] = row["encNA"]
            exp["map"] = row["map"]
        if got != exp:
            viol.append({"row": row, "variant": variant, "clause": "bookkeeping", "got": got, "want": exp})
        # the step itself: time advanced, state finite, mode back to 0, N unchanged
        fin = all(math.isfinite(v) for p in sim.particles for v in (p.x, p.y, p.z, p.vx, p.vy, p.vz))
        nsteps = 2 if variant.get("second") else 1
        if not fin or sim.N != row["n"] or rim.mode != 0 or abs(sim.t - nsteps * sim.dt) > 1e-15:
            viol.append({"row": row, "variant": variant, "clause": "step", "what": "finite=%s N=%d mode=%d t=%r dt=%r" % (fin, sim.N, rim.mode, sim.t, sim.dt)})
    nfly = flyby_rows(viol)
    json.dump({"rows": done, "of": len(rows), "flybys": nfly, "violations": viol[:40], "nviol": len(viol)}, open(out, "w"))


if __name__ == "__main__":
    main()
