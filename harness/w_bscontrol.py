"""Bulirsch-Stoer order / step-size controller worker (spec/BSControl.tla).  usage: w_bscontrol.py <out.ndjson> <seed> <nruns>

Hook events (src/integrator_bs.c, guard REBOUND_VERIF=1):
  bs_beg  dt  target_iter(before selection)  target_iter  previous_rejected  first_or_last_step  eps_rel  min_dt
  bs_it   k  ok  error  optimal_step[k]  cost_per_time_unit[k]            (one per pass of the extrapolation loop)
  bs_end  reject  k  target_iter  dt_proposed  previous_rejected  first_or_last_step  min_dt  max_dt
  bs_reset                                                            (reb_integrator_bs_reset)
  bs_err  dt_proposed  target_iter  previous_rejected  first_or_last_step (NaN error estimate: error status)
"""
import ctypes
import json
import math
import os
import random
import sys
import warnings

TRACE = os.environ["REBOUND_VERIF_TRACE"]
import rebound  # noqa: E402

warnings.simplefilter("ignore")
SEQLEN = 9
SEQ = [4 * k + 2 for k in range(SEQLEN)]
CPS = [SEQ[0] + 1]
for _k in range(1, SEQLEN):
    CPS.append(CPS[-1] + SEQ[_k])


def hook_since(off, addr):
    out = []
    with open(TRACE) as fh:
        fh.seek(off)
        for line in fh.read().splitlines():
            p = line.split()
            if len(p) >= 3 and int(p[2], 16) == addr and p[0].startswith("bs_"):
                out.append((p[0], [float(x) for x in p[3:]]))
    return out


def close(a, b):
    return a == b or abs(a - b) <= 4e-15 * max(abs(a), abs(b))


def initial_target(eps_rel):
    return max(1, min(SEQLEN - 2, int(math.floor(0.5 - 0.6 * math.log10(max(1.0e-10, eps_rel))))))


def convert(raw):
    """hook lines of one simulation -> events of Trace_BSControl"""
    ev = []
    cptu = None
    opt = None
    dt_in = None
    target = None
    for name, a in raw:
        if name == "bs_beg":
            if cptu is not None:
                # the previous call returned early (set-up error): drop its events
                while ev and ev[-1]["ev"] != "beg":
                    ev.pop()
                if ev:
                    ev.pop()
            dt_in, tprev, t0, prej, fol, eps, mn0 = a
            cptu = {0: 0.0}
            opt = {}
            target = int(t0)
            ev.append({"ev": "beg", "tprev": int(tprev), "t0": int(t0), "prevRej": bool(prej), "fol": bool(fol),
                       "t0ok": (int(tprev) == int(t0)) if int(tprev) != 0 else int(t0) == initial_target(eps), "floor": mn0 != 0.0 and abs(dt_in) <= mn0,
                       "num": [dt_in, eps, mn0]})
        elif name == "bs_it":
            if cptu is None:
                continue
            k, ok, err, o, c = int(a[0]), bool(a[1]), a[2], a[3], a[4]
            rec = {"ev": "it", "k": k, "ok": ok, "nan": False, "huge": False, "conv": False, "gtR0": False, "gtRm1": False, "optok": True, "num": [err, o, c]}
            if ok and k > 0:
                if err != err:
                    rec["nan"] = True
                elif err > 1.0e25:
                    rec["huge"] = True
                else:
                    rec["conv"] = err <= 1.0
                    r0 = float(SEQ[k + 1]) / SEQ[0] if k + 1 < SEQLEN else float("inf")
                    rec["gtR0"] = err > r0 * r0
                    if 0 < target < SEQLEN - 1:
                        rm1 = (float(SEQ[target]) * SEQ[target + 1]) / (SEQ[0] * SEQ[0])
                        rec["gtRm1"] = err > rm1 * rm1
                    ex = 1.0 / (2 * k + 1)
                    fac = 0.94 / math.pow(err / 0.65, ex) if err > 0 else float("inf")
                    power = math.pow(0.02, ex)
                    fac = max(power / 4.0, min(1.0 / power, fac))
                    eo = abs(dt_in * fac)
                    rec["optok"] = close(eo, o) and close(CPS[k] / o if o else float("inf"), c)
                    opt[k] = o
                    cptu[k] = c
            rec["l8adj"] = [(j - 1) in cptu and j in cptu and cptu[j - 1] < 0.8 * cptu[j] for j in range(1, SEQLEN)]
            ev.append(rec)
        elif name == "bs_end":
            if cptu is None:
                continue
            rej, k, tgt, prop, prej, fol, mn, mx = a
            k = int(k)

            def fin(x):
                x = abs(x)
                if mn != 0.0 and x < mn:
                    x = mn
                if mx != 0.0 and x > mx:
                    x = mx
                return x if dt_in >= 0.0 else -x
            cands = {"stab": abs(dt_in * 0.5)}
            for j, o in opt.items():
                cands["opt%d" % j] = o
                cands["min%d" % j] = min(abs(dt_in), o)
                for j2, o2 in opt.items():
                    cands["min2_%d_%d" % (j, j2)] = min(o, o2)
                for a2 in range(1, SEQLEN):
                    cands["scaled%d_%d" % (j, a2)] = o * CPS[a2] / CPS[j]
            srcs = sorted(n for n, v in cands.items() if fin(v) == prop)
            ev.append({"ev": "end", "rej": bool(rej), "k": k, "target": int(tgt), "prevRej": bool(prej), "fol": bool(fol), "srcs": srcs,
                       "l8adj": [(j - 1) in cptu and j in cptu and cptu[j - 1] < 0.8 * cptu[j] for j in range(1, SEQLEN)],
                       "l9adj": [(j - 1) in cptu and j in cptu and cptu[j] < 0.9 * cptu[j - 1] for j in range(1, SEQLEN)],
                       "l9k2": (k - 2) in cptu and k in cptu and cptu[k] < 0.9 * cptu[k - 2],
                       "num": [dt_in, prop, mn, mx]})
            target = int(tgt)
            cptu = None
        elif name == "bs_reset":
            if cptu is None:
                ev.append({"ev": "reset"})
        elif name == "bs_err":
            prop, tgt, prej, fol = a
            last = [e for e in ev if e["ev"] == "beg"][-1]
            ev.append({"ev": "err", "same": prop == last["num"][0] and int(tgt) == last["t0"] and bool(prej) == last["prevRej"] and bool(fol) == last["fol"]})
            cptu = None
    return ev


def split_calls(ev, maxcalls):
    """keep whole calls only"""
    out, n = [], 0
    for e in ev:
        if e["ev"] == "beg":
            if n >= maxcalls:
                break
            n += 1
        out.append(e)
    while out and out[-1]["ev"] not in ("end", "err"):
        out.pop()
    return out


def harmonic(ode, ydot, y, t):
    ydot[0] = y[1]
    ydot[1] = -y[0]


def coupled(ode, ydot, y, t):
    # driven by the x coordinate of particle 1
    s = ode.contents.r.contents
    ydot[0] = y[1]
    ydot[1] = -y[0] + 0.01 * s.particles[1].x


def build(rng, cfg):
    sim = rebound.Simulation()
    sim.add(m=1.0)
    e = cfg["e"] = rng.choice([0.0, 0.3, 0.9, 0.97, 0.995])
    sim.add(m=10 ** rng.uniform(-6, -2), a=1.0, e=e, inc=rng.uniform(0, 0.5), f=rng.uniform(0, 6))
    if rng.random() < 0.6:
        sim.add(m=10 ** rng.uniform(-6, -3), a=rng.uniform(1.5, 4.0), e=rng.uniform(0, 0.4), f=rng.uniform(0, 6))
    if rng.random() < 0.3:
        sim.add(m=0.0, a=rng.uniform(0.3, 0.7), e=rng.uniform(0, 0.3), f=rng.uniform(0, 6))
        sim.N_active = sim.N - 1
    sim.move_to_com()
    return sim


def main():
    out, seed, nruns = sys.argv[1], int(sys.argv[2]), int(sys.argv[3])
    rng = random.Random(seed)
    keep = []
    with open(out, "w") as fh:
        for run in range(nruns):
            cfg = {}
            sim = build(rng, cfg)
            kind = cfg["integrator"] = rng.choice(["bs", "bs", "bs", "trace"])
            sim.integrator = kind
            sim.ri_bs.eps_rel = cfg["eps_rel"] = rng.choice([1e-3, 1e-5, 1e-8, 1e-8, 1e-11, 1e-13])
            sim.ri_bs.eps_abs = cfg["eps_abs"] = rng.choice([1e-8, 1e-8, 1e-12, 1e-5])
            sgn = rng.choice([1, -1])
            if kind == "bs":
                sim.ri_bs.min_dt = cfg["min_dt"] = rng.choice([0.0, 0.0, 0.0, 1e-3, 0.05])
                sim.ri_bs.max_dt = cfg["max_dt"] = rng.choice([0.0, 0.0, 0.0, 0.3, 2.0])
                sim.dt = cfg["dt"] = sgn * 10 ** rng.uniform(-4, 1.3)
                ode = rng.choice(["none", "none", "harmonic", "coupled"])
                cfg["ode"] = ode
                if ode != "none":
                    o = sim.create_ode(length=2, needs_nbody=(ode == "coupled"))
                    o.derivatives = harmonic if ode == "harmonic" else coupled
                    o.y[0] = 1.0
                    o.y[1] = 0.0
                    keep.append(o)
            else:
                # close approaches of two planets put TRACE into its Bulirsch-Stoer part
                sim = rebound.Simulation()
                sim.add(m=1.0)
                sim.add(m=10 ** rng.uniform(-4, -3), a=1.0, e=rng.uniform(0.0, 0.1))
                sim.add(m=10 ** rng.uniform(-4, -3), a=rng.uniform(1.02, 1.1), e=rng.uniform(0.0, 0.1), f=rng.uniform(-0.3, 0.3))
                sim.move_to_com()
                sim.integrator = "trace"
                sim.ri_bs.eps_rel = cfg["eps_rel"]
                sim.ri_bs.eps_abs = cfg["eps_abs"]
                sim.dt = cfg["dt"] = sgn * rng.uniform(0.01, 0.1)
                sim.ri_trace.peri_mode = cfg["peri_mode"] = rng.choice([0, 1, 2])
            addr = ctypes.addressof(sim)
            off = os.path.getsize(TRACE) if os.path.exists(TRACE) else 0
            init = {"target": int(sim.ri_bs._target_iter), "prevRej": bool(sim.ri_bs._previous_rejected), "fol": bool(sim.ri_bs._first_or_last_step)}
            guard = {"n": 0}

            def hb(sp, guard=guard):
                guard["n"] += 1
                if guard["n"] > 20000:
                    sp.contents._status = 1
            sim.heartbeat = hb
            script = []
            try:
                for leg in range(rng.choice([1, 2, 3])):
                    target = sim.t + sgn * rng.uniform(0.5, 6.0)
                    ex = rng.randrange(2)
                    script.append(["integrate", target, ex])
                    sim.integrate(target, exact_finish_time=ex)
                    if kind == "bs" and rng.random() < 0.3:
                        script.append(["add"])
                        sim.add(m=1e-5, a=rng.uniform(5, 7), f=rng.uniform(0, 6))      # particle number changes: new N-body ODE set
            except Exception as ex_:  # noqa: BLE001
                cfg["error"] = str(ex_)[:80]
            sim._heartbeat = ctypes.cast(None, type(sim._heartbeat))
            cfg["script"] = script
            ev = split_calls(convert(hook_since(off, addr)), 250)
            fh.write(json.dumps({"cfg": cfg, "init": init, "events": ev}) + "\n")
            if os.path.getsize(TRACE) > 30_000_000:
                open(TRACE, "w").close()
            del sim


if __name__ == "__main__":
    main()
