"""Tiny parser for the struct definitions of src/rebound.h (after gcc -E): the generated C view used
by the persistence audit (C05) and the mirror check (C18) is derived from the header, not written
by hand."""
import os
import re
import subprocess

import common


def preprocessed():
    r = subprocess.run(["gcc", "-E", "-P", "-D_GNU_SOURCE", "-DLIBREBOUND", "-DSERVER", os.path.join(common.REPO, "src", "rebound.h")],
                       capture_output=True, text=True)
    if r.returncode != 0:
        raise common.MachineryError("gcc -E rebound.h failed: %s" % r.stderr[-500:])
    return r.stdout


def _split_members(body):
    out, depth, cur = [], 0, ""
    for ch in body:
        if ch in "{(":
            depth += 1
        elif ch in "})":
            depth -= 1
        if ch == ";" and depth == 0:
            out.append(cur.strip())
            cur = ""
        else:
            cur += ch
    return [m for m in out if m]


def structs(text=None):
    """{struct name: [(member name, kind, ctype)]}; kind in scalar|enum|pointer|fp|array|struct"""
    text = text or preprocessed()
    res = {}
    for m in re.finditer(r"\bstruct\s+(\w+)\s*\{", text):
        name = m.group(1)
        i = m.end()
        depth = 1
        j = i
        while depth and j < len(text):
            if text[j] == "{":
                depth += 1
            elif text[j] == "}":
                depth -= 1
            j += 1
        body = text[i:j - 1]
        members = []
        for mem in _split_members(body):
            mem = re.sub(r"\s+", " ", mem)
            if re.search(r"\(\s*\*\s*(\w+)\s*\)\s*\(", mem):
                members.append((re.search(r"\(\s*\*\s*(\w+)\s*\)", mem).group(1), "fp", mem))
                continue
            if mem.startswith("enum") and "{" in mem:
                nm = re.search(r"\}\s*(\w+)$", mem)
                if nm:
                    enums = re.findall(r"(\w+)\s*(?:=\s*([^,}]+))?\s*[,}]", mem[mem.index("{") + 1:mem.rindex("}") + 1])
                    members.append((nm.group(1), "enum", "enum", enums))
                continue
            if mem.startswith(("struct", "union")) and "{" in mem:
                continue
            am = re.match(r"(.+?)\s*(\*+)?\s*(?:restrict|__restrict|const|__restrict__)?\s*(\w+)\s*((?:\[[^\]]*\])*)$", mem)
            if not am:
                continue
            ctype, ptr, nm, arr = am.group(1).strip(), am.group(2), am.group(3), am.group(4)
            ctype = re.sub(r"\b(volatile|const)\b", "", ctype).strip()
            if ptr or "*" in ctype:
                members.append((nm, "pointer", ctype + "*"))
            elif arr:
                members.append((nm, "array", ctype + arr))
            elif ctype.startswith("struct"):
                members.append((nm, "struct", ctype))
            else:
                members.append((nm, "scalar", ctype))
        if members and name not in res:
            res[name] = members
    return res


def flat_scalar_paths(root="reb_simulation", st=None, prefix="", depth=0):
    """member paths (a.b.c) of all scalar/enum members reachable by value from struct root"""
    st = st or structs()
    out = []
    for mem in st.get(root, []):
        nm, kind, ctype = mem[0], mem[1], mem[2]
        if kind in ("scalar", "enum"):
            out.append((prefix + nm, kind, ctype))
        elif kind == "struct" and depth < 3:
            sub = ctype.replace("struct ", "").strip()
            out += flat_scalar_paths(sub, st, prefix + nm + ".", depth + 1)
    return out
