import json
import project as P
print(json.dumps([d["name"] for d in P.descriptors()]))
