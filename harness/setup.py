"""MANIFEST.setup_cmd: offline build of everything the checks need (idempotent)."""
import os, sys
sys.path.insert(0, os.path.dirname(os.path.abspath(__file__)))
import common
d = common.build("o3")
print("built", d)
