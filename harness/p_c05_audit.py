"""Persistence audit for members that are NOT in the descriptor table (C05, 'Influential ⊆ Persisted').

The C view comes from the header (hparse): every scalar/enum member reachable by value from
struct reb_simulation.  A member that (i) has no descriptor, (ii) is a public attribute of the Python
mirror and (iii) is documented in docs/*.md as something the user sets, must survive save/load:
it is set to another legal value through the documented Python attribute, the simulation is
reproduced through every route, and the value is read back at the header's offset."""
import glob
import json
import os

import common
import hparse
from common import MachineryError

HERE = os.path.dirname(os.path.abspath(__file__))


def run(rep, sc, lf, quick):
    paths = hparse.flat_scalar_paths()
    docs = ""
    for f in glob.glob(os.path.join(common.REPO, "docs", "*.md")):
        docs += open(f, errors="ignore").read()
    jf = os.path.join(sc, "np_paths.json")
    json.dump([[p, k] for p, k, _ in paths if p.split(".")[-1] in docs], open(jf, "w"))
    out = os.path.join(sc, "np_out.json")
    r = common.run_worker(os.path.join(HERE, "w_c05_np.py"), [jf, out], timeout=1800)
    if r.returncode != 0:
        raise MachineryError("non-persisted audit failed: %s" % r.stderr[-1500:])
    res = json.load(open(out))
    rep.cov["nonpersisted_audit"] = {"members_without_descriptor": res["without_descriptor"], "documented_public_options_tested": len(res["tested"])}
    for t in res["tested"]:
        if not t["survives"]:
            rep.violation("notpersisted:" + t["path"],
                          "documented option %s has no entry in the binary field descriptor list: set to %s, after %s it reads %s"
                          % (t["path"], t["set"], t["route"], t["got"]), t)
