"""C13 worker.

 usage: w_c13.py loop <out_free.ndjson> <out_merge.ndjson> <seed> <ntraces>
        w_c13.py geom <geom.txt> <out.json> <stride>
"""
import ctypes
import json
import math
import os
import random
import sys
import warnings

TRACE = os.environ.get("REBOUND_VERIF_TRACE")
import rebound  # noqa: E402
from rebound import clibrebound  # noqa: E402

warnings.simplefilter("ignore")


class Recorder:
    def __init__(self):
        self.fh = open(TRACE, "a+")

    def mark(self):
        self.fh.seek(0, 2)
        return self.fh.tell()

    def since(self, off, addr):
        self.fh.seek(off)
        out = []
        for line in self.fh.read().splitlines():
            p = line.split()
            if len(p) < 3 or int(p[2], 16) != addr:
                continue
            out.append((p[0], [float(x) for x in p[3:]]))
        return out


REC = None

# ---- cluster shapes: edges are pairs of overlapping spheres (radius 1, spacing 1.5; non-edges are >= 2.6 apart)
SHAPES = {
    "pair": ([(0, 0), (1.5, 0)]),
    "chain3": ([(0, 0), (1.5, 0), (3.0, 0)]),
    "chain4": ([(0, 0), (1.5, 0), (3.0, 0), (4.5, 0)]),
    "triangle": ([(0, 0), (1.5, 0), (0.75, 1.299)]),
    "star": ([(0, 0), (1.5, 0), (-1.5, 0), (0, 1.5)]),
    "two_pairs": ([(0, 0), (1.5, 0), (10, 0), (11.5, 0)]),
    "nested": ([(0, 0), (10, 0), (11.5, 0), (1.5, 0)]),          # pairs (0,3) and (1,2): nested indices
    "square": ([(0, 0), (1.5, 0), (1.5, 1.5), (0, 1.5)]),
    "triangle_tail": ([(0, 0), (1.5, 0), (0.75, 1.299), (3.0, 0), (20, 20)]),
}


def build(shape, mode, ks, rng, masses=None, extra_far=0):
    pts = list(SHAPES[shape])
    for e in range(extra_far):
        pts.append((30.0 + 7 * e, -25.0))
    order = list(range(len(pts)))
    rng.shuffle(order)
    sim = rebound.Simulation()
    sim.t = 1.0
    sim.dt = 0.125
    sim.integrator = "none"
    sim.gravity = "none"
    if mode in ("tree", "linetree"):
        sim.configure_box(128.0)
    sim.collision = mode
    sim.collision_resolve_keep_sorted = 1 if ks else 0
    cx = sum(p[0] for p in pts[:len(SHAPES[shape])]) / len(SHAPES[shape])
    cy = sum(p[1] for p in pts[:len(SHAPES[shape])]) / len(SHAPES[shape])
    for n, idx in enumerate(order):
        x, y = pts[idx]
        m = masses[n] if masses else 1.0
        # contracting velocity field: every overlapping pair approaches
        sim.add(m=m, x=x, y=y, z=0.0, vx=-0.25 * (x - cx), vy=-0.25 * (y - cy), vz=0.0, r=1.0, hash=n + 1)
    return sim


def parse_search(raw):
    """-> (header, found_pend, found_parts, [(call, after_pend, after_parts)])"""
    hdr = None
    found = None
    calls = []
    cur = None
    for name, a in raw:
        if name == "col_search":
            hdr = {"n": int(a[0]), "ks": int(a[1]) == 1, "tree": int(a[2]) == 1}
        elif name == "col_found":
            found = {"pend": [], "parts": []}
            cur = found
        elif name == "col_call":
            calls.append({"i": int(a[0]), "p1": int(a[1]), "p2": int(a[2]), "out": int(a[3]), "pend": [], "parts": []})
            cur = None
        elif name == "col_after":
            cur = calls[-1]
        elif name == "col_pend" and cur is not None:
            cur["pend"].append([int(a[1]), int(a[2])])
        elif name == "col_part" and cur is not None:
            cur["parts"].append((int(a[1]), math.isnan(a[2])))
    return hdr, found, calls


def totals(sim):
    """exact integer totals on the lattice: (sum m, sum m*vx*8, sum m*vy*8, sum m*x*8, sum m*y*8)"""
    M = PX = PY = QX = QY = 0.0
    for i in range(sim.N):
        p = sim.particles[i]
        if math.isnan(p.y):
            continue
        M += p.m
        PX += p.m * p.vx
        PY += p.m * p.vy
        QX += p.m * p.x
        QY += p.m * p.y
    return [M, PX, PY, QX, QY]


def loop_mode(out_free, out_merge, seed, ntr):
    global REC
    REC = Recorder()
    rng = random.Random(seed)
    ff = open(out_free, "w")
    fm = open(out_merge, "w")
    shapes = sorted(SHAPES)
    stats = {"free": 0, "merge": 0, "bounce": 0}
    for t in range(ntr):
        shape = shapes[t % len(shapes)]
        mode = ["direct", "tree", "line", "linetree"][(t // len(shapes)) % 4]
        ks = rng.random() < 0.5
        policy = ["free", "merge", "free", "bounce"][(t // (4 * len(shapes))) % 4] if t >= 4 * len(shapes) else "free"
        if policy == "bounce" and mode in ("line", "linetree"):
            policy = "free"
        if policy == "merge" and mode in ("tree", "linetree"):
            ks = False      # keep_sorted removal with a tree is refused with an error message (documented as unsupported)
        n = len(SHAPES[shape])
        masses = None
        lattice = policy == "merge"
        sim = build(shape, mode, ks, rng, extra_far=rng.randrange(3))
        hybrid = None
        if mode in ("direct", "line") and (t // 3) % 4 == 1:
            # the hybrid integrators force the order-preserving removal, whatever the user's flag says
            hybrid = ["mercurius", "trace"][(t // 12) % 2]
            sim.integrator = hybrid
        if lattice:
            # integer lattice for exact accounting: coordinates multiples of 1/8, masses powers of two with power-of-two sums per merger
            for i in range(sim.N):
                p = sim.particles[i]
                p.x, p.y = round(p.x * 8) / 8, round(p.y * 8) / 8
                p.vx, p.vy = round(p.vx * 8) / 8, round(p.vy * 8) / 8
                p.m = 1.0
        sim.rand_seed = rng.randrange(1 << 30)
        seen = []
        pol_rng = random.Random(rng.random())

        def resolver(sp, c):
            s = sp.contents
            id1 = int(s.particles[c.p1].hash.value)
            id2 = int(s.particles[c.p2].hash.value)
            out = pol_rng.choice([0, 0, 1, 2, 3])
            seen.append((id1, id2, out))
            return out

        if policy == "free":
            sim.collision_resolve = resolver
        elif policy == "merge":
            sim.collision_resolve = "merge"
        else:
            sim.collision_resolve = "hardsphere"
        ids0 = [int(sim.particles[i].hash.value) for i in range(sim.N)]
        tot0 = totals(sim)
        # bounce diagnostics need the pre-state
        pre = [(p.m, p.x, p.y, p.z, p.vx, p.vy, p.vz) for p in sim.particles]
        off = REC.mark()
        clibrebound.reb_collision_search(ctypes.byref(sim))
        raw = REC.since(off, ctypes.addressof(sim))
        hdr, found, calls = parse_search(raw)
        if hdr is None:
            continue
        arr = [h for h, _ in found["parts"]]
        ev = []
        for ci, c in enumerate(calls):
            e = {"e": "resolve", "i": c["i"], "p1": c["p1"], "p2": c["p2"], "out": c["out"], "pend": c["pend"],
                 "arr": [h for h, _ in c["parts"]], "nan": [k for k, (h, isn) in enumerate(c["parts"]) if isn],
                 "id1": -1, "id2": -1, "tot": [], "bounce": []}
            if policy == "free" and ci < len(seen):
                e["id1"], e["id2"] = seen[ci][0], seen[ci][1]
                if seen[ci][2] != c["out"]:
                    e["out"] = -99          # the loop did not use the resolver's answer
            ev.append(e)
        if policy == "merge" and ev:
            tot = totals(sim)
            ev[-1]["tot"] = [int(round(x * 64)) for x in tot]
        if policy == "bounce" and ev:
            # momentum and kinetic energy before/after, and the resolved pairs must separate
            def PE(state):
                px = sum(s[0] * s[4] for s in state)
                py = sum(s[0] * s[5] for s in state)
                ke = sum(0.5 * s[0] * (s[4] ** 2 + s[5] ** 2 + s[6] ** 2) for s in state)
                return px, py, ke
            post = [(p.m, p.x, p.y, p.z, p.vx, p.vy, p.vz) for p in sim.particles]
            a, b = PE(pre), PE(post)
            dp = max(abs(a[0] - b[0]), abs(a[1] - b[1])) / max(1.0, abs(a[0]), abs(a[1]))
            de = abs(a[2] - b[2]) / max(1e-300, a[2])
            # the LAST resolved pair is separating (earlier ones may have been hit again by a later bounce)
            c = calls[-1]
            p, q = sim.particles[c["p1"]], sim.particles[c["p2"]]
            sep = (p.vx - q.vx) * (p.x - q.x) + (p.vy - q.vy) * (p.y - q.y) + (p.vz - q.vz) * (p.z - q.z) >= 0

            def dec(x):
                return -18 if x <= 1e-18 else int(math.floor(math.log10(x)))
            ev[-1]["bounce"] = [1 if sep else 0, dec(dp), dec(de)]
        ev.append({"e": "end"})
        if hybrid and not hdr["ks"]:
            ev.insert(0, {"e": "resolve", "i": -1, "p1": -1, "p2": -1, "out": -98, "pend": [], "arr": [], "nan": [], "id1": -1, "id2": -1, "tot": [], "bounce": []})
        tr = {"ks": hdr["ks"] or bool(hybrid), "hybrid": hybrid or "", "tree": hdr["tree"], "arr": arr, "pend": found["pend"], "events": ev, "shape": shape, "mode": mode,
              "policy": policy, "tot0": [int(round(x * 64)) for x in tot0] if policy == "merge" else [], "rand_seed": int(sim.rand_seed),
              "ids0": ids0}
        (fm if policy == "merge" else ff).write(json.dumps(tr) + "\n")
        stats["merge" if policy == "merge" else ("bounce" if policy == "bounce" else "free")] += 1
    ff.close()
    fm.close()
    print(json.dumps(stats))


def geom_mode(geomfile, outfile, stride):
    """Run every lattice configuration printed by CollisionGeom through the four search modes."""
    res = {"checked": 0, "violations": [], "samples": [], "required": 0, "boundary": 0}
    lines = [ln for ln in open(geomfile) if ln.startswith('<<"G"')]
    # family B (non-cubic boxes) is small: always run all of it; family A is strided
    famb = [ln for ln in lines if ln.strip()[2:-2].split(",")[15] == "1"]
    lines = [ln for ln in lines if ln.strip()[2:-2].split(",")[15] != "1"]
    lines = sorted(set(lines))
    found_pairs = []

    def resolver(sp, c):
        found_pairs.append((c.p1, c.p2))
        return 0

    # rows whose line criterion is met strictly inside the step only (fly-throughs) are always run
    mid = [ln for ln in lines if ln.strip()[2:-2].split(",")[17].strip() == "1"]
    lines = [ln for ln in lines if ln.strip()[2:-2].split(",")[17].strip() != "1"]
    res["fly_throughs"] = len(mid)
    todo = [ln for n, ln in enumerate(lines) if n % stride == 0] + famb + mid
    for n, ln in enumerate(todo):
        f = ln.strip()[2:-2].split(",")
        x1, y1, z1, x2, y2, z2, vx, vy, vz, r1, r2, lx, ly, lz, gz = [int(v) for v in f[1:16]]
        code = int(f[16])
        preq, pmay, lreq, lmay = bool(code & 1), bool(code & 2), bool(code & 4), bool(code & 8)
        cfgl = [x1, y1, z1, x2, y2, z2, vx, vy, vz, r1, r2, lx, ly, lz, gz]
        # (the line criterion is about the straight path of the last step: the same path walked with a negative step, velocities
        #  reversed, must give the same answer)
        for mode, back in (("direct", 0), ("tree", 0), ("line", 0), ("linetree", 0), ("line", 1), ("linetree", 1)):
            sgn = -1.0 if back else 1.0
            sim = rebound.Simulation()
            sim.integrator = "none"
            sim.gravity = "none"
            sim.configure_box(8.0, lx // 8, ly // 8, lz // 8)
            sim.boundary = "periodic"
            sim.N_ghost_x = 1
            sim.N_ghost_y = 1
            sim.N_ghost_z = gz
            sim.dt = sgn
            sim.dt_last_done = sgn
            sim.collision = mode
            sim.collision_resolve = resolver
            sim.add(m=1.0, x=float(x1), y=float(y1), z=float(z1), vx=sgn * float(vx), vy=sgn * float(vy), vz=sgn * float(vz), r=float(r1))
            sim.add(m=1.0, x=float(x2), y=float(y2), z=float(z2), r=float(r2))
            del found_pairs[:]
            clibrebound.reb_collision_search(ctypes.byref(sim))
            rep = any({a, b} == {0, 1} for a, b in found_pairs)
            req, may = (preq, pmay) if mode in ("direct", "tree") else (lreq, lmay)
            res["checked"] += 1
            if req:
                res["required"] += 1
            elif may:
                res["boundary"] += 1
            if (req and not rep) or (rep and not may):
                if len(res["violations"]) < 20:
                    res["violations"].append({"mode": mode + (" (negative step)" if back else ""), "cfg": cfgl, "required": req, "may": may, "reported": rep})
            if len(res["samples"]) < 3 and req:
                res["samples"].append({"mode": mode, "cfg": cfgl, "required": req, "reported": rep})
    json.dump(res, open(outfile, "w"))


def cluster_mode(outfile, seed, ntrials):
    """polydisperse crowds (sampled): isolated overlapping, approaching pairs of very unequal radii planted among small close
    neighbours (so that both sit in small tree cells), inserted in ascending, descending and random radius order; every search
    mode must hand every planted pair to the resolver and nothing else"""
    import random
    rng = random.Random(seed)
    res = {"trials": 0, "pairs": 0, "violations": []}
    found = []

    def resolver(sp, c):
        found.append((c.p1, c.p2))
        return 0
    for trial in range(ntrials):
        parts = []      # (x, y, z, vx, vy, vz, r, tag)
        centres = []
        while len(centres) < 7:
            c = (rng.uniform(-24, 24), rng.uniform(-24, 24), rng.uniform(-24, 24))
            if all(sum((a - b) ** 2 for a, b in zip(c, d)) > 12.0 ** 2 for d in centres):
                centres.append(c)
        planted = []
        for k, c in enumerate(centres):
            ra = 10 ** rng.uniform(-1.5, -0.3)
            rb = 10 ** rng.uniform(-0.2, 0.3)
            u = [rng.gauss(0, 1) for _ in range(3)]
            nu = math.sqrt(sum(x * x for x in u))
            u = [x / nu for x in u]
            sep = ra + rb - 0.2 * ra                           # overlap depth a fifth of the small radius
            a = (c[0], c[1], c[2], 0.3 * u[0], 0.3 * u[1], 0.3 * u[2], ra, ("a", k))                     # moving towards b
            b = (c[0] + sep * u[0], c[1] + sep * u[1], c[2] + sep * u[2], 0.0, 0.0, 0.0, rb, ("b", k))
            parts += [a, b]
            # a point-like companion deep inside each of them, moving away from its centre (overlapping but receding: not a collision
            # for the point criterion): makes the tree cells around both much smaller than their radii
            ea, eb = 0.03 * ra, 0.03 * rb
            parts.append((a[0] - ea * u[0], a[1] - ea * u[1], a[2] - ea * u[2], a[3] - 0.2 * u[0], a[4] - 0.2 * u[1], a[5] - 0.2 * u[2], 0.0, ("n", k)))
            parts.append((b[0] + eb * u[0], b[1] + eb * u[1], b[2] + eb * u[2], 0.2 * u[0], 0.2 * u[1], 0.2 * u[2], 0.0, ("n", k)))
        for order in ("ascending", "descending", "random"):
            ps = sorted(parts, key=lambda t: t[6]) if order == "ascending" else sorted(parts, key=lambda t: -t[6]) if order == "descending" else rng.sample(parts, len(parts))
            want = set()
            for k in range(len(centres)):
                ia = next(i for i, t in enumerate(ps) if t[7] == ("a", k))
                ib = next(i for i, t in enumerate(ps) if t[7] == ("b", k))
                want.add(frozenset((ia, ib)))
            for mode in ("direct", "tree", "line", "linetree"):
                sim = rebound.Simulation()
                sim.integrator = "none"
                sim.gravity = "none"
                sim.configure_box(64.0)
                sim.dt = 0.01
                sim.dt_last_done = 0.01
                sim.collision = mode
                sim.collision_resolve = resolver
                for t in ps:
                    sim.add(m=1.0, x=t[0], y=t[1], z=t[2], vx=t[3], vy=t[4], vz=t[5], r=t[6])
                del found[:]
                clibrebound.reb_collision_search(ctypes.byref(sim))
                got = {frozenset(p) for p in found}
                res["trials"] += 1
                res["pairs"] += len(want)
                if mode in ("line", "linetree"):
                    got = got & want if want <= got else got       # (the companions' paths overlap their hosts: only the planted pairs are demanded of the line searches)
                if got != want and len(res["violations"]) < 10:
                    miss = sorted(tuple(sorted(x)) for x in want - got)
                    extra = sorted(tuple(sorted(x)) for x in got - want)
                    res["violations"].append({"mode": mode, "order": order, "missed": miss[:4], "spurious": extra[:4],
                                              "radii": [[ps[i][6] for i in m] for m in miss[:4]], "seed": seed, "trial": trial})
                del sim
    dense_blobs(res, rng, max(4, ntrials // 2))
    bounce_rows(res)
    json.dump(res, open(outfile, "w"))


def dense_blobs(res, rng, ntrials):
    """clusters of simultaneous overlaps: blobs of 4..9 spheres that all overlap each other and contract.  The point searches must hand
    every overlapping, approaching pair to the resolver -- a particle with several partners reports all of them, not only its nearest"""
    found = []

    def resolver(sp, c):
        found.append((c.p1, c.p2))
        return 0
    for trial in range(ntrials):
        parts = []
        for b in range(4):
            c = (-20.0 + 13.0 * b + rng.uniform(-1, 1), rng.uniform(-20, 20), rng.uniform(-20, 20))
            rad = rng.choice([1.0, 0.5, 2.0])
            for k in range(rng.randint(4, 9)):
                while True:
                    d = [rng.uniform(-0.6, 0.6) * rad for _ in range(3)]
                    if sum(x * x for x in d) <= (0.6 * rad) ** 2:
                        break
                parts.append((c[0] + d[0], c[1] + d[1], c[2] + d[2], -0.3 * d[0], -0.3 * d[1], -0.3 * d[2], rad * rng.choice([1.0, 1.0, 0.7])))
        rng.shuffle(parts)
        want = set()
        for i in range(len(parts)):
            for j in range(i + 1, len(parts)):
                a, b2 = parts[i], parts[j]
                dx = [a[q] - b2[q] for q in range(3)]
                dv = [a[q + 3] - b2[q + 3] for q in range(3)]
                if sum(x * x for x in dx) < (a[6] + b2[6]) ** 2 and sum(x * y for x, y in zip(dx, dv)) < 0:
                    want.add(frozenset((i, j)))
        for mode in ("direct", "tree"):
            sim = rebound.Simulation()
            sim.integrator = "none"
            sim.gravity = "none"
            sim.configure_box(64.0)
            sim.dt = 0.01
            sim.collision = mode
            sim.collision_resolve = resolver
            for t in parts:
                sim.add(m=1.0, x=t[0], y=t[1], z=t[2], vx=t[3], vy=t[4], vz=t[5], r=t[6])
            del found[:]
            clibrebound.reb_collision_search(ctypes.byref(sim))
            got = {frozenset(p) for p in found}
            res["trials"] += 1
            res["pairs"] += len(want)
            if got != want and len(res["violations"]) < 10:
                miss = sorted(tuple(sorted(x)) for x in want - got)
                extra = sorted(tuple(sorted(x)) for x in got - want)
                res["violations"].append({"mode": mode, "order": "dense blobs (%d of %d pairs reported)" % (len(got & want), len(want)), "missed": miss[:4], "spurious": extra[:4],
                                          "radii": [[parts[i][6] for i in m] for m in miss[:4]], "seed": -1, "trial": trial})
            del sim


def bounce_rows(res):
    """hard-sphere bounces of pairs with very unequal and zero radii: finite result, momentum to rounding, kinetic energy at restitution 1,
    the pair left separating -- all four search modes"""
    n = 0
    for r1, r2 in ((1.0, 0.0), (0.0, 1.0), (0.5, 2.0), (1e-3, 1.0), (1.0, 1.0), (2.0, 1e-6)):
        for m1, m2 in ((1.0, 1.0), (1.0, 1e-3), (2.5, 0.7)):
            for mode in ("direct", "tree", "line", "linetree"):
                sim = rebound.Simulation()
                sim.integrator = "none"
                sim.gravity = "none"
                sim.configure_box(64.0)
                sim.dt = 0.01
                sim.dt_last_done = 0.01
                sim.collision = mode
                sim.collision_resolve = "hardsphere"
                sep = 0.9 * (r1 + r2)
                sim.add(m=m1, x=-1.0, y=0.5, z=0.25, vx=0.4, vy=0.1, vz=-0.05, r=r1)
                sim.add(m=m2, x=-1.0 + sep * 0.8, y=0.5 + sep * 0.6, z=0.25, vx=-0.3, vy=-0.2, vz=0.1, r=r2)
                p0 = [(p.m, p.x, p.y, p.z, p.vx, p.vy, p.vz) for p in sim.particles]
                clibrebound.reb_collision_search(ctypes.byref(sim))
                p1 = [(p.m, p.x, p.y, p.z, p.vx, p.vy, p.vz) for p in sim.particles]
                n += 1
                P0 = [sum(q[0] * q[4 + k] for q in p0) for k in range(3)]
                P1 = [sum(q[0] * q[4 + k] for q in p1) for k in range(3)]
                K0 = sum(0.5 * q[0] * (q[4] ** 2 + q[5] ** 2 + q[6] ** 2) for q in p0)
                K1 = sum(0.5 * q[0] * (q[4] ** 2 + q[5] ** 2 + q[6] ** 2) for q in p1)
                d = [p1[1][1 + k] - p1[0][1 + k] for k in range(3)]
                dv = [p1[1][4 + k] - p1[0][4 + k] for k in range(3)]
                finite = all(math.isfinite(c) for q in p1 for c in q)
                changed = p1 != p0
                okP = finite and max(abs(a - b) for a, b in zip(P0, P1)) <= 1e-14
                okK = finite and abs(K1 - K0) <= 1e-14 * max(K0, 1e-300) * 4
                sepa = finite and sum(a * b for a, b in zip(d, dv)) >= -1e-15
                if not (finite and changed and okP and okK and sepa) and len(res["violations"]) < 10:
                    res["violations"].append({"mode": mode, "order": "bounce r=(%g,%g) m=(%g,%g)" % (r1, r2, m1, m2), "missed": [], "spurious": [],
                                              "radii": [[r1, r2]], "seed": 0, "trial": -1,
                                              "bounce": {"finite": finite, "resolved": changed, "momentum": okP, "kinetic_energy": okK, "separating": sepa}})
    res["bounce_rows"] = n


if __name__ == "__main__":
    if sys.argv[1] == "cluster":
        cluster_mode(sys.argv[2], int(sys.argv[3]), int(sys.argv[4]))
        sys.exit(0)
    if sys.argv[1] == "loop":
        loop_mode(sys.argv[2], sys.argv[3], int(sys.argv[4]), int(sys.argv[5]))
    else:
        geom_mode(sys.argv[2], sys.argv[3], int(sys.argv[4]))
