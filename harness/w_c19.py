"""C19 worker.

 usage: w_c19.py server <out.ndjson> <seed> <nruns> <workdir>      served snapshots while integrating
        w_c19.py threads <out.json> <seed> <rounds>                independent simulations in threads
"""
import ctypes
import hashlib
import json
import os
import random
import socket
import sys
import threading
import time
import warnings

TRACE = os.environ.get("REBOUND_VERIF_TRACE")
import rebound  # noqa: E402
from rebound import clibrebound  # noqa: E402

warnings.simplefilter("ignore")


def free_port():
    s = socket.socket()
    s.bind(("127.0.0.1", 0))
    p = s.getsockname()[1]
    s.close()
    return p


def build(cfg, seed=0):
    sim = rebound.Simulation()
    sim.add(m=1.0)
    sim.add(m=1e-3, a=1.0, e=0.05, f=0.3)
    sim.add(m=3e-4, a=1.9, e=0.1, inc=0.05, f=2.1 + 0.01 * seed)
    sim.move_to_com()
    name = cfg["integrator"]
    sim.integrator = name
    sim.dt = 0.01
    if name == "whfast":
        sim.ri_whfast.safe_mode = cfg.get("safe", 1)
        if cfg.get("corrector"):
            sim.ri_whfast.corrector = cfg["corrector"]
    elif name == "saba":
        sim.ri_saba.safe_mode = cfg.get("safe", 1)
    elif name == "mercurius":
        sim.ri_mercurius.safe_mode = cfg.get("safe", 1)
    elif name == "eos":
        sim.ri_eos.safe_mode = cfg.get("safe", 1)
    elif name == "janus":
        sim.ri_janus.order = cfg.get("order", 6)
    elif name == "sei":
        sim.ri_sei.OMEGA = 1.0
    if cfg.get("var") == 1:
        v = sim.add_variation()
        v.particles[1].x = 1e-3
        v.particles[2].vy = -2e-3
    elif cfg.get("var") == 2:
        sim.init_megno(seed=12345)
    return sim


def state_digest(sim):
    """everything that determines the future, as far as the Python mirror exposes it"""
    h = hashlib.sha256()
    h.update(memoryview((ctypes.c_double * 2)(sim.t, sim.dt)))
    for i in range(sim.N):
        p = sim.particles[i]
        h.update(memoryview((ctypes.c_double * 7)(p.x, p.y, p.z, p.vx, p.vy, p.vz, p.m)))
    w = sim.ri_whfast
    if sim.integrator in ("whfast", "saba") and bool(w._p_jh) and w._N_allocated >= sim.N:
        for i in range(sim.N):
            p = w._p_jh[i]
            h.update(memoryview((ctypes.c_double * 7)(p.x, p.y, p.z, p.vx, p.vy, p.vz, p.m)))
        h.update(bytes([int(w.is_synchronized), int(sim.ri_saba.is_synchronized)]))
    if sim.integrator == "mercurius":
        h.update(bytes([int(sim.ri_mercurius.is_synchronized)]))
    if sim.integrator == "eos":
        h.update(bytes([int(sim.ri_eos.is_synchronized)]))
    return h.hexdigest()[:24]


def final_digest(sim):
    h = hashlib.sha256()
    h.update(memoryview((ctypes.c_double * 1)(sim.t)))
    for i in range(sim.N):
        p = sim.particles[i]
        h.update(memoryview((ctypes.c_double * 6)(p.x, p.y, p.z, p.vx, p.vy, p.vz)))
    return h.hexdigest()[:24]


def fetch(port, timeout=5.0):
    s = socket.create_connection(("127.0.0.1", port), timeout=timeout)
    s.sendall(b"GET /simulation HTTP/1.0\r\n\r\n")
    buf = b""
    while True:
        d = s.recv(65536)
        if not d:
            break
        buf += d
    s.close()
    i = buf.find(b"REBOUND Binary")
    return buf[i:] if i >= 0 else None


def read_hook(off, addr):
    out = []
    with open(TRACE) as fh:
        fh.seek(off)
        for line in fh.read().splitlines():
            p = line.split()
            if len(p) < 3 or int(p[2], 16) != addr:
                continue
            out.append((p[0], int(p[1]), [float(x) for x in p[3:]]))
    return out


def server_run(cfg, tmax, exact, seed, workdir, nreq_rng, yield_site):
    # reference: the same integration without server and without requests; digests at every step boundary
    os.environ.pop("REBOUND_VERIF_YIELD", None)       # yields only in the served run
    ref = build(cfg, seed)
    refd = {}

    def hb(sp):
        s = sp.contents
        refd[int(s.steps_done)] = state_digest(s)

    ref.heartbeat = hb
    ref.integrate(tmax, exact_finish_time=exact)
    ref._heartbeat = ctypes.cast(None, type(ref._heartbeat))
    ref_final = final_digest(ref)
    ref_steps = int(ref.steps_done)
    ref_after = state_digest(ref)          # the state once integrate() has returned (synchronised, dt restored)
    # the served run
    sim = build(cfg, seed)
    port = free_port()
    sim.usleep = cfg.get("usleep", 150.0)
    off = os.path.getsize(TRACE) if os.path.exists(TRACE) else 0
    # the user heartbeat of the served run: edits the simulation in two writes at one boundary (and undoes them),
    # and logs its begin / end into the hook file (O_APPEND, one line per write)
    hbstep = ref_steps // 2
    hookfh = open(TRACE, "a")
    addr = ctypes.addressof(sim)

    def hb2(sp):
        s = sp.contents
        kk = int(s.steps_done)
        hookfh.write("hb_b 0 %s %d\n" % (hex(addr), kk))
        hookfh.flush()
        if kk == hbstep and cfg.get("safe", 1) == 1 and cfg["integrator"] not in ("janus",):
            vx = s.particles[1].vx
            s.particles[1].vx = vx + 1.0
            time.sleep(0.004)
            s.particles[1].vx = vx
        hookfh.write("hb_e 0 %s %d\n" % (hex(addr), kk))
        hookfh.flush()

    sim.heartbeat = hb2
    sim.start_server(port)
    if yield_site:
        os.environ["REBOUND_VERIF_YIELD"] = yield_site
    bodies = []
    stop = threading.Event()

    def client():
        r = random.Random(seed * 7 + 1)
        time.sleep(0.002)
        while not stop.is_set():
            try:
                b = fetch(port)
                if b:
                    bodies.append(b)
            except OSError:
                pass
            time.sleep(r.uniform(0.0005, nreq_rng))

    th = threading.Thread(target=client)
    th.start()
    sim.integrate(tmax, exact_finish_time=exact)
    stop.set()
    th.join()
    os.environ.pop("REBOUND_VERIF_YIELD", None)
    sim._heartbeat = ctypes.cast(None, type(sim._heartbeat))
    hookfh.close()
    run_final = final_digest(sim)
    raw = read_hook(off, ctypes.addressof(sim))
    sim.stop_server()
    # served snapshots
    served = []
    for n, b in enumerate(bodies):
        fn = os.path.join(workdir, "served_%d.bin" % n)
        open(fn, "wb").write(b)
        try:
            s = rebound.Simulation(fn)
        except Exception as e:  # noqa: BLE001
            served.append({"steps": -1, "boundary": False, "cont": False, "err": str(e)[:120]})
            continue
        k = int(s.steps_done)
        d = state_digest(s)
        isb = refd.get(k) == d or (k == ref_steps and d == ref_after)
        cont = None
        if k <= ref_steps:
            if s.t < tmax - 1e-12 * abs(tmax):
                s.integrate(tmax, exact_finish_time=exact)
            else:
                # already at the target (to within the 1e-12 by which integrate() itself accepts the final, shortened step) or one overshoot past
                # it: the run this snapshot was taken from only synchronises from here; a fresh integrate() call would take one more step of a
                # rounding error's length or step back
                s.synchronize()
            cont = final_digest(s) == ref_final
        served.append({"steps": k, "boundary": isb, "cont": bool(cont), "size": len(b)})
        os.remove(fn)
    # events for TLC: crit_b/crit_e, step_b/step, serve_b/serve_e, ce_sync_b/e, fin_sync_b/e in emission order
    ev = []
    si = 0
    unmatched_events = 0
    skipped_bodies = []
    crit_seen = False
    for name, seq, a in raw:
        if name == "crit_b":
            crit_seen = True
        if name in ("crit_b", "crit_e", "ce_sync_b", "ce_sync_e", "fin_sync_b", "fin_sync_e"):
            ev.append({"e": name, "k": int(a[0]), "boundary": True, "cont": True})
        elif name == "serve_b":
            ev.append({"e": "serve_b", "k": int(a[0]), "boundary": True, "cont": True})
        elif name == "serve_e":
            # the body that belongs to this serve event: the next one received that carries this step count (a response the client
            # lost -- time-out under load -- leaves a serve event without a body; it must not shift the pairing of the others)
            k_ = int(a[0])
            j = next((q for q in range(si, len(served)) if served[q]["steps"] == k_), None)
            if j is None:
                unmatched_events += 1
                ev.append({"e": "serve_e", "k": k_, "boundary": True, "cont": True})
            else:
                skipped_bodies += [served[q] for q in range(si, j)]
                sv = served[j]
                si = j + 1
                ev.append({"e": "serve_e", "k": k_, "boundary": bool(sv["boundary"]), "cont": bool(sv["cont"])})
        elif name == "step":
            ev.append({"e": "step", "k": int(a[3]), "boundary": True, "cont": True})
        elif name in ("hb_b", "hb_e"):
            if crit_seen:           # the heartbeat before the first step runs before the loop (no lock involved)
                ev.append({"e": name, "k": int(a[0]), "boundary": True, "cont": True})
    skipped_bodies += served[si:]
    # (a body that no serve event accounts for is judged on its own by the caller: a boundary state that continues bit for bit)
    return {"cfg": cfg, "exact": exact, "tmax": tmax, "yield": yield_site, "events": ev, "transparent": run_final == ref_final, "serve_events_without_body": unmatched_events,
            "bodies_without_serve_event": skipped_bodies[:20],
            "nserved": len(served), "served": served[:40], "ref_steps": ref_steps}


CFGS = [{"integrator": "whfast", "safe": 1}, {"integrator": "whfast", "safe": 0}, {"integrator": "whfast", "safe": 0, "corrector": 11},
        {"integrator": "ias15"}, {"integrator": "leapfrog"}, {"integrator": "mercurius", "safe": 1}, {"integrator": "mercurius", "safe": 0},
        {"integrator": "saba", "safe": 0}, {"integrator": "eos", "safe": 0}, {"integrator": "janus"}, {"integrator": "bs"}, {"integrator": "trace"},
        # variational particles: the snapshot writer sees internal arrays sized for N + N_var
        {"integrator": "ias15", "var": 1}, {"integrator": "whfast", "safe": 1, "var": 1}, {"integrator": "ias15", "var": 2}]


# independent-simulation runs only: several collisions per step that share a particle, so that the (per-simulation, seeded) random order of
# resolution matters -- it must come from the simulation's own generator, not from one shared by the process
COLL_CFGS = [{"integrator": "leapfrog", "coll": "merge"}, {"integrator": "leapfrog", "coll": "hardsphere"}, {"integrator": "ias15", "coll": "merge"},
             {"integrator": "whfast", "safe": 1, "coll": "hardsphere"}]


def add_clumps(sim, cfg, seed):
    rng = random.Random(seed)
    sim.collision = "direct"
    sim.collision_resolve = cfg["coll"]
    sim.rand_seed = 1000 + seed % 7
    for c in range(3):
        cx, cy = 6.0 + 3.0 * c, -4.0 + 2.5 * c
        for k in range(4):
            sim.add(m=1e-6 * (k + 1), r=0.05, x=cx + 0.06 * k + 0.01 * rng.random(), y=cy + 0.03 * (k % 2), z=0.01 * k,
                    vx=-0.4 * (k - 1.5), vy=0.3 + 0.05 * rng.random(), vz=0.0)


def server_mode(out, seed, nruns, workdir):
    os.chdir(workdir)
    if not os.path.exists("rebound.html"):
        open("rebound.html", "w").write("<html></html>")
    rng = random.Random(seed)
    ys = os.environ.get("REBOUND_VERIF_YIELD", "")
    unsafe = [c for c in CFGS if c.get("safe") == 0]
    with open(out, "w") as fh:
        for n in range(nruns):
            cfg = dict(CFGS[n % len(CFGS)]) if not ys else dict(unsafe[n % len(unsafe)])
            exact = (n // len(CFGS)) % 2
            tmax = 1.5 + rng.random()
            if ys:
                cfg["usleep"] = 20.0
            tr = server_run(cfg, tmax, exact, seed + n, workdir, 0.004 if not ys else 0.02, ys)
            fh.write(json.dumps(tr) + "\n")


# ------------------------------------------------------------------------------------------
def work_item(kind, seed):
    """one independent piece of work on its own simulation; returns a digest"""
    allc = CFGS + COLL_CFGS
    cfg = allc[kind % len(allc)]
    if cfg["integrator"] == "janus":
        cfg = dict(cfg, order=[2, 4, 6, 8, 10][seed % 5])
    sim = build(cfg, seed)
    if cfg.get("coll"):
        add_clumps(sim, cfg, seed)
    sim.integrate(0.6 + 0.05 * (seed % 5), exact_finish_time=seed % 2)
    c = sim.copy()
    c.integrate(sim.t + 0.2)
    import pickle
    s2 = pickle.loads(pickle.dumps(c))
    s2.steps(5)
    d = final_digest(s2) + final_digest(sim)
    del c, s2, sim
    return d


def threads_mode(out, seed, rounds):
    res = {"rounds": 0, "items": 0, "mismatches": []}
    for rd in range(rounds):
        items = [(k, seed * 1000 + rd * 50 + k) for k in range(len(CFGS) + len(COLL_CFGS))] + [(9, seed * 1000 + rd * 50 + 40 + j) for j in range(4)] + \
                [(len(CFGS) + j % len(COLL_CFGS), seed * 1000 + rd * 50 + 60 + j) for j in range(6)]
        seq = [work_item(k, s) for k, s in items]
        conc = [None] * len(items)

        def run(i):
            conc[i] = work_item(*items[i])

        ths = [threading.Thread(target=run, args=(i,)) for i in range(len(items))]
        for t in ths:
            t.start()
        for t in ths:
            t.join()
        for i, (a, b) in enumerate(zip(seq, conc)):
            res["items"] += 1
            if a != b:
                res["mismatches"].append({"round": rd, "item": items[i], "cfg": (CFGS + COLL_CFGS)[items[i][0] % len(CFGS + COLL_CFGS)]})
        res["rounds"] += 1
    json.dump(res, open(out, "w"))


if __name__ == "__main__":
    if sys.argv[1] == "server":
        server_mode(sys.argv[2], int(sys.argv[3]), int(sys.argv[4]), sys.argv[5])
    else:
        threads_mode(sys.argv[2], int(sys.argv[3]), int(sys.argv[4]))
