"""C04 -- isolated systems conserve momentum, angular momentum and (as advertised) energy.

 Decided parts
   (i)  Diagnostics.tla: energy (collinear integer configurations -> rational), angular momentum and centre of
        mass as exact functions incl. N_active, testparticle_type and the energy offset; TLC prints 888 lattice
        rows; reb_simulation_energy / angular_momentum / com must return them (energy 16 ulp, L bit-exact, com 4 ulp).
   (ii) Newton's third law as a property of the interaction set: Gravity.tla's SymmetricWhenAllActive plus the
        unit-mass probes and the mass-weighted sum of C02 (run by ./check C02).
   (iii) mass / momentum / mass-moment across merging collisions in any order: Collisions + Trace_Collisions
        (clause MassMomentumCOM, run by ./check C13).
   (iv) the centre-of-mass degree of freedom is advanced once per unit of drift, also across deferred
        synchronisation: Schedule's Balanced over the com operators on hook traces (run by ./check C09).
 Sampled part (A5): 19 integrator configurations x regular / eccentric systems in a moving frame, 600 (quick) /
   4000 steps in 12 integrate() chunks (interleaved synchronisation): momentum and uniform centre-of-mass motion,
   angular momentum, energy error within the class table of Diagnostics.tla, and no energy drift between the
   two halves for the symplectic families.
"""
import json
import os
import re
import shutil

import common
from common import MachineryError

LEVEL = "model_checking"
HERE = os.path.dirname(os.path.abspath(__file__))


def run(tier, rep):
    common.build()
    sc = common.scratch("c04")
    res = common.run_tlc("Diagnostics", "Diagnostics", workers=1, coverage=False, timeout=900)
    if res.violation:
        rep.violation("model:Diagnostics:" + res.violation, "Diagnostics violates " + res.violation, {})
        return
    if not res.ok:
        raise MachineryError("Diagnostics did not complete: %s" % res.out[-1500:])
    rep.add(states=res.distinct, transitions=res.states)
    rows = []
    for ln in sorted(set(l for l in res.out.splitlines() if l.startswith('<<"'))):
        m = re.match(r'^<<"(\w)", "(.*)">>$', ln)
        if m:
            rows.append([m.group(1), json.loads(m.group(2).replace('\\"', '"'))])
    if len(rows) < 400:
        raise MachineryError("Diagnostics printed %d rows" % len(rows))
    tf = os.path.join(sc, "table.ndjson")
    open(tf, "w").write("\n".join(json.dumps(r) for r in rows) + "\n")
    out = os.path.join(sc, "out.json")
    r = common.run_worker(os.path.join(HERE, "w_c04.py"), [tf, out, str(common.seed()), tier], timeout=3000)
    if r.returncode != 0:
        if r.returncode < 0:
            rep.violation("crash", "real code crashed (signal %d)" % -r.returncode, {"stderr": r.stderr[-1500:]})
            return
        raise MachineryError("worker failed: %s" % r.stderr[-2500:])
    o = json.load(open(out))
    rep.add(evaluations=o["lattice"] + o["runs"], traces_validated_against_impl=o["lattice"], distinct_nontrivial=o["lattice"] + o["runs"],
            rule="lattice rows of the TLC table (all distinct); sampled runs per (integrator configuration, system)", exhaustive=False)
    rep.cov.update({"lattice_rows": o["lattice"], "sampled_runs": o["runs"], "observed_decades": o["observed"], "momentum_probes": o.get("probes", 0), "momentum_probe_worst": o.get("probe_worst"), "encounter_energy": o.get("encounter_energy"), "merger_worst_dP": o.get("merger_worst_dP"),
                    "decided_elsewhere": "(ii) ./check C02, (iii) ./check C13 clause MassMomentumCOM, (iv) ./check C09 clause Balanced"})
    rep.sample({"kind": "lattice row", "row": rows[3]})
    for v in o["violations"]:
        k = v["kind"]
        if k in ("energy", "angular-momentum", "com"):
            key = "%s:n%s" % (k, v["cfg"]["n"])
            desc = "%s diagnostic on a lattice configuration %s: returned %s, defined value %s" % (k, json.dumps(v["cfg"])[:200], v["got"], v["specified"])
        else:
            key = "%s:%s:%s" % (k, v["integrator"], json.dumps(v.get("opts"), sort_keys=True))
            desc = "%s: %s" % (k, json.dumps({x: v[x] for x in v if x != "kind"})[:400])
        rep.violation(key, desc, v)
    rep.assumptions += ["conservation over time is sampled (A5): one regular and one eccentric system per configuration, classes set >= 2 decades above the observed maxima",
                        "clauses (ii)-(iv) are decided by the checks of C02, C13 and C09 on the same specification tree"]
    shutil.rmtree(sc, ignore_errors=True)


def replay(path):
    print(json.dumps(json.load(open(path)), indent=1)[:4000])
    return 0
