"""C20 worker: units, rotations, frames.  usage: w_c20.py <table.txt> <out.json> <seed> <tier>"""
import ctypes
import itertools
import json
import math
import random
import sys
import warnings

import rebound
from rebound import units as U
from rebound import Rotation

warnings.simplefilter("ignore")


def val(si):
    hi, lo, ex = si
    return (hi * 10 ** 9 + lo) * 10.0 ** ex


def mat_of(q):
    cols = [q * v for v in ([1, 0, 0], [0, 1, 0], [0, 0, 1])]
    return [[cols[j].x if i == 0 else cols[j].y if i == 1 else cols[j].z for j in range(3)] for i in range(3)]


def mat_close(a, b, tol=1e-14):
    return all(abs(a[i][j] - b[i][j]) <= tol for i in range(3) for j in range(3))


def matmul(a, b):
    return [[sum(a[i][k] * b[k][j] for k in range(3)) for j in range(3)] for i in range(3)]


def unflat(f):
    return [f[0:3], f[3:6], f[6:9]]


def apply(m, v):
    return [sum(m[i][k] * v[k] for k in range(3)) for i in range(3)]


def norm(v):
    return math.sqrt(sum(c * c for c in v))


def viol(res, kind, **kw):
    if len(res["violations"]) < 40:
        res["violations"].append(dict(kind=kind, **kw))


ALIASES = []


def units_part(res, dims, si, rng, tier):
    L, T, M = U.lengths_SI, U.times_SI, U.masses_SI
    # names of one unit carry one size; sizes fixed by definition
    allu = {}
    for tb in (L, T, M):
        allu.update(tb)
    for grp in ALIASES:
        for nm in grp[1:]:
            res["unit_checks"] += 1
            if nm not in allu or grp[0] not in allu or allu[nm] != allu[grp[0]]:
                viol(res, "unit-alias", name=nm, same_unit_as=grp[0], sizes=[allu.get(nm), allu.get(grp[0])])
    for nm, want in (("s", 1.0), ("m", 1.0), ("kg", 1.0), ("g", 1e-3), ("gyr", 31557600.0e9)):
        res["unit_checks"] += 1
        if allu.get(nm) != want:
            viol(res, "si-constant", name=nm, table=allu.get(nm), specified=want)
    if not allu["sidereal_yr"] != allu["yr"]:
        viol(res, "unit-alias", name="sidereal_yr", same_unit_as="(must differ from) yr", sizes=[allu["sidereal_yr"], allu["yr"]])
    # SI constants
    consts = {"au": L["au"], "yr": T["yr"], "day": T["day"], "hr": T["hr"], "km": L["km"], "cm": L["cm"], "pc": L["pc"], "kyr": T["kyr"], "myr": T["myr"], "G": U.G_SI,
              "GMsun": U.G_SI * M["msun"], "GMearth": U.G_SI * M["mearth"], "GMjupiter": U.G_SI * M["mjupiter"]}
    for k, got in consts.items():
        want = val(si[k])
        res["unit_checks"] += 1
        if abs(got / want - 1) > 1e-9:
            viol(res, "si-constant", name=k, table=got, specified=want)
    triples = [(l, t, m) for l in L for t in T for m in M]
    res["unit_triples"] = len(triples)
    # every single-dimension pair + seeded triples pairs
    pairs = []
    for l1, l2 in itertools.product(L, L):
        pairs.append(((l1, "s", "kg"), (l2, "s", "kg")))
    for t1, t2 in itertools.product(T, T):
        pairs.append((("m", t1, "kg"), ("m", t2, "kg")))
    for m1, m2 in itertools.product(M, M):
        pairs.append((("m", "s", m1), ("m", "s", m2)))
    for _ in range(300 if tier == "quick" else 6000):
        pairs.append((rng.choice(triples), rng.choice(triples)))

    def S(u):
        return (L[u[0]], T[u[1]], M[u[2]])

    fields = {"x": "x", "y": "x", "z": "x", "r": "r", "vx": "v", "vy": "v", "vz": "v", "ax": "a", "ay": "a", "az": "a", "m": "m"}
    for a, b in pairs:
        p = rebound.Particle(m=1., x=1., y=1., z=1., vx=1., vy=1., vz=1., r=1.)
        p.ax = p.ay = p.az = 1.0
        U.units_convert_particle(p, a[0], a[1], a[2], b[0], b[1], b[2])
        sa, sb = S(a), S(b)
        res["unit_checks"] += 1
        for f, q in fields.items():
            d = dims[q]
            want = 1.0
            for k in range(3):
                want *= (sa[k] / sb[k]) ** d[k]
            got = getattr(p, f)
            if not abs(got / want - 1) <= 1e-13:
                viol(res, "unit-conversion", quantity=f, frm=a, to=b, got=got, predicted=want, dimension=d)
                break
    # G, transitivity, reversibility, unit independence of the period through the simulation interface
    for _ in range(40 if tier == "quick" else 600):
        a, b, c = rng.choice(triples), rng.choice(triples), rng.choice(triples)
        sim = rebound.Simulation()
        sim.units = a
        d = dims["G"]
        sa = S(a)
        wantG = U.G_SI * sa[2] ** (-d[2]) * sa[1] ** (-d[1]) / sa[0] ** d[0]
        res["unit_checks"] += 1
        if not abs(sim.G / wantG - 1) <= 1e-13:
            viol(res, "unit-G", units=a, G=sim.G, predicted=wantG)
            continue
        sim.add(m=1.0)
        sim.add(m=1e-3, a=1.3, e=0.2, f=0.4, inc=0.3)
        P_a = sim.particles[1].P * sa[1]
        # the same orbit specified through its time of pericentre passage (computed here from the mean anomaly and this unit system's G)
        # is the same particle, whatever G is
        p1 = sim.particles[1]
        o1 = p1.orbit(primary=sim.particles[0])
        nmean = math.sqrt(sim.G * (1.0 + 1e-3) / 1.3 ** 3)
        for tnow in (0.0, 0.37 * o1.P):
            sim.t = tnow
            pT = rebound.Particle(simulation=sim, primary=sim.particles[0], m=1e-3, a=1.3, e=0.2, inc=0.3, T=tnow - o1.M / nmean)
            res["unit_checks"] += 1
            if any(not abs(u - w) <= 1e-9 * 1.3 for u, w in ((pT.x, p1.x), (pT.y, p1.y), (pT.z, p1.z))) or not abs(pT.vx - p1.vx) <= 1e-9 * abs(nmean * 1.3):
                viol(res, "unit-constructor-T", units=a, G=sim.G, t=tnow, from_T=(pT.x, pT.y, pT.z, pT.vx), from_f=(p1.x, p1.y, p1.z, p1.vx))
                break
        sim.t = 0.0
        ref = [(p.x, p.vx, p.m, p.y) for p in sim.particles]
        s2 = sim.copy()
        sim.convert_particle_units(*b)
        sb = S(b)
        P_b = sim.particles[1].orbit(primary=sim.particles[0]).P * sb[1]
        if not abs(P_a / P_b - 1) <= 1e-11:
            viol(res, "unit-period", frm=a, to=b, P_seconds_before=P_a, P_seconds_after=P_b)
        sim.convert_particle_units(*c)
        s2.convert_particle_units(*c)
        for p, q in zip(sim.particles, s2.particles):
            if any(not abs(u - w) <= 1e-12 * max(abs(u), abs(w), 1e-300) for u, w in ((p.x, q.x), (p.vx, q.vx), (p.m, q.m), (p.y, q.y))):
                viol(res, "unit-transitive", path=[a, b, c], via=(p.x, p.vx, p.m), direct=(q.x, q.vx, q.m))
                break
        sim.convert_particle_units(*a)
        for p, r0 in zip(sim.particles, ref):
            if any(not abs(u - w) <= 1e-12 * max(abs(u), abs(w), 1e-300) for u, w in ((p.x, r0[0]), (p.vx, r0[1]), (p.m, r0[2]), (p.y, r0[3]))):
                viol(res, "unit-reversible", path=[a, b, c, a], got=(p.x, p.vx, p.m), original=r0)
                break


def rot_part(res, rows, rng, tier):
    q4 = math.pi / 2
    group = {}
    for r in rows:
        if r[0] == "A":
            q = Rotation(angle=r[2] * q4, axis=r[1])
            name = "angle %d*pi/2 about %s" % (r[2], r[1])
        elif r[0] == "D":
            q = Rotation(angle=r[1] * 2 * math.pi / 3, axis=[1, 1, 1])
            name = "angle %d*2pi/3 about (1,1,1)" % r[1]
        elif r[0] == "E":
            q = Rotation(angle=math.pi, axis=[1, 1, 0])
            name = "angle pi about (1,1,0)"
        elif r[0] == "O":
            q = Rotation.orbit(Omega=r[1] * q4, inc=r[2] * q4, omega=r[3] * q4)
            name = "orbit(Omega=%d, inc=%d, omega=%d quarter turns)" % (r[1], r[2], r[3])
        else:
            continue
        want = unflat(r[-1])
        res["rot_checks"] += 1
        got = mat_of(q)
        if not mat_close(got, want):
            viol(res, "rotation-constructor", what=name, got=got, specified=want)
        group[name] = (q, want)
        # degenerate: read the orbital angles back and rebuild (as a rotation, angles may differ)
        # (at inc = 0 or pi only Omega +- omega is defined; Rotation.orbital documents that its angles may then be inconsistent)
        O, i, w = q.orbital()
        q2 = Rotation.orbit(Omega=O, inc=i, omega=w)
        degenerate = abs(want[2][2]) == 1
        if any(math.isnan(a) for a in (O, i, w)) or (not degenerate and not mat_close(mat_of(q2), want, 1e-7)):
            viol(res, "rotation-orbital-roundtrip", what=name, angles=[O, i, w], rebuilt=mat_of(q2), specified=want)
    names = sorted(group)
    # composition and inverse against the group table
    for a, b in itertools.product(names[:24], names[:24]):
        qa, ma = group[a]
        qb, mb = group[b]
        res["rot_checks"] += 1
        if not mat_close(mat_of(qa * qb), matmul(ma, mb)):
            viol(res, "rotation-compose", a=a, b=b)
            break
    for a in names:
        qa, ma = group[a]
        if not mat_close(mat_of(qa.inverse()), [[ma[j][i] for j in range(3)] for i in range(3)]):
            viol(res, "rotation-inverse", a=a)
            break
    # from-to on lattice directions incl. identical and antiparallel vectors
    dirs = [v for v in itertools.product((-1, 0, 1), repeat=3) if any(v)]
    for f in dirs:
        for t in dirs:
            q = Rotation.from_to(list(map(float, f)), [2.0 * c for c in t])
            res["rot_checks"] += 1
            n2 = q.ix ** 2 + q.iy ** 2 + q.iz ** 2 + q.r ** 2
            m = mat_of(q)
            img = apply(m, [c / norm(f) for c in f])
            tgt = [c / norm(t) for c in t]
            if not abs(n2 - 1) <= 1e-13 or any(not abs(a - b) <= 1e-13 for a, b in zip(img, tgt)):
                viol(res, "rotation-from-to", frm=f, to=t, quaternion_norm2=n2, image_of_from=img, wanted=tgt,
                     antiparallel=all(a * norm(t) == -b * norm(f) for a, b in zip(f, t)))
    # identical and exactly antiparallel vectors with three different components (every choice of the smallest one)
    for f in itertools.product((-3, -2, -1, 0, 1, 2, 3), repeat=3):
        if not any(f):
            continue
        for scale in (-1.0, -2.5, 1.0):
            t = [scale * c for c in f]
            q = Rotation.from_to(list(map(float, f)), t)
            res["rot_checks"] += 1
            n2 = q.ix ** 2 + q.iy ** 2 + q.iz ** 2 + q.r ** 2
            img = apply(mat_of(q), [c / norm(f) for c in f])
            tgt = [c / norm(t) for c in t]
            if not abs(n2 - 1) <= 1e-13 or any(not abs(a - b) <= 1e-13 for a, b in zip(img, tgt)):
                viol(res, "rotation-from-to", frm=f, to=t, quaternion_norm2=n2, image_of_from=img, wanted=tgt, antiparallel=scale < 0)
                break
    # to_new_axes: newz -> z and the perpendicular part of newx -> +x, also for non-unit / non-orthogonal input
    for z in dirs:
        for x in dirs:
            zz, xx = [3.0 * c for c in z], [float(c) for c in x]
            dot = sum(a * b for a, b in zip(zz, xx)) / norm(zz)
            perp = [a - dot * b / norm(zz) for a, b in zip(xx, zz)]
            if norm(perp) < 1e-9:
                continue
            q = Rotation.to_new_axes(newz=zz, newx=xx)
            res["rot_checks"] += 1
            m = mat_of(q)
            iz = apply(m, [c / norm(zz) for c in zz])
            ix = apply(m, [c / norm(perp) for c in perp])
            if any(not abs(a - b) <= 1e-12 for a, b in zip(iz, (0, 0, 1))) or any(not abs(a - b) <= 1e-12 for a, b in zip(ix, (1, 0, 0))):
                viol(res, "rotation-to-new-axes", newz=zz, newx=xx, image_of_newz=iz, image_of_newx_perp=ix)
    # particles / simulations: lengths, relative geometry, energy, |L|; variational particles rotate with the rest
    for k in range(6 if tier == "quick" else 40):
        sim = rebound.Simulation()
        sim.add(m=1.0)
        sim.add(m=1e-3, a=1.0, e=0.1, inc=0.3, Omega=1.0, f=0.5)
        sim.add(m=2e-3, a=2.1, e=0.2, inc=0.1, omega=2.0, f=2.5)
        v = sim.add_variation()
        v.particles[1].x, v.particles[2].vy, v.particles[0].z = 1e-3, -2e-3, 5e-4
        axis = [rng.uniform(-1, 1) for _ in range(3)]
        q = Rotation(angle=rng.uniform(0, 6), axis=axis)
        m = mat_of(q)
        E0, L0 = sim.energy(), norm(sim.angular_momentum())
        pre = [(p.x, p.y, p.z, p.vx, p.vy, p.vz) for p in sim.particles]
        sim.rotate(q)
        res["rot_checks"] += 1
        E1, L1 = sim.energy(), norm(sim.angular_momentum())
        if abs(E1 - E0) > 1e-13 * abs(E0) or abs(L1 - L0) > 1e-13 * L0:
            viol(res, "rotation-invariants", dE=E1 - E0, dL=L1 - L0)
        for i, p in enumerate(sim.particles):
            wp = apply(m, pre[i][0:3]) + apply(m, pre[i][3:6])
            got = (p.x, p.y, p.z, p.vx, p.vy, p.vz)
            if any(not abs(a - b) <= 1e-13 * max(1.0, abs(b)) for a, b in zip(got, wp)):
                viol(res, "rotation-simulation", particle=i, variational=i >= 3, got=got, want=wp)
                break


def frame_part(res, rng, tier):
    for k in range(20 if tier == "quick" else 300):
        n = rng.choice([2, 3, 4])
        # integer lattice, total mass a power of two: the centre of mass is exact
        masses = {2: [3, 1], 3: [5, 2, 1], 4: [9, 4, 2, 1]}[n]
        sim = rebound.Simulation()
        for i in range(n):
            sim.add(m=float(masses[i]), x=float(rng.randrange(-8, 9)), y=float(rng.randrange(-8, 9)), z=float(rng.randrange(-8, 9)),
                    vx=float(rng.randrange(-4, 5)), vy=float(rng.randrange(-4, 5)), vz=float(rng.randrange(-4, 5)))
        rel = [(sim.particles[i].x - sim.particles[0].x, sim.particles[i].vy - sim.particles[0].vy) for i in range(n)]
        s2 = sim.copy()
        sim.move_to_com()
        res["frame_checks"] += 1
        sx = sum(p.m * p.x for p in sim.particles)
        svy = sum(p.m * p.vy for p in sim.particles)
        rel2 = [(sim.particles[i].x - sim.particles[0].x, sim.particles[i].vy - sim.particles[0].vy) for i in range(n)]
        # (the centre of mass is accumulated pairwise, so it is exact only to rounding even when the total mass is a power of two)
        if abs(sx) > 1e-13 * 16 * 8 or abs(svy) > 1e-13 * 16 * 8 or any(abs(a - b) > 1e-13 for r1, r2 in zip(rel, rel2) for a, b in zip(r1, r2)):
            viol(res, "move-to-com", masses=masses, sum_mx=sx, sum_mvy=svy, relative_before=rel, relative_after=rel2)
        s2.move_to_hel()
        p0 = s2.particles[0]
        rel3 = [(s2.particles[i].x - p0.x, s2.particles[i].vy - p0.vy) for i in range(n)]
        if (p0.x, p0.y, p0.z, p0.vx, p0.vy, p0.vz) != (0.0,) * 6 or rel3 != rel:
            viol(res, "move-to-hel", masses=masses, star=(p0.x, p0.vx), relative_before=rel, relative_after=rel3)
        # scaling, adding, subtracting simulations act componentwise
        a = s2.copy()
        b = sim.copy()
        c = a + b
        d = c - b
        e = a * 2.0
        for i in range(n):
            if (c.particles[i].x, c.particles[i].vz) != (a.particles[i].x + b.particles[i].x, a.particles[i].vz + b.particles[i].vz):      # (coordinates only; masses are not added)
                viol(res, "sim-add", i=i)
            if (d.particles[i].x, d.particles[i].vz) != (c.particles[i].x - b.particles[i].x, c.particles[i].vz - b.particles[i].vz):   # componentwise, not (a+b)-b == a
                viol(res, "sim-sub", i=i)
            if (e.particles[i].x, e.particles[i].vy) != (2 * a.particles[i].x, 2 * a.particles[i].vy):
                viol(res, "sim-mul", i=i)
        # positions and velocities scaled separately (every component), and time reversal: multiply(1, -1) reverses L and keeps the energy
        g = a.copy()
        g.multiply(2.0, -0.5)
        for i in range(n):
            pa, pg = a.particles[i], g.particles[i]
            if (pg.x, pg.y, pg.z, pg.vx, pg.vy, pg.vz, pg.m) != (2.0 * pa.x, 2.0 * pa.y, 2.0 * pa.z, -0.5 * pa.vx, -0.5 * pa.vy, -0.5 * pa.vz, pa.m):
                viol(res, "sim-multiply", i=i, got=[pg.x, pg.y, pg.z, pg.vx, pg.vy, pg.vz], scaled_by=[2.0, -0.5])
        h = a.copy()
        h.multiply(1.0, -1.0)
        La, Lh = a.angular_momentum(), h.angular_momentum()
        if [Lh[k] for k in range(3)] != [-La[k] for k in range(3)] or h.energy() != a.energy():
            viol(res, "sim-time-reversal", L=[La[k] for k in range(3)], L_reversed=[Lh[k] for k in range(3)])
        # variational particles under move_to_com: d(x_i - R) = dx_i - dR, dR = sum(m dx + dm (x - R)) / M
        s3 = rebound.Simulation()
        for i in range(n):
            p = s2.particles[i]
            s3.add(m=p.m, x=p.x + 1.0, y=p.y, z=p.z - 2.0, vx=p.vx, vy=p.vy + 0.5, vz=p.vz)
        # (several independent first-order sets: each is shifted by its own dR)
        vars_ = [s3.add_variation() for _ in range(3)]
        for var in vars_:
            for i in range(n):
                var.particles[i].x = float(rng.randrange(-3, 4))
                var.particles[i].vy = float(rng.randrange(-3, 4))
                var.particles[i].m = float(rng.randrange(0, 2))
        M = sum(p.m for p in s3.particles[:n])
        R = sum(p.m * p.x for p in s3.particles[:n]) / M
        Vy = sum(p.m * p.vy for p in s3.particles[:n]) / M
        wants = []
        for var in vars_:
            dR = sum(s3.particles[i].m * var.particles[i].x + var.particles[i].m * (s3.particles[i].x - R) for i in range(n)) / M
            dVy = sum(s3.particles[i].m * var.particles[i].vy + var.particles[i].m * (s3.particles[i].vy - Vy) for i in range(n)) / M
            wants.append([(var.particles[i].x - dR, var.particles[i].vy - dVy) for i in range(n)])
        s3.move_to_com()
        for k, (var, want) in enumerate(zip(vars_, wants)):
            got = [(var.particles[i].x, var.particles[i].vy) for i in range(n)]
            if any(abs(a - b) > 1e-13 * max(1.0, abs(b)) for g, w in zip(got, want) for a, b in zip(g, w)):
                viol(res, "move-to-com-variational", variational_set=k, got=got, want=want)
                break


def main():
    table, out, seed, tier = sys.argv[1], sys.argv[2], int(sys.argv[3]), sys.argv[4]
    rng = random.Random(seed)
    res = {"unit_checks": 0, "rot_checks": 0, "frame_checks": 0, "violations": [], "unit_triples": 0}
    rows = []
    dims = si = None
    for ln in open(table):
        r = json.loads(ln)
        if r[0] == "DIM":
            dims, si = r[1]["dims"], r[1]["si"]
            ALIASES.extend(r[1]["aliases"])
        else:
            rows.append(r)
    units_part(res, dims, si, rng, tier)
    rot_part(res, rows, rng, tier)
    frame_part(res, rng, tier)
    json.dump(res, open(out, "w"))


if __name__ == "__main__":
    main()
