"""C20 -- changes of units and of reference frame are exact symmetries.

 E1/E4  UnitsFrames.tla: (a) unit conversions as exponent vectors over independent generators: TLC checks
     transitivity, reversibility and the invariance of G M P^2 / a^3 for all systems of a reduced generator
     set and emits the dimension table and the SI sizes; (b) the 24 signed permutation matrices of
     determinant +1 generated from quarter turns, closed under product and transpose; TLC emits the matrix of
     every specified constructor (axis-angle about coordinate axes, (1,1,1), (1,1,0); orbital angles on the
     pi/2 grid); (c) frame shifts on integer lattices.
 Binding: every length/time/mass pair and seeded triple pairs through units_convert_particle (factor =
     product predicted by the dimension table from the implementation's own unit sizes, 1e-13), sim.units /
     G / convert_particle_units (G, transitivity, reversibility, period invariance), SI sizes vs the spec's
     table (1e-9); every constructor's matrix vs TLC's; 576 compositions and all inverses vs the group
     table; from_to for all 26 x 26 lattice directions (unit quaternion, maps from to to; identical and
     antiparallel vectors included); to_new_axes for non-unit / non-orthogonal inputs; orbital-angle read-back
     rebuilt as a rotation; simulations with variational particles rotated (energy, |L|, every particle);
     move_to_com / move_to_hel / + - * on lattices (bitwise), variational particles under move_to_com.
"""
import json
import os
import re
import shutil

import common
from common import MachineryError

LEVEL = "model_checking"
HERE = os.path.dirname(os.path.abspath(__file__))


def run(tier, rep):
    common.build()
    sc = common.scratch("c20")
    res = common.run_tlc("UnitsFrames", "UnitsFrames", workers=1, coverage=False, timeout=900)
    if res.violation:
        rep.violation("model:UnitsFrames:" + res.violation, "UnitsFrames violates " + res.violation, {})
        return
    if not res.ok:
        raise MachineryError("UnitsFrames did not complete: %s" % res.out[-1500:])
    rep.add(states=res.distinct, transitions=res.states)
    rows = []
    for ln in sorted(set(l for l in res.out.splitlines() if l.startswith('<<"'))):
        m = re.match(r'^<<(.*), "(.*)">>$', ln)
        if not m:
            continue
        head = [json.loads(x) for x in re.findall(r'"[^"]*"|-?\d+', m.group(1))]
        rows.append(head + [json.loads(m.group(2).replace('\\"', '"'))])
    if len(rows) < 60:
        raise MachineryError("UnitsFrames printed %d rows" % len(rows))
    tf = os.path.join(sc, "table.txt")
    open(tf, "w").write("\n".join(json.dumps(r) for r in rows) + "\n")
    out = os.path.join(sc, "out.json")
    r = common.run_worker(os.path.join(HERE, "w_c20.py"), [tf, out, str(common.seed()), tier], timeout=3000)
    if r.returncode != 0:
        if r.returncode < 0:
            rep.violation("crash", "real code crashed (signal %d)" % -r.returncode, {"stderr": r.stderr[-1500:]})
            return
        raise MachineryError("worker failed: %s" % r.stderr[-2500:])
    o = json.load(open(out))
    n = o["unit_checks"] + o["rot_checks"] + o["frame_checks"]
    rep.add(evaluations=n, traces_validated_against_impl=n, distinct_nontrivial=n,
            rule="unit pairs / triples, constructor rows of the TLC table, lattice direction pairs, lattice frame configurations; all distinct", exhaustive=False)
    rep.cov.update({"unit_checks": o["unit_checks"], "supported_unit_triples": o["unit_triples"], "rotation_checks": o["rot_checks"], "frame_checks": o["frame_checks"]})
    rep.sample({"kind": "constructor row", "row": rows[5]})
    for v in o["violations"]:
        k = v["kind"]
        detail = {x: v[x] for x in v if x != "kind"}
        if k == "rotation-from-to":
            key = "from-to:%s" % ("antiparallel" if v["antiparallel"] else "general")
        elif k == "unit-conversion":
            key = "unit-conversion:%s" % v["quantity"]
        elif k == "rotation-orbital-roundtrip":
            key = "orbital-roundtrip"
        elif k == "rotation-to-new-axes":
            key = "to-new-axes"
        else:
            key = k + ":" + json.dumps(detail, sort_keys=True)[:40]
        rep.violation(key, "%s: %s" % (k, json.dumps(detail)[:500]), v)
    rep.assumptions += ["rotations outside the finite group and generic particle data are sampled (A5 tolerances 1e-13)",
                        "SI sizes compared to 1e-9 with the spec's table (IAU au, Julian year, CODATA-2014 G, GM values)"]
    shutil.rmtree(sc, ignore_errors=True)


def replay(path):
    print(json.dumps(json.load(open(path)), indent=1)[:4000])
    return 0
