"""Callback order of reb_simulation_step (spec/StepPipeline.tla): model checking and trace validation.  Used by p_c09."""
import json
import os
import re

import common
from common import MachineryError

HERE = os.path.dirname(os.path.abspath(__file__))


def validate(path, verbose=False):
    env = {"TRACE_FILE": path}
    if verbose:
        env["VERBOSE"] = "1"
    res = common.run_tlc("Trace_StepPipeline", "Trace_StepPipeline", workers=1, env=env, coverage=False, timeout=1800)
    return set(int(m) for m in re.findall(r'<<"ACC", (\d+)>>', res.out)), res


def run(rep, tier, sc):
    res = common.run_tlc("MC_StepPipeline", "MC_StepPipeline", coverage=False, timeout=900)
    if res.violation:
        rep.violation("model:StepPipeline:" + res.violation, "StepPipeline violates %s" % res.violation, {"tlc": res.trace[-4:]})
        return
    if not res.ok:
        raise MachineryError("StepPipeline did not complete: %s" % res.out[-1500:])
    rep.add(states=res.distinct, transitions=res.states)
    out = os.path.join(sc, "pipeline.ndjson")
    r = common.run_worker(os.path.join(HERE, "w_pipeline.py"), [out, str(common.seed()), tier], timeout=3000)
    if r.returncode != 0:
        if r.returncode < 0:
            rep.violation("crash:pipeline", "real code crashed (signal %d) in a step with user callbacks" % -r.returncode, {"stderr": r.stderr[-1500:]})
            return
        raise MachineryError("w_pipeline failed: %s" % r.stderr[-2500:])
    lines = open(out).read().splitlines()
    if len(lines) < 50:
        raise MachineryError("only %d callback traces recorded" % len(lines))
    acc, res = validate(out)
    if not res.ok:
        raise MachineryError("Trace_StepPipeline did not complete: %s" % res.out[-2000:])
    rep.add(traces_validated_against_impl=len(lines), evaluations=sum(len(json.loads(ln)["events"]) for ln in lines))
    rep.cov["callback_traces"] = len(lines)
    shown = 0
    for tid in range(1, len(lines) + 1):
        if tid in acc:
            continue
        f = os.path.join(sc, "pipe_one.ndjson")
        open(f, "w").write(lines[tid - 1] + "\n")
        a1, r1 = validate(f, verbose=True)
        at = [int(x) for x in re.findall(r'<<"AT", 1, (\d+)>>', r1.out)]
        k = max(at) if at else 1
        tr = json.loads(lines[tid - 1])
        e = tr["events"][k - 1] if k - 1 < len(tr["events"]) else None
        bad = [x for x, v in (e or {}).items() if v is False and x not in ("inner", "before_pre", "sync0")]
        rep.violation("pipeline:%s:%s:%s" % (tr["cfg"]["fam"], (e or {}).get("ev"), ",".join(bad) or "order"),
                      "callback order / observations of reb_simulation_step deviate from StepPipeline (%s %s, callbacks %s): event #%d %s%s"
                      % (tr["cfg"]["fam"], json.dumps(tr["cfg"]["opts"]), json.dumps(tr["has"]), k, json.dumps(e),
                         (" -- false: " + ", ".join(bad)) if bad else " is out of place"), {"cfg": tr["cfg"], "has": tr["has"], "event": k, "e": e, "before": tr["events"][max(0, k - 5):k - 1]})
        shown += 1
        if shown >= 3:
            break
