"""C15 worker: drives reb_boundary_check / reb_simulation_update_tree / reb_simulation_step on lattice
configurations and records particle arrays and the real tree (walked read-only through ctypes).

 usage: w_c15.py <cfg.json> <out.ndjson> <seed> <ntraces>
"""
import ctypes
import json
import math
import os
import random
import sys
import warnings

import rebound
from rebound import clibrebound

warnings.simplefilter("ignore")


class TreeCell(ctypes.Structure):
    pass


TreeCell._fields_ = [("x", ctypes.c_double), ("y", ctypes.c_double), ("z", ctypes.c_double), ("w", ctypes.c_double),
                     ("m", ctypes.c_double), ("mx", ctypes.c_double), ("my", ctypes.c_double), ("mz", ctypes.c_double),
                     ("oct", ctypes.POINTER(TreeCell) * 8), ("pt", ctypes.c_int), ("remote", ctypes.c_int)]


def walk(sim):
    """-> leaves [[rb, path, pt]], inner [[rb, path, n, m]], geo [[rb, path, x4, y4, z4, w4]], addr->(rb,path), com list"""
    leaves, inner, geo, addr, com = [], [], [], {}, []
    if not sim._tree_root:
        return leaves, inner, geo, addr, com
    roots = ctypes.cast(sim._tree_root, ctypes.POINTER(ctypes.POINTER(TreeCell)))

    def rec(cp, rb, path):
        c = cp.contents
        addr[ctypes.addressof(c)] = (rb, list(path))
        geo.append([rb, list(path), int(round(4 * c.x)), int(round(4 * c.y)), int(round(4 * c.z)), int(round(4 * c.w))])
        if c.pt >= 0:
            leaves.append([rb, list(path), int(c.pt)])
        else:
            inner.append([rb, list(path), -int(c.pt), int(round(c.m)) if sim.gravity == "tree" else -1])
            com.append((rb, list(path), c.m, c.mx, c.my, c.mz))
            for o in range(8):
                if c.oct[o]:
                    rec(c.oct[o], rb, path + [o])

    for rb in range(sim.N_root):
        if roots[rb]:
            rec(roots[rb], rb, [])
    return leaves, inner, geo, addr, com


def plist(sim):
    out = []
    for i in range(sim.N):
        p = sim.particles[i]
        dead = 1 if math.isnan(p.y) else 0
        out.append([int(p.hash.value), int(p.x), 0 if dead else int(p.y), int(p.z), int(p.vx), int(p.vy), int(p.vz), int(p.m), dead])
    return out


def tree_event(sim, name, extra=None):
    leaves, inner, geo, addr, com = walk(sim)
    back = []
    for i in range(sim.N):
        c = sim.particles[i].c
        rb, path = addr.get(c, (-1, []))
        back.append([rb, path])
    e = {"a": name, "parts": plist(sim), "leaves": leaves, "inner": inner, "geo": geo, "back": back}
    # centre of mass of inner cells (A5: division by a non power of two): checked here, reported as a note
    notes = []
    if sim.gravity == "tree":
        for rb, path, m, mx, my, mz in com:
            sub = [l for l in leaves if l[0] == rb and l[1][:len(path)] == path]
            ms = sum(sim.particles[l[2]].m for l in sub)
            if ms > 0:
                ex = sum(sim.particles[l[2]].m * sim.particles[l[2]].x for l in sub) / ms
                ey = sum(sim.particles[l[2]].m * sim.particles[l[2]].y for l in sub) / ms
                ez = sum(sim.particles[l[2]].m * sim.particles[l[2]].z for l in sub) / ms
                if max(abs(ex - mx), abs(ey - my), abs(ez - mz)) > 1e-9:
                    notes.append("cell centre of mass off by %.3g in cell %s/%s" % (max(abs(ex - mx), abs(ey - my), abs(ez - mz)), rb, path))
    if extra:
        e.update(extra)
    return e, notes


RESOLVER_CALLS = []
LINE_MODES = (4, 5)      # REB_COLLISION_LINE, REB_COLLISION_LINETREE


def resolver(sp, c):
    # every particle has radius 0 and the lattice keeps them apart: nothing ever collides, so any call names a particle that
    # should not take part in the search (e.g. one that was flagged for removal)
    ps = sp.contents.particles
    a, b = ps[c.p1], ps[c.p2]
    nan = any(v != v for v in (a.x, a.y, a.z, b.x, b.y, b.z))
    apart = nan or (a.x, a.y, a.z) != (b.x, b.y, b.z)
    # the line searches legitimately report two zero-radius particles whose lattice paths cross exactly (distance 0 = sum of radii):
    # for them only a pair that names a flagged (NaN) particle is wrong; for the point searches any pair of distinct sites is
    if nan or (apart and sp.contents._collision not in LINE_MODES):
        RESOLVER_CALLS.append((c.p1, c.p2))
    return 0


def make(cfg, rng, n):
    W, NR = cfg["W"], cfg["NR"]
    sim = rebound.Simulation()
    sim.integrator = "leapfrog"
    sim.G = 0.0
    sim.dt = 1.0
    sim.configure_box(float(W), NR[0], NR[1], NR[2])
    sim.boundary = cfg["BType"]
    if cfg["UseTree"]:
        # the tree serves gravity, a collision search, or both (particles have radius 0: the searches never report anything)
        variant = rng.choice(["g", "gc", "c", "lc", "gd", "gl"])
        sim.gravity = "tree" if variant in ("g", "gc", "gd", "gl") else "none"
        sim.collision = {"g": "none", "gc": "tree", "c": "tree", "lc": "linetree", "gd": "direct", "gl": "line"}[variant]
        sim.collision_resolve = resolver
    else:
        sim.gravity = "none"
    if cfg["BType"] == "shear":
        sim.ri_sei.OMEGA = cfg["S"] / (1.5 * W * NR[0])
    if cfg["Sorted"]:
        sim.track_energy_offset = 1
    L = [W * NR[0], W * NR[1], W * NR[2]]
    used = set()
    for k in range(n):
        while True:
            pos = tuple(rng.randrange(-L[a] // 2 + 1, L[a] // 2, 2) for a in range(3))
            if pos not in used:
                used.add(pos)
                break
        vmax = [2 * L[a] for a in range(3)]
        if rng.random() < 0.3:
            vel = (0, 0, 0)
        else:
            vel = tuple(4 * rng.randrange(-vmax[a] // 4, vmax[a] // 4 + 1) if rng.random() < 0.6 else 4 * rng.randrange(-2, 3) for a in range(3))
        sim.add(m=float(1 << (k % 4)), x=float(pos[0]), y=float(pos[1]), z=float(pos[2]), vx=float(vel[0]), vy=float(vel[1]), vz=float(vel[2]),
                r=0.0, hash=k + 1)
    return sim


def coincide(sim, cfg, halves):
    """would two live particles sit on the same lattice site (after wrapping) `halves` half steps from now?
    Exactly coincident particles cannot be held by the tree (the library reports an error): not part of the domain."""
    W, NR = cfg["W"], cfg["NR"]
    L = [W * NR[0], W * NR[1], W * NR[2]]
    for h in range(1, halves + 1):
        seen = set()
        for i in range(sim.N):
            p = sim.particles[i]
            if math.isnan(p.y):
                continue
            q = [p.x + h * p.vx / 2, p.y + h * p.vy / 2, p.z + h * p.vz / 2]
            if cfg["BType"] != "open":
                q = [((q[a] + L[a] / 2) % L[a]) - L[a] / 2 for a in range(3)]
            q = tuple(q)
            if q in seen:
                return True
            seen.add(q)
    return False


def drain(sim, where, notes):
    """error messages queued by the library during the last call (none are expected inside the property's domain)"""
    try:
        sim.process_messages()
    except Exception as e:  # noqa: BLE001
        notes.append("library error during %s: %s" % (where, str(e)[:200]))
        return True
    return False


def half_drift(sim):
    for i in range(sim.N):
        p = sim.particles[i]
        if math.isnan(p.y):
            continue
        p.x += p.vx / 2
        p.y += p.vy / 2
        p.z += p.vz / 2


def face_rows(cfg, allnotes):
    """particles exactly on a face of the box (the lattice of the traces keeps off the faces): the box is closed -- the wrap leaves a
    particle on a face where it is and the tree holds it; nobody is lost, duplicated or left without a leaf"""
    W, NR = cfg["W"], cfg["NR"]
    L = [W * NR[a] for a in range(3)]
    if cfg["BType"] == "shear":
        return
    for axis in (0, 1, 2, 3):
        for sign in (1, -1):
            for landing in (False, True):            # already there when added / arriving there with the step
                sim = rebound.Simulation()
                sim.integrator = "leapfrog"
                sim.G = 0.0
                sim.dt = 1.0
                sim.configure_box(float(W), NR[0], NR[1], NR[2])
                sim.boundary = cfg["BType"]
                sim.gravity = "none"
                sim.collision = "tree"
                sim.collision_resolve = resolver
                face = [sign * L[a] / 2 if (axis == a or axis == 3) else 1.0 for a in range(3)]
                vel = [0.0, 0.0, 0.0]
                pos = list(face)
                if landing:
                    for a in range(3):
                        if axis == a or axis == 3:
                            vel[a] = sign * 2.0
                            pos[a] = face[a] - vel[a] * 1.0
                try:
                    sim.add(m=1.0, x=pos[0], y=pos[1], z=pos[2], vx=vel[0], vy=vel[1], vz=vel[2], r=0.0, hash=1)
                    sim.add(m=1.0, x=-1.0, y=-1.0, z=-1.0, r=0.0, hash=2)
                    sim.add(m=1.0, x=-3.0, y=1.0, z=-1.0, r=0.0, hash=3)
                    sim.step()
                    clibrebound.reb_simulation_update_tree(ctypes.byref(sim))
                    sim.process_messages()
                except Exception as ex:  # noqa: BLE001
                    allnotes.append("library error with a particle exactly on the %s%s face (%s box, %s): %s"
                                    % ("+" if sign > 0 else "-", "xyz*"[axis], cfg["BType"], "arriving with the step" if landing else "added there", str(ex)[:120]))
                    continue
                hs = sorted(int(sim.particles[i].hash.value) for i in range(sim.N) if not math.isnan(sim.particles[i].y))
                leaves = sorted(lf[2] for lf in walk(sim)[0])
                want = [1, 2, 3] if (cfg["BType"] != "open") else hs
                if hs != want or leaves != list(range(sim.N)):
                    allnotes.append("particle exactly on the %s%s face (%s box, %s): live particles %s, tree leaves %s"
                                    % ("+" if sign > 0 else "-", "xyz*"[axis], cfg["BType"], "arriving with the step" if landing else "added there", hs, leaves))
                del RESOLVER_CALLS[:]


def main():
    cfg = json.load(open(sys.argv[1]))
    out, seed, ntr = sys.argv[2], int(sys.argv[3]), int(sys.argv[4])
    rng = random.Random(seed)
    allnotes = []
    with open(out, "w") as fh:
        for t in range(ntr):
            n = rng.choice([1, 2, 3, 5, 8, 12]) if cfg["UseTree"] else rng.choice([1, 2, 4, 7])
            sim = make(cfg, rng, n)
            t0 = rng.randrange(0, 5)
            sim.t = float(t0)
            parts0 = plist(sim)
            ev = []
            manual = t % 2 == 0
            tree = cfg["UseTree"]
            if tree:
                # the tree is built by the first update
                pass
            nsteps = rng.choice([2, 4, 6])
            tt = t0
            failed = False
            for s in range(nsteps):
                if tree and coincide(sim, cfg, 2):
                    break
                if tree and s > 0 and rng.random() < 0.3:
                    # continue with a restored copy: it must carry a complete tree like the original (re-attach the callback)
                    if rng.random() < 0.5:
                        sim = sim.copy()
                    else:
                        import pickle
                        sim = pickle.loads(pickle.dumps(sim))
                    sim.collision_resolve = resolver
                if manual:
                    half_drift(sim)
                    ev.append({"a": "drift"})
                    if tree:
                        # mid-step check only at integer times for the sheet: the model does the same (tree + shear not combined)
                        clibrebound.reb_boundary_check(ctypes.byref(sim))
                        ev.append({"a": "bc", "parts": plist(sim)})
                        clibrebound.reb_simulation_update_tree(ctypes.byref(sim))
                        clibrebound.reb_simulation_update_tree_gravity_data(ctypes.byref(sim))
                        if drain(sim, "tree update", allnotes):
                            failed = True
                            break
                        e, notes = tree_event(sim, "tu")
                        ev.append(e)
                        allnotes += notes
                    half_drift(sim)
                    ev.append({"a": "drift"})
                    tt += 1
                    sim.t = float(tt)
                    clibrebound.reb_boundary_check(ctypes.byref(sim))
                    ev.append({"a": "bc", "parts": plist(sim)})
                    if tree:
                        clibrebound.reb_simulation_update_tree(ctypes.byref(sim))
                        clibrebound.reb_simulation_update_tree_gravity_data(ctypes.byref(sim))
                        if drain(sim, "tree update", allnotes):
                            failed = True
                            break
                        e, notes = tree_event(sim, "tu")
                        ev.append(e)
                        allnotes += notes
                        if sim.N > 1 and rng.random() < 0.3:
                            idx = rng.randrange(sim.N)
                            try:
                                sim.remove(index=idx, keep_sorted=False)      # flagged; disappears at the next update
                            except Exception as ex:  # noqa: BLE001
                                allnotes.append("library error during remove: %s" % str(ex)[:200])
                                failed = True
                                break
                            ev.append({"a": "mark", "idx": idx})
                else:
                    try:
                        sim.step()
                    except Exception as ex:  # noqa: BLE001
                        allnotes.append("library error during step: %s" % str(ex)[:200])
                        failed = True
                        break
                    tt += 1
                    if tree:
                        # the tree is brought up to date at the beginning of the next step's force calculation; do that now
                        clibrebound.reb_simulation_update_tree(ctypes.byref(sim))
                        clibrebound.reb_simulation_update_tree_gravity_data(ctypes.byref(sim))
                        if drain(sim, "tree update after step", allnotes):
                            failed = True
                            break
                    e, notes = tree_event(sim, "step")
                    ev.append(e)
                    allnotes += notes
                if RESOLVER_CALLS:
                    allnotes.append("collision resolver called for pairs %s although no two particles touch (gravity %s, collision %s)" % (RESOLVER_CALLS[:3], sim.gravity, sim.collision))
                    del RESOLVER_CALLS[:]
                if sim.N == 0:
                    break
            fh.write(json.dumps({"parts": parts0, "t0": t0, "events": ev, "mode": "manual" if manual else "step", "n": n}) + "\n")
            # after the trace (not part of it: the positions leave the lattice): a change of frame with a tree in use and a periodic / sheared box
            # keeps every particle -- count unchanged, everybody inside the box, every particle in exactly one leaf
            if (tree and not failed and sim.N > 1 and cfg["BType"] in ("periodic", "shear") and t % 3 == 0
                    and not any(math.isnan(sim.particles[i].y) for i in range(sim.N))):       # (no particle waiting to be dropped by the next tree update)
                hashes0 = sorted(int(sim.particles[i].hash.value) for i in range(sim.N) if not math.isnan(sim.particles[i].y))
                try:
                    sim.move_to_com()
                    clibrebound.reb_simulation_update_tree(ctypes.byref(sim))
                    sim.process_messages()
                except Exception as ex:  # noqa: BLE001
                    allnotes.append("library error during move_to_com with a tree: %s" % str(ex)[:160])
                hashes1 = sorted(int(sim.particles[i].hash.value) for i in range(sim.N) if not math.isnan(sim.particles[i].y))
                L = [cfg["W"] * cfg["NR"][a] for a in range(3)]
                outside = [i for i in range(sim.N) if any(abs(c) > L[a] / 2 for a, c in enumerate((sim.particles[i].x, sim.particles[i].y, sim.particles[i].z)))]
                leaves = sorted(lf[2] for lf in walk(sim)[0])
                if hashes1 != hashes0 or outside or leaves != list(range(sim.N)):
                    allnotes.append("move_to_com with a tree (%s box): particles before %s, after %s, outside the box %s, tree leaves %s"
                                    % (cfg["BType"], hashes0, hashes1, outside, leaves))
    if cfg["UseTree"]:
        face_rows(cfg, allnotes)
    print(json.dumps({"notes": allnotes[:10]}))


if __name__ == "__main__":
    main()
