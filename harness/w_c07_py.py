"""C07: open crash images through the Python front end (rebound.Simulationarchive) in forked
children, so that an abort of the interpreter is an observation.
 usage: w_c07_py.py <refdir> <jobs.json> <out.json>     jobs = [[k, c], ...]
"""
import json
import os
import sys
import warnings

import rebound

d, jobs, out = sys.argv[1], json.load(open(sys.argv[2])), sys.argv[3]
res = []
refs = {}


def ref(k):
    if k not in refs:
        refs[k] = open(os.path.join(d, "ref_%d.bin" % k), "rb").read()
    return refs[k]


for k, c in jobs:
    new = ref(k)
    old = ref(k - 1) if k > 0 else b""
    start = len(old) - 12 if k > 0 else 0
    n = max(start + c, len(old))
    im = bytearray(n)
    im[:len(old)] = old
    im[start:start + c] = new[start:start + c]
    fn = os.path.join(d, "pyimg_%d.bin" % os.getpid())
    open(fn, "wb").write(bytes(im))
    r, w = os.pipe()
    pid = os.fork()
    if pid == 0:
        os.close(r)
        try:
            with warnings.catch_warnings():
                warnings.simplefilter("ignore")
                try:
                    sa = rebound.Simulationarchive(fn)
                    nb = len(sa)
                    ts = [sa[j].t for j in range(nb)]
                    msg = "ok %d" % nb
                except (RuntimeError, IndexError, ValueError) as e:
                    msg = "err %s" % type(e).__name__
                # also the one-call loader
                try:
                    s = rebound.Simulation(fn)
                    msg += " sim"
                except (RuntimeError, ValueError) as e:
                    msg += " simerr"
            os.write(w, msg.encode())
        finally:
            os._exit(0)
    os.close(w)
    data = b""
    while True:
        b = os.read(r, 4096)
        if not b:
            break
        data += b
    os.close(r)
    _, st = os.waitpid(pid, 0)
    sig = os.WTERMSIG(st) if os.WIFSIGNALED(st) else 0
    res.append({"k": k, "c": c, "sig": sig, "msg": data.decode()})
json.dump(res, open(out, "w"))
