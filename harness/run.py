"""Entry point: ./check <ID> --tier quick|thorough [--replay path]"""
import argparse
import importlib
import os
import sys
import traceback

sys.path.insert(0, os.path.dirname(os.path.abspath(__file__)))
import common  # noqa: E402


def main():
    ap = argparse.ArgumentParser()
    ap.add_argument("pid")
    ap.add_argument("--tier", default=os.environ.get("VERIF_TIER", "quick"), choices=["quick", "thorough"])
    ap.add_argument("--replay", default=None)
    a = ap.parse_args()
    pid = a.pid.upper()
    try:
        mod = importlib.import_module("p_" + pid.lower())
    except ImportError as e:
        print("no check for %s: %s" % (pid, e))
        return 2
    try:
        if a.replay:
            return mod.replay(a.replay)
        rep = common.Reporter(pid, a.tier, mod.LEVEL)
        mod.run(a.tier, rep)
        return rep.finish()
    except common.MachineryError as e:
        print("MACHINERY-ERROR property=%s: %s" % (pid, e))
        return 2
    except Exception:
        traceback.print_exc()
        print("MACHINERY-ERROR property=%s: unexpected exception" % pid)
        return 2


if __name__ == "__main__":
    sys.exit(main())
