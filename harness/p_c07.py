"""C07 -- a crash during an archive write never loses completed snapshots.

 E1  TLC: ArchiveFile (reader index builder, writer with corruption check + tail repair, crash
     images at every cell boundary and inside every cell, up to MaxCrashes crash/restart cycles):
     ExposedIdentical, ErrorIffNothing, NeverStuck, Converges, NeverLoses.
 E3/E4  for real archives of several integrators (3-5 snapshots, varying delta sizes), the C driver
     builds the crash image for byte counts of every write (thorough: every byte; quick: every byte
     within 24 of a cell boundary + stride), and in a forked child opens it, reloads every exposed
     snapshot, restarts from the last one and runs to the end.  Images are projected to cell
     sequences and TLC evaluates the specification's reader/writer on each distinct
     (image class, observation) pair (Trace_ArchiveFile): 7 clauses per event.
"""
import json
import os
import re
import shutil
import subprocess
from concurrent.futures import ThreadPoolExecutor

import common
from common import MachineryError

LEVEL = "fault_enumeration"
GARB = 99
HERE = os.path.dirname(os.path.abspath(__file__))

# (name, integrator id, K, steps per snapshot, addAt)
CONFIGS_QUICK = [("whfast", 1, 4, 5, 2), ("ias15", 0, 3, 3, 1)]
CONFIGS_FULL = [("whfast", 1, 5, 5, 2), ("ias15", 0, 4, 3, 1), ("janus", 8, 4, 4, 2), ("mercurius", 9, 4, 4, 9),
                ("leapfrog", 4, 4, 6, 1), ("saba", 10, 3, 4, 9), ("bs", 12, 3, 2, 1), ("trace", 25, 3, 3, 9)]


def model(rep, tier):
    consts = (3, "{2, 3}", 2) if tier == "quick" else (4, "{1, 2, 3}", 3)
    cfg = "gen_MC_ArchiveFile_%d" % os.getpid()
    with open(os.path.join(common.SPEC, cfg + ".cfg"), "w") as fh:
        fh.write("SPECIFICATION Spec\nCONSTANTS\n MaxSnap = %d\n Lens = %s\n MaxCrashes = %d\n VersionAt = 1\n"
                 "INVARIANT ExposedIdentical\nINVARIANT ErrorIffNothing\nINVARIANT NeverStuck\nINVARIANT Converges\n"
                 "PROPERTY NeverLoses\nCHECK_DEADLOCK FALSE\n" % consts)
    res = common.run_tlc("ArchiveFile", cfg, timeout=2400)
    os.remove(os.path.join(common.SPEC, cfg + ".cfg"))
    if res.violation:
        rep.violation("model:ArchiveFile:" + res.violation, "ArchiveFile design violates " + res.violation, {"tlc_trace": res.trace[-8:]})
        return False
    common.tlc_must_pass(res, "ArchiveFile", require_actions=["Save", "CrashRestart"])
    rep.add(states=res.distinct, transitions=res.states)
    return True


def cells_of(parse, tail, ref):
    """structural parse [[nD,haveE,haveT,idx,prevB,nextB,blobbytes,hdrok],...] -> run-length cells"""
    refbytes = [b[6] for b in ref]
    refnd = [b[0] for b in ref]
    out = []

    def conv(nbytes, i):
        if nbytes == 0:
            return 0
        if 0 <= i < len(refbytes) and nbytes == refbytes[i]:
            return refnd[i] + 1
        return GARB
    for i, b in enumerate(parse):
        nD, haveE, haveT, idx, prevB, nextB, blobbytes, hdrok = b
        if i == 0:
            if not hdrok:
                break
            out.append(["H"])
        if nD:
            out.append(["D", i, nD])
        if haveE:
            out.append(["E"])
        if haveT:
            out.append(["T", idx, conv(prevB, i), conv(nextB, i + 1)])
    if tail > 0:
        out.append(["X"])
    return out


def offsets_for(ref, k, quick, seed):
    """byte counts c of the write of save k to try"""
    refbytes = [b[6] for b in ref]
    start = 0 if k == 0 else sum(refbytes[:k]) + 12 * k - 12
    end = sum(refbytes[:k + 1]) + 12 * (k + 1)
    wlen = end - start
    if not quick:
        return wlen, [(0, wlen + 1, 1)]
    return wlen, None


def run_config(rep, exe, sc, name, integ, K, steps, addAt, quick, events, stats):
    d = os.path.join(sc, name)
    os.makedirs(d, exist_ok=True)
    g = subprocess.run([exe, "gen", d, str(integ), str(K), str(steps), str(addAt)], capture_output=True, text=True, timeout=600)
    if g.returncode != 0:
        raise MachineryError("c07drv gen failed for %s: %s" % (name, g.stderr[-500:]))
    meta = json.loads(g.stdout)
    ref = meta["ref"]
    if len(ref) != K:
        raise MachineryError("reference archive of %s has %d blobs, expected %d" % (name, len(ref), K))
    refdig = meta["digests"]
    lens = [b[0] for b in ref]
    refbytes = [b[6] for b in ref]
    jobs = []
    # cell boundaries inside each write, to focus the quick tier
    for k in range(K):
        start = 0 if k == 0 else sum(refbytes[:k]) + 12 * k - 12
        end = sum(refbytes[:k + 1]) + 12 * (k + 1)
        wlen = end - start
        if quick:
            # boundaries: read field boundaries of the written region from the reference file
            buf = open(os.path.join(d, "ref_%d.bin" % k), "rb").read()
            bounds = {0, wlen}
            pos = start
            if k > 0:
                pos += 12
                bounds.add(12)
            else:
                pos += 64
                bounds.add(64)
            while pos + 16 <= len(buf):
                typ = int.from_bytes(buf[pos:pos + 4], "little")
                size = int.from_bytes(buf[pos + 8:pos + 16], "little")
                bounds.add(pos - start)
                bounds.add(pos - start + 16)
                if typ == 9999:
                    bounds.add(pos + 16 - start)
                    break
                pos += 16 + size
            cs = set()
            for b in bounds:
                for c in range(b - 13, b + 14):
                    if 0 <= c <= wlen:
                        cs.add(c)
            # keep the quick tier bounded: thin out the interior boundaries of the long first blob
            cs = sorted(cs)
            if len(cs) > 900:
                keep = set(c for c in cs if c < 120 or c > wlen - 200)
                rest = [c for c in cs if c not in keep]
                stride = max(1, len(rest) // 500)
                cs = sorted(keep | set(rest[::stride]))
            cs = sorted(set(cs) | set(range(0, wlen + 1, 97)))
            # group into runs
            runs = []
            for c in cs:
                if runs and runs[-1][1] == c:
                    runs[-1][1] = c + 1
                else:
                    runs.append([c, c + 1])
            for a, b in runs:
                jobs.append((k, a, b, 1))
        else:
            chunk = 400
            for a in range(0, wlen + 1, chunk):
                jobs.append((k, a, min(a + chunk, wlen + 1), 1))

    def do(job):
        k, a, b, s = job
        r = subprocess.run([exe, "sweep", d, str(integ), str(K), str(steps), str(addAt), str(k), str(a), str(b), str(s)],
                           capture_output=True, text=True, timeout=3000)
        if r.returncode != 0:
            raise MachineryError("c07drv sweep failed: %s" % r.stderr[-500:])
        return r.stdout

    with ThreadPoolExecutor(max_workers=common.NCPU) as ex:
        outs = list(ex.map(do, jobs))
    classes = {}
    for out in outs:
        for line in out.splitlines():
            try:
                o = json.loads(line)
            except ValueError:
                raise MachineryError("bad driver line: %s" % line[:200])
            stats["images"] += 1
            cells = cells_of(o["image"], o["itail"], ref)
            if o.get("partial"):
                ev = {"cells": cells, "final": [], "k": o["k"], "K": K, "lens": lens, "n": 0, "err": 1, "sig": o["sig"],
                      "exposedOK": False, "rn": -1, "rOK": False, "versionAt": meta["versionAt"]}
            else:
                ev = {"cells": cells, "final": cells_of(o["final"], o["ftail"], ref), "k": o["k"], "K": K, "lens": lens,
                      "n": o["n"], "err": o["err"], "sig": 0,
                      "exposedOK": o["dig"] == refdig[:o["n"]] and not o.get("past"), "rn": o["rn"], "rOK": o["rdig"] == refdig[:max(o["rn"], 0)],
                      "versionAt": meta["versionAt"]}
            key = json.dumps(ev, sort_keys=True)
            if key not in classes:
                classes[key] = {"ev": ev, "count": 0, "cfg": name, "c_first": o["c"], "c_last": o["c"]}
            classes[key]["count"] += 1
            classes[key]["c_last"] = o["c"]
    for c in classes.values():
        events.append(c)
    # the same images through the Python front end (one representative byte image per class)
    reps = sorted({(c["ev"]["k"], c["c_first"]) for c in classes.values()} | {(c["ev"]["k"], c["c_last"]) for c in classes.values()})
    if quick and len(reps) > 160:
        reps = reps[::max(1, len(reps) // 160)]
    jf, of = os.path.join(d, "pyjobs.json"), os.path.join(d, "pyout.json")
    json.dump([list(x) for x in reps], open(jf, "w"))
    r = common.run_worker(os.path.join(HERE, "w_c07_py.py"), [d, jf, of], timeout=3000)
    if r.returncode != 0:
        raise MachineryError("python reader pass failed: %s" % r.stderr[-1500:])
    nexp = {(c["ev"]["k"], cc): c["ev"]["n"] for c in classes.values() for cc in (c["c_first"], c["c_last"])}
    for o in json.load(open(of)):
        stats["py_images"] = stats.get("py_images", 0) + 1
        if o["sig"] != 0:
            rep.violation("%s:python-open-killed:k%d" % (name, o["k"]),
                          "opening a crash image through rebound.Simulationarchive killed the interpreter (signal %d): cfg %s, save %d died after %d bytes"
                          % (o["sig"], name, o["k"], o["c"]), {"cfg": name, "k": o["k"], "c": o["c"], "sig": o["sig"]})
        else:
            want = nexp.get((o["k"], o["c"]))
            got = int(o["msg"].split()[1]) if o["msg"].startswith("ok") else 0
            if want is not None and got != want:
                rep.violation("%s:python-open-count:k%d" % (name, o["k"]),
                              "Python front end exposes %d snapshots, C reader %d (cfg %s, save %d, %d bytes)" % (got, want, name, o["k"], o["c"]),
                              {"cfg": name, **o})
    shutil.rmtree(d, ignore_errors=True)


CLAUSES = ["opening/continuing never kills the process", "reader exposes what the specification's reader exposes",
           "exactly the completed snapshots are exposed", "error iff nothing is exposed",
           "exposed snapshots identical to the uninterrupted run's", "writer (repair+append) follows the specification",
           "restart converges to the uninterrupted archive"]


def run(tier, rep):
    common.build()
    quick = tier == "quick"
    sc = common.scratch("c07")
    model(rep, tier)
    exe = common.build_cdriver("c07drv", extra=("-rdynamic", "-ldl"))
    events = []
    stats = {"images": 0}
    for (name, integ, K, steps, addAt) in (CONFIGS_QUICK if quick else CONFIGS_FULL):
        run_config(rep, exe, sc, name, integ, K, steps, addAt, quick, events, stats)
    tf = os.path.join(sc, "events.ndjson")
    with open(tf, "w") as fh:
        for c in events:
            fh.write(json.dumps(c["ev"]) + "\n")
    cfg = "gen_Trace_ArchiveFile_%d" % os.getpid()
    with open(os.path.join(common.SPEC, cfg + ".cfg"), "w") as fh:
        fh.write("SPECIFICATION TraceSpec\nCONSTANTS\n MaxSnap = 1\n Lens = {1}\n MaxCrashes = 0\n VersionAt = 1\nCHECK_DEADLOCK FALSE\n")
    res = common.run_tlc("Trace_ArchiveFile", cfg, workers=1, env={"TRACE_FILE": tf}, coverage=False, timeout=3000)
    os.remove(os.path.join(common.SPEC, cfg + ".cfg"))
    verdicts = {}
    for m in re.finditer(r'<<"EV", (\d+), <<([A-Z, ]+)>>>>', res.out):
        verdicts[int(m.group(1))] = [x.strip() == "TRUE" for x in m.group(2).split(",")]
    if len(verdicts) != len(events):
        raise MachineryError("TLC returned %d verdicts for %d events: %s" % (len(verdicts), len(events), "\n".join(res.errors[:2])[:1500]))
    rep.add(traces_validated_against_impl=len(events), evaluations=stats["images"], states=res.distinct, transitions=res.states)
    nontriv = 0
    for i, c in enumerate(events, 1):
        v = verdicts[i]
        ev = c["ev"]
        if ev["cells"] and ev["cells"][-1][0] in ("X",) or ev["n"] != ev["K"]:
            nontriv += 1
        if i <= 3 or (len(rep.cov["samples"]) < 5 and ev["cells"] and ev["cells"][-1][0] == "X"):
            rep.sample({"cfg": c["cfg"], "save": ev["k"], "bytes_written": [c["c_first"], c["c_last"]], "byte_images_in_class": c["count"],
                        "image_cells": ev["cells"], "reader": {"n": ev["n"], "err": ev["err"]}, "restart_n": ev["rn"]})
        if not all(v):
            bad = [j for j, ok in enumerate(v) if not ok]
            rep.violation("%s:clause%d:k%d:%s" % (c["cfg"], bad[0] + 1, ev["k"], "".join(x[0] for x in ev["cells"][-3:])),
                          "archive crash image (cfg %s, save %d died after %d..%d bytes, %d byte images): violated: %s; image cells %s; reader n=%s err=%s sig=%s; after restart n=%s"
                          % (c["cfg"], ev["k"], c["c_first"], c["c_last"], c["count"], "; ".join(CLAUSES[j] for j in bad),
                             json.dumps(ev["cells"])[:200], ev["n"], ev["err"], ev["sig"], ev["rn"]),
                          {"event": ev, "failed_clauses": [CLAUSES[j] for j in bad], "bytes_written": [c["c_first"], c["c_last"]], "cfg": c["cfg"]})
    rep.add(distinct_nontrivial=nontriv,
            rule="one evaluation = one byte-level crash image of one save of one reference archive (opened, every exposed snapshot reloaded, restarted and completed in a forked child); "
                 "distinct_nontrivial = distinct (abstract image, observation) classes with a damaged tail or fewer snapshots than the full run",
            exhaustive=(not quick), image_classes=len(events), python_front_end_images=stats.get("py_images", 0))
    rep.assumptions += ["process death persists a prefix of the bytes of one save (all writes go through one buffered stream at increasing offsets)",
                        "snapshot identity is a 64-bit FNV digest of t, N, steps_done, dt and all particle coordinates/masses/hashes",
                        "restart re-runs the same deterministic operations (bit-wise restartable integrators)"]
    shutil.rmtree(sc, ignore_errors=True)
