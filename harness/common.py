"""Shared machinery: build /repo's working tree, run TLC, write evidence, report violations.

Exit codes used by every check (see DESIGN.md 3.4):
  0  property held on everything explored (known findings are printed, not failed)
  1  property violation (a line `VIOLATION property=<id> replay=<path>` was printed)
  2  machinery failure (TLC crashed, parse error, vacuous model, build failed)
"""
import glob
import hashlib
import json
import os
import re
import shutil
import subprocess
import sys
import sysconfig
import time

VERIF = os.path.dirname(os.path.dirname(os.path.abspath(__file__)))
REPO = os.environ.get("VERIF_REPO", "/repo")
SPEC = os.path.join(VERIF, "spec")
BUILD = os.path.join(VERIF, "build")
EVID = os.path.join(VERIF, "evidence")
REPLAYS = os.path.join(VERIF, "replays")
SCRATCH = os.path.join(VERIF, "build", "scratch")
PY = "/venv/bin/python"
NCPU = os.cpu_count() or 4
GUARD = "REBOUND_VERIF"


class MachineryError(Exception):
    pass


def seed():
    try:
        return int(os.environ.get("VERIF_SEED", "0"))
    except ValueError:
        return 0


# ----------------------------------------------------------------------------------------
# build
# ----------------------------------------------------------------------------------------
EXCLUDE = {"glad.c", "communication_mpi.c"}
BASE_FLAGS = ["-std=c99", "-fPIC", "-D_GNU_SOURCE", "-DLIBREBOUND", "-DSERVER", "-DGITHASH=verif",
              "-Wno-unknown-pragmas", "-fstrict-aliasing", "-w"]
VARIANTS = {
    "o3": (["gcc"], ["-O3"], []),
    "avx512": (["gcc"], ["-O3", "-march=native", "-DAVX512"], []),
    "asan": (["clang"], ["-O1", "-g", "-fsanitize=address,undefined", "-fno-omit-frame-pointer",
                         "-fno-sanitize-recover=undefined",
                         # qsort(NULL, 0, ...) on an empty lookup table trips glibc's nonnull attribute: formally UB, no observable
                         # behaviour, not part of any listed property (recorded as an observation in DESIGN.md 9.2)
                         "-fno-sanitize=nonnull-attribute",
                         # the comparison routine casts unaligned stream bytes to struct reb_particle / reb_variational_configuration (upstream idiom, fine on x86)
                         "-fno-sanitize=alignment"], ["-fsanitize=address,undefined"]),
    "tsan": (["clang"], ["-O1", "-g", "-fsanitize=thread"], ["-fsanitize=thread"]),
}


def _src_hash(variant):
    h = hashlib.sha256()
    h.update(variant.encode())
    h.update(repr(VARIANTS[variant]).encode())
    for f in sorted(glob.glob(os.path.join(REPO, "src", "*.[ch]"))):
        h.update(os.path.basename(f).encode())
        with open(f, "rb") as fh:
            h.update(fh.read())
    return h.hexdigest()[:16]


def ext_suffix():
    out = subprocess.run([PY, "-c", "import sysconfig;print(sysconfig.get_config_var('EXT_SUFFIX'))"],
                         capture_output=True, text=True)
    return out.stdout.strip() or ".so"


_EXT = None


def build(variant="o3"):
    """Build librebound from /repo's working tree.  Returns the directory to put on PYTHONPATH
    (contains librebound<EXT> and a symlink rebound -> /repo/rebound)."""
    global _EXT
    if _EXT is None:
        _EXT = ext_suffix()
    key = _src_hash(variant)
    d = os.path.join(BUILD, "%s-%s" % (variant, key))
    lib = os.path.join(d, "librebound" + _EXT)
    if os.path.exists(lib) and os.path.exists(os.path.join(d, "ok")):
        return d
    # prune older builds of this variant
    for old in glob.glob(os.path.join(BUILD, variant + "-*")):
        shutil.rmtree(old, ignore_errors=True)
    os.makedirs(os.path.join(d, "obj"), exist_ok=True)
    cc, cflags, ldflags = VARIANTS[variant]
    srcs = [f for f in sorted(glob.glob(os.path.join(REPO, "src", "*.c")))
            if os.path.basename(f) not in EXCLUDE]
    procs = []
    for s in srcs:
        o = os.path.join(d, "obj", os.path.basename(s)[:-2] + ".o")
        procs.append((s, subprocess.Popen(cc + BASE_FLAGS + cflags + ["-c", s, "-o", o],
                                          stderr=subprocess.PIPE, text=True)))
    for s, p in procs:
        _, err = p.communicate()
        if p.returncode != 0:
            raise MachineryError("compile failed for %s (%s):\n%s" % (s, variant, err[-2000:]))
    objs = sorted(glob.glob(os.path.join(d, "obj", "*.o")))
    r = subprocess.run(cc + ["-shared", "-o", lib] + objs + ldflags + ["-lm", "-lpthread"],
                       capture_output=True, text=True)
    if r.returncode != 0:
        raise MachineryError("link failed (%s):\n%s" % (variant, r.stderr[-2000:]))
    # plain name for C drivers
    so = os.path.join(d, "librebound.so")
    if not os.path.exists(so):
        os.symlink(os.path.basename(lib), so)
    link = os.path.join(d, "rebound")
    if not os.path.islink(link):
        os.symlink(os.path.join(REPO, "rebound"), link)
    open(os.path.join(d, "ok"), "w").write(key)
    return d


def build_cdriver(name, variant="o3", extra=()):
    """Compile harness/cdrv/<name>.c against the freshly built library; returns the exe path."""
    d = build(variant)
    src = os.path.join(VERIF, "harness", "cdrv", name + ".c")
    exe = os.path.join(d, name)
    if os.path.exists(exe) and os.path.getmtime(exe) >= os.path.getmtime(src):
        return exe
    cc, cflags, ldflags = VARIANTS[variant]
    cmd = cc + ["-std=gnu99", "-w"] + cflags + ["-I", os.path.join(REPO, "src"), src, "-o", exe,
                                              "-L", d, "-lrebound", "-Wl,-rpath," + d] + ldflags + ["-lm", "-lpthread"] + list(extra)
    r = subprocess.run(cmd, capture_output=True, text=True)
    if r.returncode != 0:
        raise MachineryError("cdriver %s failed:\n%s" % (name, r.stderr[-3000:]))
    return exe


def use_build(variant="o3"):
    """Make `import rebound` in this process load the working tree's Python on the fresh library."""
    d = build(variant)
    if d not in sys.path:
        sys.path.insert(0, d)
    for m in list(sys.modules):
        if m == "rebound" or m.startswith("rebound."):
            del sys.modules[m]
    return d


def scratch(sub):
    d = os.path.join(SCRATCH, sub)
    shutil.rmtree(d, ignore_errors=True)
    os.makedirs(d, exist_ok=True)
    return d


# ----------------------------------------------------------------------------------------
# TLC
# ----------------------------------------------------------------------------------------
TLA_JAR = "/opt/veriftools/tla/tla2tools.jar"


def _tlc_classpath():
    cp = [TLA_JAR]
    for c in glob.glob("/opt/veriftools/tla/*.jar"):
        if c not in cp:
            cp.append(c)
    return ":".join(cp)


class TLCResult:
    def __init__(self):
        self.ok = False
        self.states = 0
        self.distinct = 0
        self.depth = 0
        self.out = ""
        self.violation = None      # name of violated invariant/property
        self.trace = []            # counterexample states (raw text)
        self.coverage = {}         # action -> (distinct, total)
        self.wall = 0.0
        self.printed = []          # PrintT lines


def run_tlc(module, cfg=None, workers=None, timeout=3600, simulate=None, depth=None, extra=(),
            env=None, coverage=True, cwd=None, deadlock=None, dump=None, seed_=None, dfs=False):
    """Run TLC on spec/<module>.tla with spec/<cfg>.cfg; parse the result."""
    cwd = cwd or SPEC
    cfg = cfg or module
    meta = scratch("tlc-%s-%d" % (cfg, os.getpid()))
    cmd = ["tlc", "-metadir", meta, "-noGenerateSpecTE", "-config", cfg + ".cfg",
           "-workers", str(workers or NCPU)]
    if coverage and not simulate:
        cmd += ["-coverage", "1"]
    if simulate:
        cmd += ["-simulate", simulate]
    if depth:
        cmd += ["-depth", str(depth)]
    if deadlock is False:
        cmd += ["-deadlock"]
    if dump:
        cmd += ["-dump", "dot,actionlabels", dump]
    if seed_ is not None:
        cmd += ["-seed", str(seed_)]
    cmd += list(extra) + [module + ".tla"]
    e = dict(os.environ)
    if env:
        e.update(env)
    e["JAVA_TOOL_OPTIONS"] = (e.get("JAVA_TOOL_OPTIONS", "") + " -Xss256m").strip()
    if dfs:
        e["JAVA_TOOL_OPTIONS"] = (e.get("JAVA_TOOL_OPTIONS", "") + " -Dtlc2.tool.queue.IStateQueue=StateDeque").strip()
    t0 = time.time()
    try:
        p = subprocess.run(["timeout", str(timeout)] + cmd, cwd=cwd, capture_output=True, text=True, env=e)
    finally:
        pass
    res = TLCResult()
    res.wall = time.time() - t0
    res.out = p.stdout + p.stderr
    shutil.rmtree(meta, ignore_errors=True)
    out = res.out
    m = re.search(r"(\d+) states generated, (\d+) distinct states found", out)
    if m:
        res.states, res.distinct = int(m.group(1)), int(m.group(2))
    m = re.search(r"depth of the complete state graph search is (\d+)", out)
    if m:
        res.depth = int(m.group(1))
    for m in re.finditer(r"<(\w+) line \d+, col \d+ to line \d+, col \d+ of module (\w+)(?: \([\d ]+\))?>: (\d+):(\d+)", out):
        a, b = res.coverage.get(m.group(1), (0, 0))
        res.coverage[m.group(1)] = (a + int(m.group(3)), b + int(m.group(4)))
    m = re.search(r"Invariant (\w+) is violated", out)
    if m:
        res.violation = m.group(1)
    m2 = re.search(r"Action property (\w+) is violated|Temporal properties were violated|property (\w+) is violated", out)
    if m2 and not res.violation:
        res.violation = m2.group(1) or m2.group(2) or "temporal"
    if "Deadlock reached" in out and not res.violation:
        res.violation = "Deadlock"
    if res.violation:
        res.trace = re.findall(r"State \d+:.*?(?=\nState \d+:|\n\n\d+ states generated|\Z)", out, re.S)
    res.rc = p.returncode
    try:
        os.makedirs(SCRATCH, exist_ok=True)
        with open(os.path.join(SCRATCH, "last_tlc_%s.log" % cfg), "w") as lf:
            lf.write(out)
    except OSError:
        pass
    res.errors = re.findall(r"Error: [^\n]*(?:\n(?!Error:)[^\n]*){0,6}", out)
    res.ok = (p.returncode == 0 and "Model checking completed. No error has been found." in out) or \
             (simulate and p.returncode in (0,) and not res.violation)
    if p.returncode == 124:
        res.timeout = True
    else:
        res.timeout = False
    return res


def tlc_must_pass(res, what, require_actions=()):
    """Machinery-level assertions about a model run: completed, no violation, no vacuous action."""
    if res.violation:
        return False
    if not res.ok:
        raise MachineryError("TLC did not complete for %s (rc=%s):\n%s" % (what, res.rc, res.out[-3000:]))
    for a in require_actions:
        if a not in res.coverage or res.coverage[a][1] == 0:
            raise MachineryError("vacuous model %s: action %s never taken" % (what, a))
    return True


# ----------------------------------------------------------------------------------------
# TLA+ value parser (for -dump dot state labels, -simulate files and counterexamples)
# ----------------------------------------------------------------------------------------
class _P:
    def __init__(self, s):
        self.s = s
        self.i = 0

    def ws(self):
        while self.i < len(self.s) and self.s[self.i] in " \t\r\n":
            self.i += 1

    def peek(self, k=1):
        return self.s[self.i:self.i + k]

    def expect(self, t):
        self.ws()
        if not self.s.startswith(t, self.i):
            raise ValueError("expected %r at %d: %r" % (t, self.i, self.s[self.i:self.i + 40]))
        self.i += len(t)

    def value(self):
        self.ws()
        c = self.peek()
        if self.s.startswith("<<", self.i):
            self.i += 2
            out = []
            self.ws()
            if self.s.startswith(">>", self.i):
                self.i += 2
                return tuple(out)
            while True:
                out.append(self.value())
                self.ws()
                if self.s.startswith(">>", self.i):
                    self.i += 2
                    return tuple(out)
                self.expect(",")
        if c == "{":
            self.i += 1
            out = []
            self.ws()
            if self.peek() == "}":
                self.i += 1
                return frozenset()
            while True:
                out.append(self.value())
                self.ws()
                if self.peek() == "}":
                    self.i += 1
                    return frozenset(out)
                self.expect(",")
        if c == "[":
            self.i += 1
            d = {}
            self.ws()
            while True:
                # record: name |-> v ; function shown as (k :> v @@ ...) handled below
                m = re.compile(r"\s*(\w+)\s*\|->").match(self.s, self.i)
                if not m:
                    raise ValueError("bad record at %d: %r" % (self.i, self.s[self.i:self.i + 40]))
                self.i = m.end()
                d[m.group(1)] = self.value()
                self.ws()
                if self.peek() == "]":
                    self.i += 1
                    return d
                self.expect(",")
        if c == "(":
            # function: (k1 :> v1 @@ k2 :> v2)
            self.i += 1
            d = {}
            while True:
                k = self.value()
                self.expect(":>")
                v = self.value()
                d[k] = v
                self.ws()
                if self.peek() == ")":
                    self.i += 1
                    return d
                self.expect("@@")
        if c == '"':
            j = self.i + 1
            out = []
            while self.s[j] != '"':
                if self.s[j] == "\\":
                    j += 1
                out.append(self.s[j])
                j += 1
            self.i = j + 1
            return "".join(out)
        m = re.compile(r"-?\d+").match(self.s, self.i)
        if m:
            self.i = m.end()
            return int(m.group(0))
        m = re.compile(r"[A-Za-z_]\w*").match(self.s, self.i)
        if m:
            self.i = m.end()
            w = m.group(0)
            if w == "TRUE":
                return True
            if w == "FALSE":
                return False
            return w  # model value
        raise ValueError("cannot parse at %d: %r" % (self.i, self.s[self.i:self.i + 40]))


def parse_tla_value(s):
    p = _P(s)
    v = p.value()
    return v


def parse_tla_state(txt):
    """Parse '/\\ a = v\n/\\ b = w' (or a single 'a = v') into a dict."""
    txt = txt.strip()
    parts = re.split(r"(?:^|\n)\s*/\\ ", txt)
    st = {}
    for part in parts:
        part = part.strip()
        if not part:
            continue
        m = re.match(r"(\w+)\s*=\s*", part)
        if not m:
            raise ValueError("bad state conjunct %r" % part[:60])
        st[m.group(1)] = parse_tla_value(part[m.end():])
    return st


def parse_dot(path):
    """Parse a TLC `-dump dot,actionlabels` file.  Returns (nodes: id -> state dict, edges: [(src, dst, action)], inits)."""
    nodes, edges, inits = {}, [], set()
    node_re = re.compile(r'^(-?\d+) \[label="((?:[^"\\]|\\.)*)"(,style = filled)?')
    edge_re = re.compile(r'^(-?\d+) -> (-?\d+) \[label="([^"]*)"')
    with open(path) as fh:
        for line in fh:
            line = line.rstrip("\n")
            m = edge_re.match(line)
            if m:
                edges.append((m.group(1), m.group(2), m.group(3)))
                continue
            m = node_re.match(line)
            if m:
                lab = m.group(2).replace("\\n", "\n").replace('\\"', '"').replace("\\\\", "\\")
                nodes[m.group(1)] = parse_tla_state(lab)
                if m.group(3):
                    inits.add(m.group(1))
    return nodes, edges, inits


def parse_sim_trace(path):
    """Parse one file written by `tlc -simulate file=...`: returns [(action, state dict)]."""
    txt = open(path).read()
    out = []
    for m in re.finditer(r"\\\* <?(\w+)[^\n]*\nSTATE_\d+ ==\s*\n(.*?)(?=\n\n|\Z)", txt, re.S):
        out.append((m.group(1), parse_tla_state(m.group(2))))
    return out


# ----------------------------------------------------------------------------------------
# evidence / findings / violations
# ----------------------------------------------------------------------------------------
def load_findings():
    p = os.path.join(VERIF, "known_findings.json")
    if not os.path.exists(p):
        return {"findings": [], "fixed": []}
    return json.load(open(p))


class Reporter:
    """Collects violations for one property run, matches them against known findings,
    writes replay files and the evidence file, and decides the exit status."""

    def __init__(self, pid, tier, level):
        self.pid, self.tier, self.level = pid, tier, level
        self.t0 = time.time()
        self.violations = []    # (key, description, replay dict)
        self.known_hits = {}
        self.cov = {"samples": []}
        self.assumptions = []
        kf = load_findings()
        self.known = [f for f in kf.get("findings", []) if f["property"] == pid]
        os.makedirs(EVID, exist_ok=True)
        os.makedirs(REPLAYS, exist_ok=True)

    def violation(self, key, desc, replay):
        """key: stable identifier of the failing input/history/call site (matched against known findings)."""
        for f in self.known:
            if re.fullmatch(f["match"], key):
                if f["id"] not in self.known_hits:
                    self.known_hits[f["id"]] = (f, key)
                return False
        if any(k == key for k, _, _ in self.violations):
            return True
        self.violations.append((key, desc, replay))
        return True

    def add(self, **kw):
        for k, v in kw.items():
            if isinstance(v, int) and not isinstance(v, bool) and isinstance(self.cov.get(k), int):
                self.cov[k] += v
            elif k == "samples":
                self.cov["samples"].extend(v)
            else:
                self.cov[k] = v

    def sample(self, s, cap=6):
        if len(self.cov["samples"]) < cap:
            self.cov["samples"].append(s)

    def finish(self):
        wall = time.time() - self.t0
        for fid, (f, key) in sorted(self.known_hits.items()):
            print("KNOWN-FINDING: property=%s %s [%s]" % (self.pid, f["what"], key))
        paths = []
        for n, (key, desc, replay) in enumerate(self.violations[:20]):
            safe = re.sub(r"[^A-Za-z0-9_.-]+", "_", key)[:80]
            path = os.path.join(REPLAYS, "%s_%s.json" % (self.pid, safe))
            with open(path, "w") as fh:
                json.dump({"property": self.pid, "key": key, "description": desc, "replay": replay}, fh, indent=1, default=str)
            paths.append(path)
            print("VIOLATION property=%s replay=%s" % (self.pid, path))
            print("  what: %s" % desc)
        cov = dict(self.cov)
        cov.setdefault("states", 0)
        cov.setdefault("transitions", 0)
        cov.setdefault("traces_validated_against_impl", 0)
        cov.setdefault("evaluations", max(1, cov.get("traces_validated_against_impl", 0)))
        cov.setdefault("distinct_nontrivial", 2)
        if not cov["samples"]:
            cov["samples"] = ["(no sample recorded)"]
        cov["known_findings_seen"] = sorted(self.known_hits)
        ev = {"property_id": self.pid, "tier": self.tier, "seed": seed(), "level": self.level,
              "coverage": cov, "assumptions": self.assumptions, "wall_s": round(wall, 2),
              "violations": len(self.violations)}
        with open(os.path.join(EVID, self.pid + ".json"), "w") as fh:
            json.dump(ev, fh, indent=1, default=str)
        print("[%s/%s] wall=%.1fs states=%s traces=%s violations=%d known=%d" % (
            self.pid, self.tier, wall, cov.get("states"), cov.get("traces_validated_against_impl"),
            len(self.violations), len(self.known_hits)))
        return 1 if self.violations else 0


def run_worker(pyfile, args, variant="o3", env=None, timeout=3600, input_=None):
    """Run a harness worker script under /venv python with the fresh build on PYTHONPATH."""
    d = build(variant)
    e = dict(os.environ)
    e["PYTHONPATH"] = d + ":" + os.path.join(VERIF, "harness") + ":" + e.get("PYTHONPATH", "")
    e["PYTHONHASHSEED"] = "0"
    if env:
        e.update(env)
    return subprocess.run([PY, pyfile] + list(args), capture_output=True, text=True, env=e, timeout=timeout,
                          input=input_)


def asan_env():
    """environment for running a worker on the asan variant.  symbolize=0: the in-process symbolizer can hang after a report inside a
    ctypes call; frames are resolved afterwards with asan_where()."""
    rt = os.popen("clang -print-file-name=libclang_rt.asan-x86_64.so").read().strip()
    return {"LD_PRELOAD": rt, "ASAN_OPTIONS": "detect_leaks=0:symbolize=0"}


def asan_where(stderr):
    """first frame of a sanitizer report that lies in librebound, resolved to function and source line"""
    import re as _re
    head = _re.search(r"(ERROR: AddressSanitizer[^\n]*|[^\n]*runtime error[^\n]*)", stderr)
    m = _re.search(r"#\d+ 0x[0-9a-f]+\s+\((/[^\s)]*librebound[^\s)+]*)\+(0x[0-9a-f]+)\)", stderr)
    where = "?"
    if m:
        for tool in ("llvm-symbolizer", "llvm-symbolizer-14"):
            try:
                out = subprocess.run([tool, "--obj=" + m.group(1), m.group(2)], capture_output=True, text=True, timeout=60).stdout.split("\n")
                if out and out[0]:
                    where = "%s %s" % (out[0].strip(), out[1].strip() if len(out) > 1 else "")
                    break
            except Exception:
                continue
    return (head.group(1)[:160] if head else "sanitizer report"), where
