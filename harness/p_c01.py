"""C01 -- every integrator converges to the true N-body solution at its advertised order.

 Decided (discrete) part
   * the operator word of every valid option combination (4 kernels x 6 correctors x corrector2 x 4 coordinate
     systems as far as valid, 18 SABA types, 9 EOS splittings, JANUS orders, MERCURIUS) with every coefficient,
     corrector brackets, jumps and processors: Schedule.tla, validated on hook traces by ./check C09 (all
     configurations in its thorough tier);
   * Order.tla: which WHFast combinations must be refused (96 rows executed: refused iff specified invalid) and the
     Kepler mass parameter of each body per coordinate system, N_active and masses (30 rows, integer masses, exact)
     compared with the value handed to the Kepler solver (hook ksolve).
 Sampled part (A5)
   * star + planet: every Wisdom-Holman scheme in Jacobi / WHDS coordinates (all kernels, correctors, SABA) reproduces the analytic orbit (independent Kepler solution in the
     harness) to 1e-10 after 200 steps, both directions of time;
   * three bodies: error against an RK4 reference that does not use REBOUND at three step sizes; the observed order
     must reach advertised - 0.7 wherever the error is above the rounding floor; adaptive schemes reach 1e-9 and
     improve with the tolerance; a user ODE (harmonic oscillator) advanced with IAS15 / BS / WHFast / TRACE / LEAPFROG
     follows cos t to 1e-7.
"""
import json
import os
import re
import shutil

import common
from common import MachineryError

LEVEL = "model_checking"
HERE = os.path.dirname(os.path.abspath(__file__))


def run(tier, rep):
    common.build()
    sc = common.scratch("c01")
    res = common.run_tlc("Order", "Order", workers=1, coverage=False, timeout=900)
    if res.violation:
        rep.violation("model:Order:" + res.violation, "Order violates " + res.violation, {})
        return
    if not res.ok:
        raise MachineryError("Order did not complete: %s" % res.out[-1500:])
    rep.add(states=res.distinct, transitions=res.states)
    rows = []
    for ln in sorted(set(l for l in res.out.splitlines() if l.startswith('<<"'))):
        m = re.match(r'^<<"(\w+)", "(.*)">>$', ln)
        if m:
            rows.append([m.group(1), json.loads(m.group(2).replace('\\"', '"'))])
    if len(rows) < 120:
        raise MachineryError("Order printed %d rows" % len(rows))
    tf = os.path.join(sc, "table.ndjson")
    open(tf, "w").write("\n".join(json.dumps(r) for r in rows) + "\n")
    out = os.path.join(sc, "out.json")
    env = {common.GUARD: "1", "REBOUND_VERIF_TRACE": os.path.join(sc, "hook.txt")}
    r = common.run_worker(os.path.join(HERE, "w_c01.py"), [tf, out, str(common.seed()), tier], env=env, timeout=3000)
    if r.returncode != 0:
        if r.returncode < 0:
            rep.violation("crash", "real code crashed (signal %d)" % -r.returncode, {"stderr": r.stderr[-1500:]})
            return
        raise MachineryError("worker failed: %s" % r.stderr[-2500:])
    o = json.load(open(out))
    n = o["mu_rows"] + o["valid_rows"]
    rep.add(evaluations=n + o["two_body"] + o["order_runs"] + o["ode_runs"], traces_validated_against_impl=n, distinct_nontrivial=n + o["order_runs"],
            rule="rows of Order.tla's table (mass parameter, validity) executed once each; sampled runs per (scheme, options, direction)", exhaustive=False)
    rep.cov.update({k: o[k] for k in ("mu_rows", "valid_rows", "two_body", "order_runs", "ode_runs")})
    rep.cov["observed"] = o["observed"]
    rep.cov["operator_words"] = "validated by ./check C09 (evidence/C09.json)"
    rep.sample({"kind": "table row", "row": rows[10]})
    for v in o["violations"]:
        k = v["kind"]
        key = "%s:%s:%s" % (k, v.get("integrator", v.get("coord", "")), json.dumps(v.get("opts", v.get("cfg", "")), sort_keys=True)[:50])
        rep.violation(key, "%s: %s" % (k, json.dumps({x: v[x] for x in v if x != "kind"})[:500]), v)
    rep.assumptions += ["accuracy and order are sampled (one two-body and one three-body system, T = 1.6, three step sizes); thresholds advertised - 0.7 above a rounding floor of 3e-11",
                        "the RK4 reference (h = 2.5e-4) and the analytic Kepler solution are computed in the harness without REBOUND",
                        "operator words are decided by the C09 check; an algebra slip inside a sub-step that keeps the word is only visible to the sampled measurements"]
    shutil.rmtree(sc, ignore_errors=True)


def replay(path):
    print(json.dumps(json.load(open(path)), indent=1)[:4000])
    return 0
