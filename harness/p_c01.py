"""C01 -- every integrator converges to the true N-body solution at its advertised order.

 Decided (discrete) part
   * the operator word of every valid option combination (4 kernels x 6 correctors x corrector2 x 4 coordinate
     systems as far as valid, 18 SABA types, 9 EOS splittings, JANUS orders, MERCURIUS) with every coefficient,
     corrector brackets, jumps and processors: Schedule.tla, validated on hook traces by ./check C09 (all
     configurations in its thorough tier);
   * Order.tla: which WHFast combinations must be refused (96 rows executed: refused iff specified invalid) and the
     Kepler mass parameter of each body per coordinate system, N_active and masses (30 rows, integer masses, exact)
     compared with the value handed to the Kepler solver (hook ksolve);
   * Switch.tla: what one integrator leaves in the simulation object (selected gravity routine, registered N-body ODE)
     and what the next does with it; every history of <= 3 segments (891) is executed, its error may not exceed 30 x the
     sum of the errors its integrators make on their own;
   * TraceStep.tla: one TRACE step as a state machine over the answers of the two switching functions (pre-check, attempt,
     post-check, reject / redo): encounter list covers every flagged pair, flags only grow, at most one redo, balanced words,
     rejection iff something new, exact restore; hook traces of every scripted answer pattern (N=4, 3 active: 16384 per
     pericentre mode in the thorough tier) and of real close-encounter dynamics are validated by TLC; three negative models (no gravity fall-back, stale ODE kept, ignore flag not cleared) must fail.
 Sampled part (A5)
   * star + planet: every Wisdom-Holman scheme in Jacobi / WHDS coordinates (all kernels, correctors, SABA) reproduces the analytic orbit (independent Kepler solution in the
     harness) to 1e-10 after 200 steps, both directions of time;
   * three bodies: error against an RK4 reference that does not use REBOUND at three step sizes; the observed order
     must reach advertised - 0.7 wherever the error is above the rounding floor; adaptive schemes reach 1e-9 and
     improve with the tolerance; a user ODE (harmonic oscillator) advanced with IAS15 / BS / WHFast / TRACE / LEAPFROG
     follows cos t to 1e-7.
"""
import json
import os
import re
import shutil

import common
import tracestep
from common import MachineryError

LEVEL = "model_checking"
HERE = os.path.dirname(os.path.abspath(__file__))


def run(tier, rep):
    common.build()
    sc = common.scratch("c01")
    try:
        _run(tier, rep, sc)
    finally:
        shutil.rmtree(sc, ignore_errors=True)


def _run(tier, rep, sc):
    res = common.run_tlc("Order", "Order", workers=1, coverage=False, timeout=900)
    if res.violation:
        rep.violation("model:Order:" + res.violation, "Order violates " + res.violation, {})
        return
    if not res.ok:
        raise MachineryError("Order did not complete: %s" % res.out[-1500:])
    rep.add(states=res.distinct, transitions=res.states)
    rows = []
    for ln in sorted(set(l for l in res.out.splitlines() if l.startswith('<<"'))):
        m = re.match(r'^<<"(\w+)", "(.*)">>$', ln)
        if m:
            rows.append([m.group(1), json.loads(m.group(2).replace('\\"', '"'))])
    if len(rows) < 120:
        raise MachineryError("Order printed %d rows" % len(rows))
    # histories of integrator switches: the model with the fall-backs as implemented is clean, the two negative models are not
    sw = common.run_tlc("Switch", "Switch", workers=1, coverage=False, timeout=900)
    if sw.violation:
        rep.violation("model:Switch:" + sw.violation, "Switch violates " + sw.violation, {})
        return
    if not sw.ok:
        raise MachineryError("Switch did not complete: %s" % sw.out[-1500:])
    rep.add(states=sw.distinct, transitions=sw.states)
    for neg in ("Switch_negF", "Switch_negO", "Switch_negI"):
        ng = common.run_tlc("Switch", neg, workers=1, coverage=False, timeout=900)
        if ng.violation != "Clean":
            raise MachineryError("negative model %s does not violate Clean (%r)" % (neg, ng.violation))
    nh = 0
    for ln in sorted(set(l for l in sw.out.splitlines() if l.startswith('<<"H"'))):
        m = re.match(r'^<<"H", "(.*)">>$', ln)
        rows.append(["H", json.loads(m.group(1).replace('\\"', '"'))])
        nh += 1
    if nh < 800:
        raise MachineryError("Switch printed %d histories" % nh)
    tf = os.path.join(sc, "table.ndjson")
    open(tf, "w").write("\n".join(json.dumps(r) for r in rows) + "\n")
    out = os.path.join(sc, "out.json")
    env = {common.GUARD: "1", "REBOUND_VERIF_TRACE": os.path.join(sc, "hook.txt")}
    r = common.run_worker(os.path.join(HERE, "w_c01.py"), [tf, out, str(common.seed()), tier], env=env, timeout=3000)
    if r.returncode != 0:
        if r.returncode < 0:
            rep.violation("crash", "real code crashed (signal %d)" % -r.returncode, {"stderr": r.stderr[-1500:]})
            return
        raise MachineryError("worker failed: %s" % r.stderr[-2500:])
    o = json.load(open(out))
    # the TRACE step machine: model, negative model, hook traces of scripted and real switching functions
    tracestep.run(rep, tier, sc)
    if tier == "thorough":
        # the histories that change N around a BS segment once more under ASan + UBSan
        try:
            common.build("asan")
            out2 = os.path.join(sc, "out_asan.json")
            r2 = common.run_worker(os.path.join(HERE, "w_c01.py"), [tf, out2, str(common.seed()), tier], variant="asan",
                                   env=dict(common.asan_env(), C01_SWITCH_ONLY="60"), timeout=3000)
            if r2.returncode != 0 and "Sanitizer" in r2.stderr:
                rep.violation("asan:switch", "sanitizer report while executing integrator-switch histories", {"stderr": r2.stderr[-3000:]})
            elif r2.returncode != 0:
                rep.cov["asan"] = "not run: %s" % r2.stderr[-200:]
            else:
                rep.cov["asan"] = "%d switch histories clean under ASan+UBSan" % json.load(open(out2))["switch_runs"]
        except MachineryError as e:
            rep.cov["asan"] = "not run: %s" % str(e)[:200]
    n = o["mu_rows"] + o["valid_rows"] + o["switch_runs"]
    rep.add(evaluations=n + o["two_body"] + o["order_runs"] + o["ode_runs"] + o["encounter_runs"], traces_validated_against_impl=n, distinct_nontrivial=n + o["order_runs"],
            rule="rows of Order.tla's table (mass parameter, validity) executed once each; sampled runs per (scheme, options, direction)", exhaustive=False)
    rep.cov.update({k: o[k] for k in ("mu_rows", "valid_rows", "two_body", "order_runs", "ode_runs", "switch_runs", "encounter_runs")})
    rep.cov["observed"] = o["observed"]
    rep.cov["operator_words"] = "validated by ./check C09 (evidence/C09.json)"
    rep.sample({"kind": "table row", "row": rows[10]})
    for v in o["violations"]:
        k = v["kind"]
        key = "%s:%s:%s" % (k, v.get("integrator", v.get("coord", "")), json.dumps(v.get("opts", v.get("cfg", "")), sort_keys=True)[:50])
        rep.violation(key, "%s: %s" % (k, json.dumps({x: v[x] for x in v if x != "kind"})[:500]), v)
    rep.assumptions += ["accuracy and order are sampled (one two-body and one three-body system, T = 1.6, three step sizes); thresholds advertised - 0.7 above a rounding floor of 3e-11",
                        "the RK4 reference (h = 2.5e-4) and the analytic Kepler solution are computed in the harness without REBOUND",
                        "operator words are decided by the C09 check; an algebra slip inside a sub-step that keeps the word is only visible to the sampled measurements"]
    shutil.rmtree(sc, ignore_errors=True)


def replay(path):
    print(json.dumps(json.load(open(path)), indent=1)[:4000])
    return 0
